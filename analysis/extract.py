"""Engine E1 front end: run the bdfacts rustc driver over /repo's current working tree.

Every extraction uses a fresh CARGO_TARGET_DIR (mktemp) so cargo can never skip the
driver; the JSON fact files are cached under /verif/.cache keyed by a hash of every
input (sources, manifest, lock file, RUST_BIGDECIMAL_* environment, feature set,
profile, driver binary), written by rename.
"""
import hashlib, json, os, shutil, subprocess, sys, tempfile, time

VERIF = os.path.dirname(os.path.dirname(os.path.abspath(__file__)))
REPO = os.environ.get('VERIF_REPO', '/repo')
DRIVER = os.path.join(VERIF, 'driver', 'target', 'release', 'bdfacts')
CACHE = os.path.join(VERIF, '.cache')

FEATURES = {
    'default': [],
    'serde': ['--features', 'serde-json'],
    'serde-string': ['--features', 'serde-json,string-only'],
    'nostd': ['--no-default-features'],
}
PROFILES = {
    # dev profile as cargo builds it: debug assertions and overflow checks on
    'dbg': '-Zmir-opt-level=0 -Awarnings',
    # debug_assert! compiled out, overflow checks kept: nothing can be "proved" from a
    # debug assertion that vanishes in release builds
    'rel': '-Zmir-opt-level=0 -Awarnings -Cdebug-assertions=off -Coverflow-checks=on',
}


def _sysroot():
    return subprocess.check_output(['rustc', '+nightly', '--print', 'sysroot'], text=True).strip()


def _tree_files(repo):
    out = []
    for base in ('src',):
        for root, dirs, files in os.walk(os.path.join(repo, base)):
            dirs.sort()
            for f in sorted(files):
                out.append(os.path.join(root, f))
    for f in ('build.rs', 'Cargo.toml', 'Cargo.lock', 'README.md'):
        p = os.path.join(repo, f)
        if os.path.exists(p):
            out.append(p)
    return out


def tree_hash(repo=None):
    repo = repo or REPO
    h = hashlib.sha256()
    for p in _tree_files(repo):
        h.update(os.path.relpath(p, repo).encode())
        h.update(b'\0')
        with open(p, 'rb') as fh:
            h.update(hashlib.sha256(fh.read()).digest())
    return h.hexdigest()


def _key(repo, feat, prof, env):
    h = hashlib.sha256()
    h.update(tree_hash(repo).encode())
    h.update(('|%s|%s|' % (feat, prof)).encode())
    for k in sorted(env):
        h.update(('%s=%s;' % (k, env[k])).encode())
    with open(DRIVER, 'rb') as fh:
        h.update(hashlib.sha256(fh.read()).digest())
    return h.hexdigest()[:24]


def _prune(keep=24):
    try:
        ents = [(os.path.getmtime(os.path.join(CACHE, e)), e) for e in os.listdir(CACHE)]
    except OSError:
        return
    ents.sort(reverse=True)
    for _, e in ents[keep:]:
        shutil.rmtree(os.path.join(CACHE, e), ignore_errors=True)


def extract(feat='default', prof='rel', repo=None, extra_env=None, use_cache=True):
    """Returns (dir containing bigdecimal.json and build_script_build.json, info dict)."""
    repo = repo or REPO
    if not os.path.exists(DRIVER):
        raise SystemExit('driver not built: run MANIFEST.setup_cmd (cd /verif/driver && cargo build --release --offline)')
    cfg_env = {k: v for k, v in os.environ.items() if k.startswith('RUST_BIGDECIMAL_')}
    if extra_env:
        cfg_env.update(extra_env)
    key = _key(repo, feat, prof, cfg_env)
    cdir = os.path.join(CACHE, key)
    info = {'features': feat, 'profile': prof, 'env': cfg_env, 'cache_key': key, 'repo': repo}
    if use_cache and not os.environ.get('VERIF_NOCACHE') and os.path.exists(os.path.join(cdir, 'bigdecimal.json')):
        info['cached'] = True
        try:
            os.utime(cdir)
        except OSError:
            pass
        return cdir, info
    t0 = time.time()
    tmp = tempfile.mkdtemp(prefix='bdfacts-')
    try:
        out = os.path.join(tmp, 'out')
        os.mkdir(out)
        env = dict(os.environ)
        env.update(cfg_env)
        env.update({
            'LD_LIBRARY_PATH': _sysroot() + '/lib:' + env.get('LD_LIBRARY_PATH', ''),
            'RUSTFLAGS': PROFILES[prof],
            'RUSTC_WORKSPACE_WRAPPER': DRIVER,
            'BDFACTS_OUT': out,
            'CARGO_TARGET_DIR': os.path.join(tmp, 'target'),
            'CARGO_NET_OFFLINE': 'true',
        })
        env.pop('RUSTC_WRAPPER', None)
        cmd = ['cargo', '+nightly', 'check', '--offline', '--lib'] + FEATURES[feat]
        p = subprocess.run(cmd, cwd=repo, env=env, stdout=subprocess.PIPE, stderr=subprocess.STDOUT, text=True)
        if p.returncode != 0 or not os.path.exists(os.path.join(out, 'bigdecimal.json')):
            sys.stderr.write(p.stdout[-4000:])
            raise ExtractionError('fact extraction failed (%s/%s): cargo exit %d' % (feat, prof, p.returncode))
        os.makedirs(CACHE, exist_ok=True)
        stage = tempfile.mkdtemp(prefix='stage-', dir=CACHE)
        for f in os.listdir(out):
            shutil.move(os.path.join(out, f), os.path.join(stage, f))
        try:
            os.rename(stage, cdir)
        except OSError:
            shutil.rmtree(stage, ignore_errors=True)  # somebody else won the race
        info['cached'] = False
        info['extract_s'] = round(time.time() - t0, 2)
        _prune()
        return cdir, info
    finally:
        shutil.rmtree(tmp, ignore_errors=True)


class ExtractionError(Exception):
    pass
