"""Small intraprocedural def-use helpers shared by the rule engines."""
import collections, re
from facts import cdef, cres, ctrait, op_local, op_base, fields_of


class Defs:
    """definitions of every local: list of ('assign', bid, stmt) / ('call', bid, term) / ('param',)"""

    def __init__(self, fn):
        self.fn = fn
        self.defs = collections.defaultdict(list)
        self.partial = collections.defaultdict(list)   # writes through projections (fields / deref)
        self.mut_borrowed = set()
        for i in range(1, fn.argc + 1):
            self.defs[i].append(('param',))
        for bid, st in fn.stmts():
            lhs = st['lhs']
            if lhs['p']:
                self.partial[lhs['l']].append(('assign', bid, st))
            else:
                self.defs[lhs['l']].append(('assign', bid, st))
            rv = st['rv']
            if rv['r'] == 'ref' and rv['mut'] and not rv['pl']['p']:
                self.mut_borrowed.add(rv['pl']['l'])
            if rv['r'] == 'rawptr' and not rv['pl']['p']:
                self.mut_borrowed.add(rv['pl']['l'])
        for bid, t in fn.calls():
            d = t['dest']
            if d['p']:
                self.partial[d['l']].append(('call', bid, t))
            else:
                self.defs[d['l']].append(('call', bid, t))


def must_images(fn, seeds, step, defs=None):
    """least fixed point: a local is an image iff it has at least one definition and EVERY
    definition is accepted by step(defn, images) and it is never written through a projection
    (params in seeds are images by fiat).  Sound for 'must hold a derived value' reasoning."""
    defs = defs or Defs(fn)
    images = set(seeds)
    changed = True
    while changed:
        changed = False
        for l, ds in defs.defs.items():
            if l in images or not ds:
                continue
            if defs.partial.get(l):
                continue
            if all(d[0] != 'param' and step(d, images) for d in ds):
                images.add(l)
                changed = True
    return images


def src_local_of_stmt(st):
    """for `x = use y` / `x = &y` / `x = &*y` / `x = *y` returns y (bare local, derefs allowed), else None"""
    rv = st['rv']
    pl = None
    if rv['r'] == 'use' and rv['op']['k'] in ('copy', 'move'):
        pl = rv['op']['pl']
    elif rv['r'] == 'ref':
        pl = rv['pl']
    if pl is None:
        return None
    if all(p == '*' for p in pl['p']):
        return pl['l']
    return None


def src_place_of_stmt(st):
    rv = st['rv']
    if rv['r'] == 'use' and rv['op']['k'] in ('copy', 'move'):
        return rv['op']['pl']
    if rv['r'] == 'ref':
        return rv['pl']
    return None


IDENT_CALLS = re.compile(r'clone::Clone::clone$|ops::Deref::deref$|borrow::Borrow::borrow$|convert::AsRef::as_ref$|borrow::ToOwned::to_owned$')
