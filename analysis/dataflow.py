"""Small intraprocedural def-use helpers shared by the rule engines."""
import collections, re
from facts import cdef, cres, ctrait, op_local, op_base, fields_of


class Defs:
    """definitions of every local: list of ('assign', bid, stmt) / ('call', bid, term) / ('param',)"""

    def __init__(self, fn):
        self.fn = fn
        self.defs = collections.defaultdict(list)
        self.partial = collections.defaultdict(list)   # writes through projections (fields / deref)
        self.mut_borrowed = set()
        for i in range(1, fn.argc + 1):
            self.defs[i].append(('param',))
        for bid, st in fn.stmts():
            lhs = st['lhs']
            if lhs['p']:
                self.partial[lhs['l']].append(('assign', bid, st))
            else:
                self.defs[lhs['l']].append(('assign', bid, st))
            rv = st['rv']
            if rv['r'] == 'ref' and rv['mut'] and not rv['pl']['p']:
                self.mut_borrowed.add(rv['pl']['l'])
            if rv['r'] == 'rawptr' and not rv['pl']['p']:
                self.mut_borrowed.add(rv['pl']['l'])
        for bid, t in fn.calls():
            d = t['dest']
            if d['p']:
                self.partial[d['l']].append(('call', bid, t))
            else:
                self.defs[d['l']].append(('call', bid, t))


def must_images(fn, seeds, step, defs=None):
    """least fixed point: a local is an image iff it has at least one definition and EVERY
    definition is accepted by step(defn, images) and it is never written through a projection
    (params in seeds are images by fiat).  Sound for 'must hold a derived value' reasoning."""
    defs = defs or Defs(fn)
    images = set(seeds)
    changed = True
    while changed:
        changed = False
        for l, ds in defs.defs.items():
            if l in images or not ds:
                continue
            if defs.partial.get(l):
                continue
            if all(d[0] != 'param' and step(d, images) for d in ds):
                images.add(l)
                changed = True
    return images


def src_local_of_stmt(st):
    """for `x = use y` / `x = &y` / `x = &*y` / `x = *y` returns y (bare local, derefs allowed), else None"""
    rv = st['rv']
    pl = None
    if rv['r'] == 'use' and rv['op']['k'] in ('copy', 'move'):
        pl = rv['op']['pl']
    elif rv['r'] == 'ref':
        pl = rv['pl']
    if pl is None:
        return None
    if all(p == '*' for p in pl['p']):
        return pl['l']
    return None


def src_place_of_stmt(st):
    rv = st['rv']
    if rv['r'] == 'use' and rv['op']['k'] in ('copy', 'move'):
        return rv['op']['pl']
    if rv['r'] == 'ref':
        return rv['pl']
    return None


IDENT_CALLS = re.compile(r'clone::Clone::clone$|ops::Deref::deref$|borrow::Borrow::borrow$|convert::AsRef::as_ref$|borrow::ToOwned::to_owned$')


def stmt_reads(st):
    """places read by an assign statement"""
    rv = st['rv']
    r = rv['r']
    out = []
    if r in ('use', 'cast'):
        ops = [rv['op']]
    elif r == 'bin':
        ops = [rv['a'], rv['b']]
    elif r == 'un':
        ops = [rv['a']]
    elif r == 'agg':
        ops = rv['ops']
    else:
        ops = []
    for o in ops:
        if o['k'] in ('copy', 'move'):
            out.append(o['pl'])
    if r in ('ref', 'rawptr', 'discr'):
        out.append(rv['pl'])
    # a write through a projection reads the base pointer
    if st['lhs']['p'] and st['lhs']['p'][0] == '*':
        out.append({'l': st['lhs']['l'], 'p': []})
    return out


def term_reads(t):
    out = []
    k = t['t']
    ops = []
    if k == 'switch':
        ops = [t['on']]
    elif k == 'call':
        ops = list(t['args'])
        if 'indirect' in t['callee']:
            ops.append(t['callee']['indirect'])
    elif k == 'assert':
        ops = [t['cond']] + list(t['ops'])
    for o in ops:
        if isinstance(o, dict) and o.get('k') in ('copy', 'move'):
            out.append(o['pl'])
    return out


def phi_stable(fn, defs, l):
    """True when local l is never (re)defined after it may have been read: every definition
    precedes every read on every path (assigned once per branch, then only read)."""
    if l in defs.mut_borrowed or defs.partial.get(l):
        return False
    live = fn.live_blocks()
    def_pos = []   # (block, index) index = stmt idx, or 10**6 for terminator
    for d in defs.defs.get(l, []):
        if d[0] == 'param':
            def_pos.append((0, -1))
        elif d[0] == 'assign':
            b = d[1]
            def_pos.append((b, fn.blocks[b]['st'].index(d[2])))
        else:
            def_pos.append((d[1], 10 ** 6))
    read_pos = []
    for b in live:
        blk = fn.blocks[b]
        for i, st in enumerate(blk['st']):
            if st['s'] == 'assign' and any(pl['l'] == l for pl in stmt_reads(st)):
                read_pos.append((b, i))
        if any(pl['l'] == l for pl in term_reads(blk['term'])):
            read_pos.append((b, 10 ** 6 - 1))
        if blk['term']['t'] == 'drop' and blk['term']['pl']['l'] == l:
            pass
    # forward reachability from each read block's successors
    reach_cache = {}

    def fwd(b):
        if b not in reach_cache:
            seen = set()
            st = list(fn.succ(b))
            while st:
                x = st.pop()
                if x in seen or x not in live:
                    continue
                seen.add(x)
                st.extend(fn.succ(x))
            reach_cache[b] = seen
        return reach_cache[b]

    for (rb, ri) in read_pos:
        after = fwd(rb)
        for (db, di) in def_pos:
            if db in after:
                return False
            if db == rb and di >= ri:
                return False
    return True
