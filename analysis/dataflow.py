"""Small intraprocedural def-use helpers shared by the rule engines."""
import collections, re
from facts import cdef, cres, ctrait, op_local, op_base, fields_of


class Defs:
    """definitions of every local: list of ('assign', bid, stmt) / ('call', bid, term) / ('param',)"""

    def __init__(self, fn):
        self.fn = fn
        self.defs = collections.defaultdict(list)
        self.partial = collections.defaultdict(list)   # writes through projections (fields / deref)
        self.mut_borrowed = set()
        for i in range(1, fn.argc + 1):
            self.defs[i].append(('param',))
        for bid, st in fn.stmts():
            lhs = st['lhs']
            if lhs['p']:
                self.partial[lhs['l']].append(('assign', bid, st))
            else:
                self.defs[lhs['l']].append(('assign', bid, st))
            rv = st['rv']
            if rv['r'] == 'ref' and rv['mut'] and not rv['pl']['p']:
                self.mut_borrowed.add(rv['pl']['l'])
            if rv['r'] == 'rawptr' and not rv['pl']['p']:
                self.mut_borrowed.add(rv['pl']['l'])
        mutref = {}   # local holding `&mut X...`  ->  X
        for bid, st in fn.stmts():
            rv = st['rv']
            if rv['r'] == 'ref' and rv['mut'] and not st['lhs']['p'] and '*' not in rv['pl']['p']:
                mutref[st['lhs']['l']] = rv['pl']['l']
        # reborrows / moves of mutable references
        changed = True
        while changed:
            changed = False
            for bid, st in fn.stmts():
                rv = st['rv']
                if st['lhs']['p'] or st['lhs']['l'] in mutref:
                    continue
                src = None
                if rv['r'] == 'use' and rv['op']['k'] in ('copy', 'move') and not rv['op']['pl']['p']:
                    src = rv['op']['pl']['l']
                elif rv['r'] == 'ref' and rv['pl']['p'] and rv['pl']['p'][0] == '*':
                    src = rv['pl']['l']
                if src in mutref and fn.locals[st['lhs']['l']].startswith('&mut'):
                    mutref[st['lhs']['l']] = mutref[src]
                    changed = True
        # `r = IndexMut::index_mut(&mut V, i)` / `DerefMut::deref_mut(&mut V)`: r points into V
        for bid, t in fn.calls():
            if re.search(r'ops::IndexMut::index_mut$|ops::DerefMut::deref_mut$|::as_mut$|::to_mut$|::last_mut$|::first_mut$|::get_mut$', cdef(t)) and t['args'] and not t['dest']['p']:
                a0 = t['args'][0]
                if a0['k'] in ('copy', 'move') and not a0['pl']['p'] and a0['pl']['l'] in mutref:
                    mutref[t['dest']['l']] = mutref[a0['pl']['l']]
        self.mutref = mutref
        for bid, st in fn.stmts():
            lhs = st['lhs']
            if lhs['p'] and lhs['p'][0] == '*' and lhs['l'] in mutref:
                self.partial[mutref[lhs['l']]].append(('assign', bid, st))
        for bid, t in fn.calls():
            d = t['dest']
            if d['p']:
                self.partial[d['l']].append(('call', bid, t))
            else:
                self.defs[d['l']].append(('call', bid, t))
            # a callee receiving `&mut X` may overwrite X: record a partial definition of X
            for a in t['args']:
                if a['k'] in ('copy', 'move') and not a['pl']['p'] and a['pl']['l'] in mutref:
                    self.partial[mutref[a['pl']['l']]].append(('call', bid, t))


def must_images(fn, seeds, step, defs=None):
    """least fixed point: a local is an image iff it has at least one definition and EVERY
    definition is accepted by step(defn, images) and it is never written through a projection
    (params in seeds are images by fiat).  Sound for 'must hold a derived value' reasoning."""
    defs = defs or Defs(fn)
    images = set(seeds)
    changed = True
    while changed:
        changed = False
        for l, ds in defs.defs.items():
            if l in images or not ds:
                continue
            if defs.partial.get(l):
                continue
            if all(d[0] != 'param' and step(d, images) for d in ds):
                images.add(l)
                changed = True
    return images


def src_local_of_stmt(st):
    """for `x = use y` / `x = &y` / `x = &*y` / `x = *y` returns y (bare local, derefs allowed), else None"""
    rv = st['rv']
    pl = None
    if rv['r'] == 'use' and rv['op']['k'] in ('copy', 'move'):
        pl = rv['op']['pl']
    elif rv['r'] == 'ref':
        pl = rv['pl']
    if pl is None:
        return None
    if all(p == '*' for p in pl['p']):
        return pl['l']
    return None


def src_place_of_stmt(st):
    rv = st['rv']
    if rv['r'] == 'use' and rv['op']['k'] in ('copy', 'move'):
        return rv['op']['pl']
    if rv['r'] == 'ref':
        return rv['pl']
    return None


IDENT_CALLS = re.compile(r'clone::Clone::clone$|ops::Deref::deref$|borrow::Borrow::borrow$|convert::AsRef::as_ref$|borrow::ToOwned::to_owned$')


def stmt_reads(st):
    """places read by an assign statement"""
    rv = st['rv']
    r = rv['r']
    out = []
    if r in ('use', 'cast'):
        ops = [rv['op']]
    elif r == 'bin':
        ops = [rv['a'], rv['b']]
    elif r == 'un':
        ops = [rv['a']]
    elif r == 'agg':
        ops = rv['ops']
    else:
        ops = []
    for o in ops:
        if o['k'] in ('copy', 'move'):
            out.append(o['pl'])
    if r in ('ref', 'rawptr', 'discr'):
        out.append(rv['pl'])
    # a write through a projection reads the base pointer
    if st['lhs']['p'] and st['lhs']['p'][0] == '*':
        out.append({'l': st['lhs']['l'], 'p': []})
    return out


def term_reads(t):
    out = []
    k = t['t']
    ops = []
    if k == 'switch':
        ops = [t['on']]
    elif k == 'call':
        ops = list(t['args'])
        if 'indirect' in t['callee']:
            ops.append(t['callee']['indirect'])
    elif k == 'assert':
        ops = [t['cond']] + list(t['ops'])
    for o in ops:
        if isinstance(o, dict) and o.get('k') in ('copy', 'move'):
            out.append(o['pl'])
    return out


def phi_stable(fn, defs, l):
    """True when local l is never (re)defined after it may have been read: every definition
    precedes every read on every path (assigned once per branch, then only read)."""
    if l in defs.mut_borrowed or defs.partial.get(l):
        return False
    live = fn.live_blocks()
    def_pos = []   # (block, index) index = stmt idx, or 10**6 for terminator
    for d in defs.defs.get(l, []):
        if d[0] == 'param':
            def_pos.append((0, -1))
        elif d[0] == 'assign':
            b = d[1]
            def_pos.append((b, fn.blocks[b]['st'].index(d[2])))
        else:
            def_pos.append((d[1], 10 ** 6))
    read_pos = []
    for b in live:
        blk = fn.blocks[b]
        for i, st in enumerate(blk['st']):
            if st['s'] == 'assign' and any(pl['l'] == l for pl in stmt_reads(st)):
                read_pos.append((b, i))
        if any(pl['l'] == l for pl in term_reads(blk['term'])):
            read_pos.append((b, 10 ** 6 - 1))
        if blk['term']['t'] == 'drop' and blk['term']['pl']['l'] == l:
            pass
    # forward reachability from each read block's successors
    reach_cache = {}

    def fwd(b):
        if b not in reach_cache:
            seen = set()
            st = list(fn.succ(b))
            while st:
                x = st.pop()
                if x in seen or x not in live:
                    continue
                seen.add(x)
                st.extend(fn.succ(x))
            reach_cache[b] = seen
        return reach_cache[b]

    for (rb, ri) in read_pos:
        after = fwd(rb)
        for (db, di) in def_pos:
            if db in after:
                return False
            if db == rb and di >= ri:
                return False
    return True


def backward_calls(fn, start_locals, is_stop_call):
    """data-dependence walk backwards from `start_locals`: returns (stops, visited_calls) where
    stops = calls (bid, term) satisfying is_stop_call that are reached first on some dependence
    chain (the walk does not continue through them)"""
    defs = Defs(fn)
    seen = set()
    work = list(start_locals)
    stops = []
    visited = []
    while work:
        l = work.pop()
        if l in seen:
            continue
        seen.add(l)
        for d in defs.defs.get(l, []) + defs.partial.get(l, []):
            if d[0] == 'param':
                continue
            if d[0] == 'call':
                t = d[2]
                if is_stop_call(t):
                    if (d[1], t) not in stops:
                        stops.append((d[1], t))
                    continue
                visited.append((d[1], t))
                for a in t['args']:
                    if a['k'] in ('copy', 'move'):
                        work.append(a['pl']['l'])
            else:
                for pl in stmt_reads(d[2]):
                    work.append(pl['l'])
    return stops, visited
