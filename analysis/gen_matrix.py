#!/usr/bin/env python3
"""Regenerates the catch matrix section of DESIGN.md (between the CATCH-MATRIX markers) from
canaries/*.patch headers and seeded/*/meta.json."""
import json, os, re, sys
HERE = os.path.dirname(os.path.abspath(__file__))
VERIF = os.path.dirname(HERE)
sys.path.insert(0, HERE)
from canary import parse_header

lines = []
lines.append('### 12.1 Canaries (written by me, `canaries/mutants.py`; each compiles and is applied to a scratch copy)\n')
lines.append('(198 generated from `canaries/mutants.py` plus 8 `h-*.patch` files: the round-h independent defects that led to new clauses, kept as canaries under the key of the clause they must trigger, so that the thorough tier\'s self-test covers those clauses.)\n')
lines.append('| canary | property check(s) that must fire | expected key fragment | what the defect is |')
lines.append('|---|---|---|---|')
cdir = os.path.join(VERIF, 'canaries')
for f in sorted(os.listdir(cdir)):
    if f.endswith('.patch'):
        m = parse_header(os.path.join(cdir, f))
        lines.append('| %s | %s | `%s` | %s |' % (f[:-6], ', '.join(m['property']), '; '.join(m['expect'])[:70].replace('|', '\\|'), (m.get('note') or '').replace('|', '\\|')))
lines.append('')
lines.append('### 12.2 Independently written defects (`seeded/<id>/`; authors saw only the property text)\n')
lines.append('| id | property | caught by | needs to manifest | verdict |')
lines.append('|---|---|---|---|---|')
sdir = os.path.join(VERIF, 'seeded')
notes = {}
np = os.path.join(sdir, 'NOTES.json')
if os.path.exists(np):
    notes = json.load(open(np))
for d in sorted(os.listdir(sdir)) if os.path.isdir(sdir) else []:
    mp = os.path.join(sdir, d, 'meta.json')
    if not os.path.exists(mp):
        continue
    m = json.load(open(mp))
    caught = sorted(m.get('caught_by') or {})
    verdict = 'caught by its own property check' if m.get('caught_by_own_property_check') else ('caught only by another check' if caught else 'MISSED')
    if d in notes:
        verdict += ' - ' + notes[d]
    lines.append('| %s | %s | %s | %s | %s |' % (d, m['property'], ', '.join(caught) or '-', (m.get('needs_to_manifest') or '')[:160].replace('|', '\\|').replace('\n', ' '), verdict))
block = '\n'.join(lines)
p = os.path.join(VERIF, 'DESIGN.md')
s = open(p).read()
a, b = '<!-- CATCH-MATRIX:BEGIN -->', '<!-- CATCH-MATRIX:END -->'
if a in s and b in s:
    s = s[:s.index(a) + len(a)] + '\n' + block + '\n' + s[s.index(b):]
    open(p, 'w').write(s)
    print('matrix updated: %d lines' % len(lines))
else:
    print('markers not found')
