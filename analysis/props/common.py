"""entry-set selectors shared by the property modules (API-level names, never file/line)"""
import re

DEC_SELF = re.compile(r'^(BigDecimal|BigDecimalRef)$')


def cmp_entries(F):
    return [f for f in F.real_fns() if not f.is_closure and f.trait in ('std::cmp::PartialEq', 'std::cmp::Ord', 'std::cmp::PartialOrd')
            and DEC_SELF.match(re.sub(r'<.*$', '', f.self_ty or ''))]


def hash_entries(F):
    return [f for f in F.real_fns() if not f.is_closure and f.trait == 'std::hash::Hash' and f.self_ty == 'BigDecimal']


def parse_entries(F):
    out = [f for f in F.real_fns() if not f.is_closure and (
        (f.trait == 'num_traits::Num' and f.self_ty == 'BigDecimal' and f.item == 'from_str_radix') or
        (f.trait == 'std::str::FromStr' and f.self_ty == 'BigDecimal') or
        f.name == 'BigDecimal::parse_bytes')]
    return out


TRUST_STD = 'std/core/alloc functions not listed in the may-panic table are assumed not to panic (allocation failure excluded)'
TRUST_BIGINT = 'num-bigint arithmetic (+,-,*,cmp,to_radix,from_str_radix with radix 10) does not panic; its division panics only on a zero divisor'
