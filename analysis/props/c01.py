"""C01: +, -, * (and the derived exact operations) are exact for every operand form (R-SCALE)."""
from props import exact

TRAITS = ('std::ops::Add', 'std::ops::Sub', 'std::ops::Mul', 'std::ops::Neg', 'std::ops::AddAssign', 'std::ops::SubAssign', 'std::ops::MulAssign')


def run(ctx):
    rep = ctx.rep
    rep.explanation = ('Static MIR analysis: scale-dimension typing (R-SCALE). Every Add/Sub/Mul/Neg and compound-assignment impl involving BigDecimal or '
                       'BigDecimalRef (all macro-generated overloads), the addition helpers, double/half/square/cube/abs and the iterator sums are '
                       'analysed path by path over symbolic operands: each big integer carries (real value as a polynomial over the operands, scale '
                       'dimension); integer +/- demand provably equal dimensions, * adds them, powers of ten and rescale primitives must go upward, '
                       'no lossy integer operation may feed the result, and the returned value must equal a (op) b as a polynomial normal form under '
                       'the path\'s value facts. The argument is per path for ALL operand values and scales. The power-of-ten helpers are exponent-typed: every loop-free branch of ten_to_the_uint / ten_to_the_u64 / ten_to_the returns exactly 10^k. NOT decided: the 19-digit-chunk loop of ten_to_the_uint (20 <= k < 590), '
                       'num-bigint\'s arithmetic, termination of the one self-recursive overload.')
    F = ctx.facts('default', 'rel')
    n, arms, sc = exact.operator_family(rep, F, TRAITS)
    nd = exact.derived_ops(rep, F)
    nr = exact.rescale_primitives(rep, F, scale_only=False)
    rep.floor('operator impl functions + helpers', n, 380)
    rep.floor('distinct macro arms', arms, 60)
    rep.floor('derived exact operations', nd, 9)
    rep.floor('rescale primitives', nr, 4)
    nph = exact.power_helpers(rep, F)
    npf = exact.pow_fits(ctx)
    rep.floor('integer powers of ten checked for overflow', npf, 5)
    rep.floor('power-of-ten helpers', nph, 3)
    rep.extra['operator_functions'] = n
    rep.extra['macro_arms'] = arms
    rep.extra['shortcut_paths_verified'] = sc
    rep.trust('helper summaries: ten_to_the*(k) = 10^k; count_decimal_digits*; normalized() preserves the value')
    rep.trust('num-bigint +, -, * are exact; assume-guarantee between overloads (partial correctness by induction on call depth)')
