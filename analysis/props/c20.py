"""C20: compile-time configuration is honoured by every default-context operation (R-PROV family)."""
import json, os, re
from rules import prov, provrules as R

VERIF = os.path.dirname(os.path.dirname(os.path.dirname(os.path.abspath(__file__))))


def readme_vars(repo):
    out = set()
    try:
        with open(os.path.join(repo, 'README.md')) as fh:
            for line in fh:
                m = re.match(r'^\|\s*`(RUST_BIGDECIMAL_[A-Z_0-9]+)`\s*\|', line)
                if m:
                    out.add(m.group(1))
    except OSError:
        pass
    return out


def engine(ctx, F):
    if not hasattr(F, '_prov'):
        F._prov = prov.ProvEngine(F)
    return F._prov


def run(ctx):
    rep = ctx.rep
    rep.explanation = ('Static MIR provenance analysis (no code is executed, nothing is rebuilt per configuration): each rule states which '
                       'generated constant must reach which consumer, so one analysis of the default build covers every value the constants '
                       'can take. PROV-BUILD (build.rs: env var -> file -> const), PROV-CTXDEFAULT, PROV-DEFAULTOPS (sqrt/cbrt/inverse/round/'
                       'division/exp), PROV-DISPLAY (thresholds in order, consumed, no other hard-coded threshold, padding limit), PROV-FMTROUND. '
                       'Does NOT decide the numeric results of the operations.')
    F = ctx.facts('default', 'rel')
    E = engine(ctx, F)
    n1 = R.ctx_default(rep, F, E)
    n2 = R.default_ops(rep, F, E)
    n3, nd = R.display_rules(rep, F, E)
    n4 = R.fmt_round(rep, F, E)
    rep.floor('Context/RoundingMode Default impls', n1, 2)
    rep.floor('default-context operation sinks', n2, 10)
    from props import roots
    nkg = roots.kernel_gates(rep, F, r'.')
    rep.floor('kernel gateways (implicit-default wrappers cannot bypass the explicit-context entry points)', nkg, 4)
    rep.floor('Display rule instances', n3, 6)
    rep.floor('functions reachable from Display', nd, 25)
    rep.floor('formatting rounding sinks', n4, 2)
    # the configured mode reaches the rounder (PROV-FMTROUND above); it is honoured only if no path of the ASCII rounding
    # routine drops digits without consulting that rounder (a shortcut that truncates on its own ignores the configuration)
    from rules import asciiround
    nar = asciiround.check(rep, F)
    rep.floor('positions of the ASCII rounding routine', nar, 6)
    # build.rs
    FB = ctx.facts('default', 'rel', crate='build_script_build')
    with open(os.path.join(VERIF, 'tables', 'config_pairing.json')) as fh:
        pairing = json.load(fh)['pairing']
    lib_consts = sorted({c['name'].split('::')[-1] for c in F.consts.values() if c.get('out_dir')})
    rep.entries['generated constants included by the library'] = lib_consts
    n5, triples = R.build_rules(rep, FB, lib_consts, readme_vars(ctx.repo), pairing)
    rep.extra['build_triples'] = [{'const': t[0], 'env': t[1], 'file': t[2]} for t in triples]
    rep.floor('build.rs rule instances', n5, 12)
    rep.floor('generated constants', len(lib_consts), 5)
    if ctx.tier == 'thorough':
        thorough(ctx, lib_consts)
    rep.trust('rustc constant evaluation and MIR construction; format!/Arguments::new lower the template into one byte-string operand')
    rep.assume('closures passed to Option/Result combinators are summarised through their bodies; std callees not in the forwarding table yield opaque `ret:` sources')


def thorough(ctx, lib_consts):
    """re-extract under non-default environments: constants' values change, every rule verdict must not"""
    rep = ctx.rep
    envs = [
        {'RUST_BIGDECIMAL_DEFAULT_PRECISION': '7', 'RUST_BIGDECIMAL_DEFAULT_ROUNDING_MODE': 'Down',
         'RUST_BIGDECIMAL_FMT_EXPONENTIAL_LOWER_THRESHOLD': '9', 'RUST_BIGDECIMAL_FMT_EXPONENTIAL_UPPER_THRESHOLD': '40', 'RUST_BIGDECIMAL_FMT_MAX_INTEGER_PADDING': '5'},
        {'RUST_BIGDECIMAL_DEFAULT_PRECISION': '250', 'RUST_BIGDECIMAL_DEFAULT_ROUNDING_MODE': 'Ceiling',
         'RUST_BIGDECIMAL_FMT_EXPONENTIAL_LOWER_THRESHOLD': '1', 'RUST_BIGDECIMAL_FMT_EXPONENTIAL_UPPER_THRESHOLD': '0', 'RUST_BIGDECIMAL_FMT_MAX_INTEGER_PADDING': '0'},
    ]
    base = ctx.facts('default', 'rel')
    for i, env in enumerate(envs):
        F2 = ctx.facts('default', 'rel', extra_env=env)
        E2 = prov.ProvEngine(F2)
        sub = type(rep)(rep.pid, rep.tier)
        sub.known = rep.known
        R.ctx_default(sub, F2, E2)
        R.default_ops(sub, F2, E2)
        R.display_rules(sub, F2, E2)
        R.fmt_round(sub, F2, E2)
        bad = [o for o in sub.obs if o['status'] == 'violation']
        vals = {c['name'].split('::')[-1]: c['val'] for c in F2.consts.values() if c.get('out_dir')}
        want = {'DEFAULT_PRECISION': env['RUST_BIGDECIMAL_DEFAULT_PRECISION'],
                'EXPONENTIAL_FORMAT_LEADING_ZERO_THRESHOLD': env['RUST_BIGDECIMAL_FMT_EXPONENTIAL_LOWER_THRESHOLD'],
                'EXPONENTIAL_FORMAT_TRAILING_ZERO_THRESHOLD': env['RUST_BIGDECIMAL_FMT_EXPONENTIAL_UPPER_THRESHOLD'],
                'FMT_MAX_INTEGER_PADDING': env['RUST_BIGDECIMAL_FMT_MAX_INTEGER_PADDING']}
        for k, v in want.items():
            if str(vals.get(k)) == str(v):
                rep.ok('ENV-REEXTRACT', 'env%d:%s' % (i, k), 'evaluated value follows the environment: %s=%s' % (k, v))
            else:
                rep.violation('ENV-REEXTRACT', 'env%d:%s' % (i, k), 'generated constant %s evaluates to %s under %s (expected %s)' % (k, vals.get(k), env, v))
        if bad:
            for o in bad:
                rep.obs.append(o)
        else:
            rep.ok('ENV-REEXTRACT', 'env%d:verdicts-unchanged' % i, '%d rule obligations re-derived under a non-default environment: same verdicts' % len(sub.obs))
