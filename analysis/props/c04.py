"""C04 renderings: Display switches notation at the configured thresholds (PROV-DISPLAY) and every
literal written on a rendering path is in the parser's alphabet (ALPHABET)."""
import re
from rules import prov, provrules as R, alphabet


def render_entries(F):
    return R.fmt_entries(F) + [f for f in F.real_fns() if re.search(r'^BigDecimal::(write_|to_)(scientific_notation|engineering_notation|plain_string)$', f.name)]


def run(ctx):
    rep = ctx.rep
    rep.explanation = ('Static MIR analysis. PROV-DISPLAY: the two Display impls pass the generated leading/trailing zero thresholds, in order, to the '
                       'notation dispatcher, which compares both; no other literal threshold orders a scale-derived value on the Display call graph. '
                       'ALPHABET (necessary for re-parseability): every str/char/byte literal and every format-template piece that reaches an output '
                       'sink (write_str, write_char, push, insert, resize, pad_integral, format templates) in the call graph of Display, LowerExp, '
                       'UpperExp, write_scientific/engineering_notation and write_plain_string lies in {0-9 . e E + - _}. NUMERAL-SHAPE: the output of write_scientific_notation, write_engineering_notation, the {:e}/{:E} formatter and the dot-less exponent form is interpreted symbolically - pieces of the digit string, zeros, the point, the exponent - and on every path zeros + exponent - digits after the point equals the digits\' power of ten as a linear identity (all digit counts and scales at once), the pieces cover the digit string exactly once, and each formatting layer hands the next one the same digits, sign and -scale. The is_nonnegative flag handed to Formatter::pad_integral derives from the number\'s sign (the minus sign cannot be dropped). MOVE-THEN-CLEAR: the zero fill after an in-place shift stops before the moved digits. NOT decided: round-trip '
                       'equality as such, to_str_radix, the point insertion of the non-exponential Display forms.')
    F = ctx.facts('default', 'rel')
    if not hasattr(F, '_prov'):
        F._prov = prov.ProvEngine(F)
    n3, nd = R.display_rules(rep, F, F._prov)
    ents = render_entries(F)
    rep.entries['rendering entry points'] = [e.key for e in ents]
    names = F.reach(ents)
    rep.add_functions(names)
    ns, nl = alphabet.check(rep, F, names)
    from props.c16 import common_pad_integral
    npd = common_pad_integral(rep, F, F._prov, names)
    rep.floor('pad_integral calls', npd, 3)
    from rules import numeral
    nn = numeral.check(rep, F)
    rep.floor('numeral-shape obligations', nn, 20)
    from rules import moveclear
    nmc = moveclear.check(rep, F, names)
    rep.floor('in-place digit shifts followed by a clear', nmc, 1)
    rep.floor('rendering entry points', len(ents), 10)
    rep.floor('Display rule instances', n3, 6)
    rep.floor('output sinks on rendering paths', ns, 25)
    rep.floor('literals reaching sinks', nl, 20)
    rep.trust('encoding of fmt::Arguments templates as documented in core::fmt (length-prefixed literal pieces, 0xC0.. placeholders)')
    rep.trust('integers and BigUint digits are rendered by std/num-bigint decimal formatting (digits only, optional sign)')
