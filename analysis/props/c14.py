"""C14: float conversions -- literal power tables (R-CONST), FpCategory classifier tables (R-TABLE),
who-may-call the unchecked converters (R-NOCALL)."""
import re
from facts import cres, cdef, op_local
from rules import table as TB, tablerules as TR, bitfield
from rules.table import T, Undecided

CATS = ['Nan', 'Infinite', 'Zero', 'Subnormal', 'Normal']


def lit_of(fn, o, depth=5):
    """integer literal an operand is a (chain of) copy of; None if it is anything else or ambiguous"""
    if o['k'] == 'const':
        if 'int' in o and 'named' in o and not o.get('out_dir'):
            return int(o['int'])          # a module-level constant of this crate with a literal value (not a generated one)
        return int(o['int']) if 'int' in o and 'named' not in o else None
    l = op_local(o)
    if l is None or depth <= 0:
        return None
    defs = [st for b, st in fn.stmts() if st['lhs']['l'] == l and not st['lhs']['p']]
    if len(defs) != 1 or defs[0]['rv']['r'] != 'use':
        return None
    return lit_of(fn, defs[0]['rv']['op'], depth - 1)


def const_tables(rep, F, rule='R-CONST'):
    """every BigUint::from_slice(&[u32 literal words]) is compared with 5^k, k = the scale literal
    with which the same function constructs its result"""
    n = 0
    for fn in F.real_fns():
        if fn.is_closure:
            continue
        for bid, t in fn.calls():
            if not re.search(r'BigUint::from_slice$|BigUint::new$', cres(t)):
                continue
            # locate the promoted array feeding the call
            words = None
            seen = set()
            stack = [op_local(a) for a in t['args']]
            while stack:
                l = stack.pop()
                if l is None or l in seen:
                    continue
                seen.add(l)
                for b2, st in fn.stmts():
                    if st['lhs']['l'] != l or st['lhs']['p']:
                        continue
                    rv = st['rv']
                    if rv['r'] == 'use' and rv['op']['k'] == 'const' and 'promoted' in rv['op']:
                        pv = F.promoted_value(fn, rv['op']['promoted'])
                        if pv and pv[0] == 'array':
                            words = pv[1]
                    elif rv['r'] in ('use', 'cast') and rv['op']['k'] in ('copy', 'move'):
                        stack.append(rv['op']['pl']['l'])
                    elif rv['r'] == 'ref':
                        stack.append(rv['pl']['l'])
                    elif rv['r'] == 'agg' and rv['kind']['a'] == 'array':
                        if all(o['k'] == 'const' and 'int' in o for o in rv['ops']):
                            words = [int(o['int']) for o in rv['ops']]
            if words is None or any(w is None for w in words):
                continue
            n += 1
            value = sum(w << (32 * i) for i, w in enumerate(words))
            # scale literal(s) used to construct a decimal in this function
            scales = set()
            for b3, t3 in fn.calls():
                if re.search(r'BigDecimal::new$|BigDecimal::from_bigint$|BigDecimal::from_biguint$', cres(t3)) and len(t3['args']) >= 2:
                    a = t3['args'][1]
                    v = lit_of(fn, a)
                    if v is not None:
                        scales.add(v)
            for b4, st in fn.stmts():
                rv = st['rv']
                if rv['r'] == 'agg' and rv['kind'].get('a') == 'adt' and rv['kind']['adt'] == 'BigDecimal':
                    o = rv['ops'][rv['kind']['fields'].index('scale')]
                    v = lit_of(fn, o)
                    if v is not None:
                        scales.add(v)
            key = '%s|from_slice[%d words]' % (fn.key, len(words))
            k = 0
            v = value
            while v > 1 and v % 5 == 0:
                v //= 5
                k += 1
            is_pow5 = (v == 1)
            if not scales:
                rep.undecided(rule, key, 'no scale literal found next to the literal table; cannot relate it to a power', fn.where(t['loc']['line']))
            elif len(scales) == 1 and is_pow5 and k in scales:
                rep.ok(rule, key, 'little-endian words assemble to 5^%d = the scale literal of the constructed decimal (%d-bit value)' % (k, value.bit_length()), fn.where(t['loc']['line']))
            else:
                want = sorted(scales)[0]
                diff = value ^ (5 ** want)
                badword = (diff.bit_length() - 1) // 32 if diff else -1
                rep.violation(rule, key, 'literal table is not 5^%s (the scale used in this function): %s; first differing 32-bit word index (from the top) %d'
                              % (sorted(scales), 'it equals 5^%d' % k if is_pow5 else 'it is not a power of five', badword), fn.where(t['loc']['line']))
    return n


def classifier_tables(rep, F, rule='R-TABLE'):
    n = 0
    for fn in F.real_fns():
        m = re.search(r'parsing::try_parse_from_(f32|f64)$', fn.name)
        if not m or fn.is_closure:
            continue
        rep.add_functions([fn.name])
        try:
            paths = TB.PathEnum(F, fn).run()
        except Undecided as e:
            rep.undecided(rule, fn.key + ':FpCategory', 'table not extractable: %s' % e, fn.where())
            continue
        # the classify() call term
        cls = None
        for atoms, out in paths:
            for term, _ in atoms:
                tt = term
                if tt[0] == 'discr' and tt[1][0] == 'call' and tt[1][1].endswith('classify'):
                    cls = tt[1]
        # the classification may also be written with the predicate methods (is_nan / is_infinite / ...)
        preds = {}
        for atoms, out in paths:
            for term, _ in atoms:
                for st_ in TB.subterms(term):
                    if st_[0] == 'call' and re.search(r'::(is_nan|is_infinite|is_finite|is_normal|is_subnormal)$', TB._plain(st_[1])) and st_[2] and TB.strip_refs(st_[2][0]) == TB.T('param', 1):
                        preds[st_] = TB._plain(st_[1]).rsplit('::', 1)[1]
        if cls is None and not preds:
            rep.undecided(rule, fn.key + ':FpCategory', 'no switch on classify() found; classification shape not recognised', fn.where())
            continue
        normal_fn = F.fns.get('parsing::parse_from_' + m.group(1))
        normal_handles_subnormal = normal_fn is not None and any('subnormal' in (t['callee'].get('resolved') or '') for b, t in normal_fn.calls())
        W = m.group(1)
        fmax = 3.4028234663852886e38 if W == 'f32' else 1.7976931348623157e308
        tiny = 1e-45 if W == 'f32' else 5e-324
        minpos = 1.1754943508222875e-38 if W == 'f32' else 2.2250738585072014e-308
        inf = float('inf')
        # representatives of each category (both signs): guards written as float comparisons are decided on them
        samples = {'Nan': [float('nan')], 'Infinite': [inf, -inf], 'Zero': [0.0, -0.0], 'Subnormal': [tiny, -tiny],
                   'Normal': [1.5, -1.5, fmax, -fmax, minpos, -minpos]}
        consts = {'MAX': fmax, 'MIN': -fmax, 'INFINITY': inf, 'NEG_INFINITY': -inf, 'MIN_POSITIVE': minpos, 'NAN': float('nan'), 'EPSILON': 1e-7}

        class FloatEv(TB.Evaluator):
            def ev(self, t):
                t = TB.deref(t)
                if t in self.env:
                    return self.env[t]
                if t[0] == 'named':
                    nm = str(t[1]).rsplit('::', 1)[-1]
                    if nm in consts:
                        return consts[nm]
                if t[0] == 'lit' and t[1]:
                    mm = re.match(r'^const (-?[0-9.eE+-]+)(_?f32|_?f64)$', t[1])
                    if mm:
                        return float(mm.group(1))
                if t[0] == 'call' and re.search(r'::abs$', TB._plain(t[1])) and t[2]:
                    return abs(self.ev(t[2][0]))
                if t[0] == 'un' and t[1] == 'Neg':
                    return -self.ev(t[2])
                if t[0] == 'bin' and t[1] in ('Lt', 'Le', 'Gt', 'Ge', 'Eq', 'Ne'):
                    a, b = self.ev(t[2]), self.ev(t[3])
                    if isinstance(a, float) or isinstance(b, float):
                        return int({'Lt': a < b, 'Le': a <= b, 'Gt': a > b, 'Ge': a >= b, 'Eq': a == b, 'Ne': a != b}[t[1]])
                return TB.Evaluator.ev(self, t)

        for cat in CATS:
            n += 1
            key = '%s:FpCategory::%s' % (fn.key, cat)
            outs = set()
            und = None
            for x in samples[cat]:
                env = {TB.T('param', 1): x}
                if cls is not None:
                    env[cls] = ('variant', 'FpCategory', cat)
                for term_, which in preds.items():
                    env[term_] = int({'is_nan': cat == 'Nan', 'is_infinite': cat == 'Infinite', 'is_finite': cat not in ('Nan', 'Infinite'),
                                      'is_normal': cat == 'Normal', 'is_subnormal': cat == 'Subnormal'}[which])
                ev = FloatEv(F.raw['enums'], env)
                try:
                    atoms, out = ev.select(paths)
                    outs.add((TR.outcome_class(out), x))
                except Undecided as e:
                    und = e
            if und is not None and not outs:
                rep.undecided(rule, key, str(und), fn.where())
                continue
            bad_ = None
            for oc, x in sorted(outs, key=str):
                if cat in ('Nan', 'Infinite'):
                    ok = oc.startswith('Err')
                    want = 'Err(..)'
                elif cat == 'Subnormal':
                    ok = oc.startswith('Ok(call:') and ('subnormal' in oc or (normal_handles_subnormal and 'parse_from_' + m.group(1) in oc))
                    want = 'Ok(subnormal routine)'
                else:
                    ok = oc.startswith('Ok(call:') and 'subnormal' not in oc and 'parse_from_' + m.group(1) in oc
                    want = 'Ok(normal routine)'
                if not ok:
                    bad_ = (oc, x, want)
            if bad_:
                rep.violation(rule, key, 'classifier maps %s (representative %r) to %s; must be %s' % (cat, bad_[1], bad_[0], bad_[2]), fn.where())
            elif und is not None:
                rep.undecided(rule, key, 'some representatives of the category are not decided: %s' % und, fn.where())
            else:
                rep.ok(rule, key, 'outcome %s for %d representative(s)' % (sorted({o for o, _ in outs})[0], len(outs)), fn.where())
    return n


def who_may_call(rep, F, rule='R-NOCALL'):
    """the unchecked converters are reachable only through the classifiers (or each other)"""
    n = 0
    for fn in F.real_fns():
        m = re.search(r'parsing::parse_from_(f32|f64)(_subnormal)?$', fn.name)
        if not m or fn.is_closure:
            continue
        n += 1
        callers = F.callers(fn.name)
        bad = [c for c in callers if not re.search(r'parsing::(try_)?parse_from_%s(_subnormal)?$' % m.group(1), c)]
        if bad:
            rep.violation(rule, fn.key + ':callers', 'unchecked float converter is called outside the classifier: %s' % bad, fn.where())
        else:
            rep.ok(rule, fn.key + ':callers', 'callers: %s' % [c.split('::')[-1] for c in callers], fn.where())
    # public float entries forward to the classifier
    for fn in F.real_fns():
        if fn.is_closure:
            continue
        if (fn.trait == 'std::convert::TryFrom' and re.search(r'TryFrom<f(32|64)>', fn.trait_full or '')) or \
           (fn.trait == 'num_traits::FromPrimitive' and fn.item in ('from_f32', 'from_f64') and fn.self_ty == 'BigDecimal'):
            n += 1
            tg = set()
            for bid, t in fn.calls():
                tg |= F.call_targets(fn, t)
            w = fn.item[-3:] if fn.item.startswith('from_f') else re.search(r'f(32|64)', fn.trait_full).group(0)
            ok = any(re.search(r'try_parse_from_%s$|TryFrom<%s> for BigDecimal>::try_from$' % (w, w), x) for x in tg)
            if ok:
                rep.ok(rule, fn.key + ':via-classifier', 'forwards to %s' % sorted(x.split('::')[-1] for x in tg), fn.where())
            else:
                rep.violation(rule, fn.key + ':via-classifier', 'float entry point does not go through the NaN/infinity classifier; callees: %s' % sorted(tg), fn.where())
    return n


def infinity_direction(rep, F, rule='R-TABLE'):
    """to_f64 / to_f32: an infinity may be returned only for a magnitude that is too LARGE.  The give-up arm (exponent does
    not fit the integer type handed to powi / the float parser) is reached for huge positive exponents and for huge
    negative ones alike; a path that returns +-infinity without having tested the sign of the scale turns 1e-3000000000
    into infinity instead of zero.  Also: the sign of the infinity follows the sign of the decimal."""
    n = 0
    for fn in F.real_fns():
        if fn.is_closure or not re.search(r"ToPrimitive for BigDecimalRef(<'_>)?>::to_f(64|32)$", fn.name):
            continue
        try:
            paths = TB.PathEnum(F, fn, max_paths=4000, cut_loops=True).run()
        except Undecided as e:
            rep.undecided(rule, fn.key + ':infinity-only-on-overflow', str(e), fn.where())
            continue
        n += 1
        rep.add_functions([fn.name])
        bad, good, signbad = [], 0, []
        for atoms, out in paths:
            o = TB.show(TB.strip_refs(out))
            m = re.search(r'(NEG_)?INFINITY', o)
            if not m:
                continue
            direction = False
            minus = None
            for a, c in atoms:
                a0 = TB.strip_refs(a)
                s = TB.show(a0)
                if a0[0] == 'bin' and a0[1] in ('Lt', 'Le', 'Gt', 'Ge') and ('scale' in s) and (TB.T('const', 0) in (TB.strip_refs(a0[2]), TB.strip_refs(a0[3]))):
                    direction = True
                if a0[0] == 'call' and re.search(r'is_(negative|positive)$', TB._plain(a0[1])) and 'scale' in s:
                    direction = True
                mm = re.match(r'^(Ne|Eq)\((?:arg1\.sign|sign\(arg1\)),Sign::Minus\)$', s)
                if mm:
                    truth = not (c == ('eq', 0))
                    minus = truth if mm.group(1) == 'Eq' else (not truth)
            if not direction:
                bad.append(o[:60])
            else:
                good += 1
            neg_inf = m.group(1) is not None
            o_ = TB.strip_refs(out)
            while True:
                # Some(x) / a single negation applied to the magnitude's result afterwards
                if o_[0] == 'adt' and o_[2] == 'Some' and o_[3]:
                    o_ = TB.strip_refs(o_[3][0])
                elif o_[0] == 'un' and o_[1] == 'Neg':
                    neg_inf = not neg_inf
                    o_ = TB.strip_refs(o_[2])
                elif o_[0] == 'call' and re.search(r'ops::Neg::neg$', TB._plain(o_[1])) and o_[2]:
                    neg_inf = not neg_inf
                    o_ = TB.strip_refs(o_[2][0])
                else:
                    break
            if minus is not None and neg_inf != minus:
                signbad.append(o[:60])
        key = fn.key + ':infinity-only-on-overflow'
        if signbad:
            rep.violation(rule, key, 'the sign of the infinity returned does not follow the sign of the decimal', fn.where())
        elif bad:
            rep.violation(rule, key, '%d path(s) return an infinity when the exponent does not fit, without testing whether the scale is negative (huge value) or positive (tiny value): 1e-3000000000 converts to infinity instead of 0' % len(bad), fn.where())
        elif good:
            rep.ok(rule, key, '%d path(s) return an infinity, each after establishing the sign of the scale; the infinity carries the decimal\'s sign' % good, fn.where())
        else:
            rep.ok(rule, key, 'no path returns an infinity constant', fn.where())
    return n


def run(ctx):
    rep = ctx.rep
    rep.explanation = ('Static MIR analysis. R-CONST: the multi-word literals handed to BigUint::from_slice are read from the MIR array constants, '
                       'assembled little-endian by the checker and compared with 5^k (k = the scale literal used in the same function) -- constant '
                       'evaluation of source literals, no bigdecimal code runs. R-TABLE: the FpCategory dispatch of try_parse_from_f32/f64 is '
                       'extracted from the CFG and checked for all 5 categories. R-NOCALL: the unchecked converters are only called through the '
                       'classifiers; TryFrom/FromPrimitive float entries forward to them. BITFIELD: a bit-provenance (known-bits) dataflow over the values derived from to_bits() shows, for binary32 and binary64, that the mantissa is bits 0..M-1 plus the implicit bit, the exponent is bits M..M+E-1 minus (bias + M), the sign is decided by the top bit alone (clear -> Plus), the subnormal magnitude is the representation with exactly the sign bit cleared, and the +-0 test looks at every bit but the sign. R-TABLE (to_f64): an infinity is returned only on paths that established the sign of the scale (huge value, not tiny value) and carries the decimal\'s sign. NOT decided: the power-of-two/five scaling after the split, the accuracy of to_f64.')
    F = ctx.facts('default', 'rel')
    n1 = const_tables(rep, F)
    n2 = classifier_tables(rep, F)
    n3 = who_may_call(rep, F)
    rep.floor('literal power tables', n1, 2)
    rep.floor('classifier cells', n2, 10)
    rep.floor('who-may-call instances', n3, 8)
    n4 = bitfield.check(rep, F)
    n4s = bitfield.returns_carry_sign(rep, F)
    rep.floor('float converters whose returns were checked for the sign', n4s, 4)
    n5 = infinity_direction(rep, F)
    rep.floor('float converters checked for the direction of infinity', n5, 1)
    from rules import floatpath
    n6 = floatpath.check(rep, F)
    floatpath.no_float_casts(rep, F)
    rep.floor('to_f64 float-arithmetic rule', n6, 1)
    rep.floor('IEEE-754 field obligations', n4, 12)
    rep.extra['exhaustive_table'] = True
