"""C15: integer conversions -- sign-dispatch tables (R-TABLE), owned/ref agreement (R-FWD),
constructors are pure projections with scale 0 (R-PROJ), truncation never floors (R-NOCALL)."""
import re
from facts import cres, cdef, INT_TYPES
from rules import table as TB, tablerules as TR
from rules.table import T, Undecided

SIGNS = ['Minus', 'NoSign', 'Plus']
FLOORING = re.compile(r'Integer::div_floor$|Integer::mod_floor$|Integer::div_mod_floor$|::div_euclid$|::rem_euclid$|::checked_div_euclid$|::checked_rem_euclid$|::div_ceil$|Integer::div_ceil$')


def sign_tables(rep, F, rule='R-TABLE'):
    n = 0
    for fn in F.impls('num_traits::ToPrimitive', r'^BigDecimalRef'):
        m = re.match(r'^to_(i64|i128|u64|u128)$', fn.item or '')
        if not m:
            continue
        rep.add_functions([fn.name])
        ity = m.group(1)
        try:
            paths = TB.PathEnum(F, fn).run()
        except Undecided as e:
            rep.undecided(rule, fn.key + ':sign-table', 'table not extractable: %s' % e, fn.where())
            continue
        sign_term = None
        for atoms, out in paths:
            for term, _ in atoms:
                if term[0] == 'discr' and TB.is_call(term[1], r'BigDecimalRef(::<[^>]*>)?::sign$'):
                    sign_term = TB.deref(term[1])
        if sign_term is None:
            rep.undecided(rule, fn.key + ':sign-table', 'no dispatch on self.sign() found; shape not recognised', fn.where())
            continue
        scale_t = T('field', T('param', 1), 'scale')
        for sign in SIGNS:
            # the last sample is the most negative scale at which a one-digit value still fits the target type
            # (10^18 < i64::MAX, 10^19 < u64::MAX, 10^38 < i128::MAX < u128::MAX): a shortcut to None must not reach it
            fit = {'i64': 18, 'u64': 19, 'i128': 38, 'u128': 38}[ity]
            for sc in (0, 7, -3, -fit):
                n += 1
                key = '%s:sign=%s,scale%s' % (fn.key, sign, ('==0' if sc == 0 else '>0' if sc > 0 else '<0') if sc != -fit else '=-%d' % fit)
                ev = TB.Evaluator(F.raw['enums'], {sign_term: ('variant', 'Sign', sign), scale_t: sc})
                try:
                    atoms, out = ev.select(paths)
                except Undecided as e:
                    rep.undecided(rule, key, str(e), fn.where())
                    continue
                oc = TR.outcome_class(out)
                if sign == 'NoSign':
                    ok, want = oc == 'Some(0)', 'Some(0)'
                elif sign == 'Minus' and ity.startswith('u'):
                    ok, want = oc == 'None', 'None (a negative decimal never converts to an unsigned type)'
                else:
                    conv = TB.find_calls(out, r'ToPrimitive::to_(i64|i128|u64|u128)$|::to_(i64|i128|u64|u128)$')
                    ok = oc.startswith('call:') and bool(conv)
                    want = 'a checked integer conversion'
                    if ok and sc != 0:
                        resc = TB.find_calls(out, r'to_owned_with_scale$|BigDecimal::with_scale$')
                        ok = any(len(c[2]) >= 2 and TB.deref(c[2][1]) == T('const', 0) for c in resc)
                        want = 'a conversion of the value re-scaled (truncated) to scale 0'
                    if ok and sc == 0:
                        ok = TB.mentions(out, T('field', T('param', 1), 'digits')) or bool(TB.find_calls(out, r'to_owned_with_scale$'))
                        want = 'a conversion of the unscaled digits'
                if ok:
                    rep.ok(rule, key, 'outcome %s' % TB.show(out)[:100], fn.where())
                else:
                    rep.violation(rule, key, 'to_%s maps (sign=%s, scale%s0) to %s; must be %s' % (ity, sign, '==' if sc == 0 else '!=', TB.show(out)[:120], want), fn.where())
    return n


def owned_forwarders(rep, F, rule='R-FWD'):
    n = 0
    for fn in F.impls('num_traits::ToPrimitive', r'^BigDecimal$'):
        rep.add_functions([fn.name])
        key = fn.key + ':forwards'
        try:
            paths = TB.PathEnum(F, fn).run()
        except Undecided as e:
            rep.undecided(rule, key, str(e), fn.where())
            continue
        n += 1
        if len(paths) != 1 or not TB.is_call(paths[0][1], r''):
            rep.undecided(rule, key, 'not a single-call forwarder any more (%d paths): agreement with the reference form is no longer structural' % len(paths), fn.where())
            continue
        out = TB.deref(paths[0][1])
        callee = F.fns.get(out[1])
        same = callee is not None and callee.trait == 'num_traits::ToPrimitive' and callee.item == fn.item and (callee.self_ty or '').startswith('BigDecimalRef')
        recv = TB.deref(out[2][0]) if out[2] else None
        via_ref = recv is not None and TB.is_call(recv, r'BigDecimal::to_ref$') and TB.deref(TB.deref(recv)[2][0]) == T('param', 1)
        if same and via_ref:
            rep.ok(rule, key, 'returns %s' % TB.show(out), fn.where())
        else:
            rep.violation(rule, key, 'owned %s must return the same-named conversion of self.to_ref(); it returns %s' % (fn.item, TB.show(out)), fn.where())
    return n


def projections(rep, F, rule='R-PROJ'):
    n = 0
    for fn in F.impls('std::convert::From', r'^BigDecimal$'):
        rep.add_functions([fn.name])
        m = re.match(r'^std::convert::From<(.*)>$', re.sub(r"'[a-z_]+ ", '', fn.trait_full or ''))
        src = m.group(1) if m else '?'
        key = fn.key + ':projection'
        try:
            paths = TB.PathEnum(F, fn).run()
        except Undecided as e:
            rep.undecided(rule, key, str(e), fn.where())
            continue
        n += 1
        if len(paths) != 1:
            rep.undecided(rule, key, '%d paths: not a straight-line constructor' % len(paths), fn.where())
            continue
        out = TB.deref(paths[0][1])
        if not (out[0] == 'adt' and out[1] == 'BigDecimal' and len(out[3]) == 2):
            rep.undecided(rule, key, 'does not build the record directly: %s' % TB.show(out)[:80], fn.where())
            continue
        iv, sc = TB.deref(out[3][0]), TB.deref(out[3][1])
        p1 = T('param', 1)
        if src.lstrip('&') in INT_TYPES:
            ok = TB.is_call(iv, r'convert::Into::into$|convert::From::from$') and TB.deref(TB.deref(iv)[2][0]) == p1 and sc == T('const', 0)
            want = '{int_val: n.into(), scale: 0}'
        elif src.endswith('BigInt') and not src.startswith('('):
            # `n.into()` from BigInt to BigInt is the reflexive conversion (the identity)
            ok = (iv == p1 or (TB.is_call(iv, r'convert::Into::into$|convert::From::from$') and TB.deref(TB.deref(iv)[2][0]) == p1)) and sc == T('const', 0)
            want = '{int_val: <the argument>, scale: 0}'
        elif src.startswith('('):
            ok = TB.is_call(iv, r'convert::Into::into$') and TB.deref(TB.deref(iv)[2][0]) == T('field', p1, '0') and sc == T('field', p1, '1')
            want = '{int_val: pair.0.into(), scale: pair.1}'
        else:
            rep.undecided(rule, key, 'source type %s not in the projection spec' % src, fn.where())
            continue
        if ok:
            rep.ok(rule, key, TB.show(out), fn.where())
        else:
            rep.violation(rule, key, 'From<%s> must construct %s exactly; it constructs %s' % (src, want, TB.show(out)), fn.where())
    # FromPrimitive integer constructors and ToBigInt
    for fn in F.impls('num_traits::FromPrimitive', r'^BigDecimal$'):
        if not re.match(r'^from_[iu]\d+$', fn.item or ''):
            continue
        key = fn.key + ':projection'
        n += 1
        try:
            paths = TB.PathEnum(F, fn).run()
            out = TB.deref(paths[0][1])
            inner = TB.deref(out[3][0]) if out[0] == 'adt' and out[2] == 'Some' else None
            ok = len(paths) == 1 and inner is not None and TB.is_call(inner, r'convert::From<[iu]\d+> for BigDecimal>::from$') and TB.deref(inner[2][0]) == T('param', 1)
        except (Undecided, IndexError) as e:
            rep.undecided(rule, key, str(e), fn.where())
            continue
        if ok:
            rep.ok(rule, key, TB.show(out), fn.where())
        else:
            rep.violation(rule, key, '%s must be Some(BigDecimal::from(n)); it is %s' % (fn.item, TB.show(out)), fn.where())
    for fn in F.impls('num_bigint::ToBigInt', r'^BigDecimal$'):
        key = fn.key + ':projection'
        n += 1
        try:
            paths = TB.PathEnum(F, fn).run()
            out = TB.deref(paths[0][1])
            inner = TB.deref(out[3][0]) if out[0] == 'adt' and out[2] == 'Some' else None
            ok = len(paths) == 1 and inner is not None and inner[0] == 'field' and inner[2] == 'int_val' and TB.is_call(inner[1], r'BigDecimal::with_scale$|to_owned_with_scale$') \
                and TB.deref(TB.deref(inner[1])[2][1]) == T('const', 0)
        except (Undecided, IndexError) as e:
            rep.undecided(rule, key, str(e), fn.where())
            continue
        if ok:
            rep.ok(rule, key, TB.show(out), fn.where())
        else:
            rep.violation(rule, key, 'to_bigint must be Some(self.with_scale(0).int_val) (truncation); it is %s' % TB.show(out), fn.where())
    return n


def no_flooring(rep, F, rule='R-NOCALL'):
    ents = [f for f in F.impls('num_traits::ToPrimitive') if re.match(r'^BigDecimal', f.self_ty or '') and re.match(r'^to_[iu]', f.item or '')]
    ents += F.impls('num_bigint::ToBigInt', r'^BigDecimal')
    ents += [f for f in F.real_fns() if re.search(r'^BigDecimal::with_scale$|to_owned_with_scale$|^BigDecimal::take_and_scale$|^BigDecimal::set_scale$', re.sub(r"::<'_>", '', f.name))]
    names = F.reach(ents)
    rep.add_functions(names)
    paths = F.reach_paths(ents)
    hits = 0
    ncalls = 0
    for nme in sorted(names):
        fn = F.fns[nme]
        for bid, t in fn.calls():
            ncalls += 1
            d = re.sub(r'<[^<>]*>', '', cdef(t))
            if FLOORING.search(d):
                hits += 1
                rep.violation(rule, '%s|%s' % (fn.key, d.split('::')[-1]),
                              'flooring/euclidean division on an integer-conversion or truncating-rescale path (must truncate toward zero): %s; call path %s'
                              % (cdef(t), ' -> '.join(x.split('::')[-1] for x in paths.get(nme, [nme]))), fn.where(t['loc']['line']))
    rep.call_sites += ncalls
    if hits == 0:
        rep.ok(rule, 'int-conversion-callgraph:no-flooring-division', '%d call sites in %d functions reachable from to_i*/to_u*/to_bigint/with_scale: none is a flooring or euclidean division' % (ncalls, len(names)))
    return len(names), ncalls


def _const_eval(t):
    """value of a literal arithmetic term (promoted constants such as `i64::MAX as u64 + 1`)"""
    t = TB.strip_refs(t)
    if isinstance(t, tuple) and t:
        if t[0] == 'const' and isinstance(t[1], int):
            return t[1]
        if t[0] == 'cast':
            return _const_eval(t[1])
        if t[0] == 'ovf':
            return _const_eval(t[1])
        if t[0] == 'bin' and t[1] in ('Add', 'Sub'):
            a, b = _const_eval(t[2]), _const_eval(t[3])
            if a is not None and b is not None:
                return a + b if t[1] == 'Add' else a - b
    return None


def min_boundary(rep, F, rule='R-TABLE'):
    """the negative scale-0 arm of to_i64 / to_i128: the unsigned magnitude d is reinterpreted as a signed integer only
    under d < 2^(W-1); d == 2^(W-1) gives MIN; anything larger gives None.  A reinterpreting cast of the magnitude that is
    not under that comparison (or wrapping arithmetic) maps out-of-range negatives onto in-range values.  The comparison
    may be written as `d.cmp(&b)` or as `<` / `==` tests; b may be a promoted constant or a captured local"""
    n = 0
    cands = []
    for fn in F.real_fns():
        m = re.search(r"ToPrimitive for BigDecimalRef(<'_>)?>::to_i(64|128)::\{closure#\d+\}$", fn.name)
        if m and fn.is_closure:
            cands.append((fn, int(m.group(2)), 2, re.sub(r'::\{closure#\d+\}$', '', fn.key) + ':min-boundary'))
        m2 = re.search(r"ToPrimitive for BigDecimalRef(<'_>)?>::to_i(64|128)$", fn.name)
        if m2 and not fn.is_closure:
            # the boundary decision handed over as a named function (`.and_then(helper)`)
            for bid, t in fn.calls():
                for a in t['args']:
                    if a.get('k') == 'const' and a.get('fn_def') in F.fns:
                        h = F.fns[a['fn_def']]
                        if h.argc == 1 and re.match(r'^u(64|128)$', h.ty(1)) and re.search(r'Option<i(64|128)>', h.ty(0)):
                            cands.append((h, int(m2.group(2)), 1, fn.key + ':min-boundary'))
    for fn, W, dpar, key in cands:
        n += 1
        rep.add_functions([fn.name])
        wrap = [cdef(t) for b, t in fn.calls() if re.search(r'::(wrapping|overflowing|saturating|unchecked)_\w+$', cdef(t) or '')]
        if wrap:
            rep.violation(rule, key, 'wrapping/saturating arithmetic (%s) on the magnitude of a negative value: magnitudes above 2^%d wrap into range instead of giving None' % (wrap[0].split('::')[-1], W - 1), fn.where())
            continue
        try:
            paths = TB.PathEnum(F, fn, max_paths=16).run()
        except TB.Undecided as e:
            rep.undecided(rule, key, str(e), fn.where())
            continue
        # captured values: evaluated in the parent
        caps = {}
        parent = F.fns.get(re.sub(r'::\{closure#\d+\}$', '', fn.name))
        if parent is not None:
            try:
                for atoms_p, out_p in TB.PathEnum(F, parent, max_paths=64).run():
                    for sub in TB.subterms(out_p):
                        if sub[0] == 'closure' and sub[1] == fn.name:
                            for i_, c_ in enumerate(sub[2]):
                                caps[i_] = c_
            except TB.Undecided:
                pass

        def bound_value(b):
            b = TB.strip_refs(b)
            if b[0] == 'promoted':
                pf = F.fns.get('%s::promoted[%d]' % (fn.name, b[1]))
                if pf is None:
                    return None
                try:
                    pp = TB.PathEnum(F, pf, max_paths=2).run()
                    return _const_eval(pp[0][1]) if len(pp) == 1 else None
                except TB.Undecided:
                    return None
            if b[0] == 'field' and TB.strip_refs(b[1]) == TB.T('param', 1) and str(b[2]).isdigit() and int(b[2]) in caps:
                return _const_eval(caps[int(b[2])])
            return _const_eval(b)

        d = TB.T('param', dpar)
        probs, seen_rel, unknown_oc = [], set(), []
        want = {'lt': 'neg-cast', 'eq': 'min', 'gt': 'none'}
        for atoms, out in paths:
            rels = {'lt', 'eq', 'gt'}
            bvals = set()
            for a, c in atoms:
                a = TB.strip_refs(a)
                truth = not (c == ('eq', 0))
                if a[0] == 'discr' and TB.strip_refs(a[1])[0] == 'cmp' and TB.strip_refs(TB.strip_refs(a[1])[1]) == d and c[0] == 'eq':
                    rels &= {{255: 'lt', 0: 'eq', 1: 'gt'}.get(c[1], '?')}
                    bvals.add(bound_value(TB.strip_refs(a[1])[2]))
                elif a[0] == 'bin' and a[1] in ('Lt', 'Le', 'Gt', 'Ge', 'Eq', 'Ne') and (TB.strip_refs(a[2]) == d or TB.strip_refs(a[3]) == d):
                    op = a[1]
                    if TB.strip_refs(a[3]) == d:
                        op = {'Lt': 'Gt', 'Le': 'Ge', 'Gt': 'Lt', 'Ge': 'Le', 'Eq': 'Eq', 'Ne': 'Ne'}[op]
                        bvals.add(bound_value(a[2]))
                    else:
                        bvals.add(bound_value(a[3]))
                    sat = {'Lt': {'lt'}, 'Le': {'lt', 'eq'}, 'Gt': {'gt'}, 'Ge': {'gt', 'eq'}, 'Eq': {'eq'}, 'Ne': {'lt', 'gt'}}[op]
                    rels &= sat if truth else ({'lt', 'eq', 'gt'} - sat)
            if not rels:
                continue
            o = TB.strip_refs(out)
            so = TB.show(o)
            if so == 'Option::None':
                oc = 'none'
            elif so == 'Option::Some(%d)' % (-2 ** (W - 1)):
                oc = 'min'
            elif o[0] == 'adt' and o[2] == 'Some' and o[3]:
                inner = TB.strip_refs(o[3][0])
                neg = None
                if inner[0] == 'un' and inner[1] == 'Neg':
                    neg = TB.strip_refs(inner[2])
                elif inner[0] == 'call' and re.search(r'Neg::neg$', TB._plain(inner[1])):
                    neg = TB.strip_refs(inner[2][0])
                oc = 'neg-cast' if (neg is not None and neg[0] == 'cast' and TB.strip_refs(neg[1]) == d and str(neg[2]) == 'i%d' % W) else 'other:' + so[:50]
                if oc.startswith('other') and any(x[0] == 'cast' and TB.strip_refs(x[1]) == d and str(x[2]).startswith('i') for x in TB.subterms(o)):
                    oc = 'cast-unnegated'
            else:
                oc = 'other:' + so[:50]
            if any(bv is None or bv != 2 ** (W - 1) for bv in bvals):
                probs.append('the magnitude is compared with %s, not with 2^%d' % (sorted(bvals, key=str), W - 1))
            if oc.startswith('other:'):
                unknown_oc.append(oc)
                continue
            for r in sorted(rels):
                seen_rel.add(r)
                if oc != want[r]:
                    probs.append('for d %s 2^%d the result must be %s; this path gives %s' % ({'lt': '<', 'eq': '==', 'gt': '>'}[r], W - 1, {'neg-cast': '-(d as i%d)' % W, 'min': 'i%d::MIN' % W, 'none': 'None'}[want[r]], oc))
        if probs:
            rep.violation(rule, key, probs[0], fn.where())
        elif unknown_oc:
            rep.undecided(rule, key, 'an outcome of the closure is not recognised: %s' % unknown_oc[0], fn.where())
        elif seen_rel != {'lt', 'eq', 'gt'}:
            rep.undecided(rule, key, 'the three cases d <, ==, > 2^%d are not all recognised (%s)' % (W - 1, sorted(seen_rel)), fn.where())
        else:
            rep.ok(rule, key, 'd < 2^%d -> -(d as i%d); d == 2^%d -> i%d::MIN; d > 2^%d -> None' % (W - 1, W, W - 1, W, W - 1), fn.where())
    return n


def is_integer_table(rep, F, rule='R-TABLE'):
    """is_integer: true outright only for scale <= 0; otherwise decided by int_val % 10^scale == 0 (the fractional digits).
    A fast path outside these two rows is reported as undecided, never as a violation."""
    fn = F.fns.get('BigDecimal::is_integer')
    if fn is None:
        rep.violation(rule, 'BigDecimal::is_integer:missing', 'anchor function not found (fail closed)')
        return 0
    try:
        paths = TB.PathEnum(F, fn, max_paths=32).run()
    except Undecided as e:
        rep.undecided_anchor(rule, fn.key + ':table', str(e), fn.where())
        return 0
    n = 0
    for atoms, out in paths:
        strs = [(TB.show(TB.strip_refs(a[0])), a[1]) for a in atoms]
        o = TB.show(TB.strip_refs(out))
        nonpos = None
        extra = []
        for s, c in strs:
            truth = not (c == ('eq', 0))
            if s == 'Le(arg1.scale,0)':
                nonpos = truth
            elif s == 'Gt(arg1.scale,0)':
                nonpos = not truth
            elif s == 'Lt(arg1.scale,0)' and truth:
                nonpos = True
            else:
                extra.append(s)
        if extra or nonpos is None:
            key = fn.key + ':table[%s]' % ';'.join(e[:30] for e in extra)
            # a constant answer on a fast path can still be refuted by one sample: zero at several scales (fractional part
            # zero -> true) and 10^-k-like values with a non-zero fraction (-> false)
            if o in ('0', '1'):
                from rules import samplerow
                samples = [(0, k) for k in (1, 2, 3, 5, 19, 20, 40)] + [(v, k) for v in (1, -1, 5, 10, 100, 123, -1200, 12345, -987654321, 10 ** 20 + 1, 10 ** 40 + 10) for k in (-2, 0, 1, 2, 3, 5, 19, 20, 40)]
                try:
                    hit = samplerow.refute_constant(F, atoms, int(o), lambda v, k: int(k <= 0 or v % (10 ** k) == 0), samples)
                except Undecided:
                    hit = 'undecided'
                if hit not in (None, 'undecided'):
                    n += 1
                    rep.violation(rule, key, 'this fast path returns %s for every input that reaches it, and the decimal %d * 10^-%d reaches it (all its guards hold under the accessor contracts: digits() of zero is 1, ...) although is_integer of that value is %s'
                                  % ('true' if o == '1' else 'false', hit[0], hit[1], 'false' if o == '1' else 'true'), fn.where())
                    continue
            rep.undecided(rule, key, 'row outside the table (fast path): not decided', fn.where())
            continue
        n += 1
        key = fn.key + ':table[scale%s0]' % ('<=' if nonpos else '>')
        if nonpos:
            if o == '1':
                rep.ok(rule, key, 'no fractional digits: true', fn.where())
            else:
                rep.violation(rule, key, 'a decimal with scale <= 0 has no fractional digits and is an integer; this row returns %s' % o[:60], fn.where())
        else:
            if re.match(r'^is_zero\(rem\((clone\()?arg1\.int_val\)?,ten_to_the(_uint)?\(cast\(arg1\.scale\)\)\)\)$', o):
                rep.ok(rule, key, 'fractional part = int_val % 10^scale, tested for zero', fn.where())
            elif o in ('0', '1'):
                rep.violation(rule, key, 'for scale > 0 the answer depends on the fractional digits; this row returns the constant %s' % o, fn.where())
            else:
                rep.violation(rule, key, 'the fractional part of int_val*10^-scale is int_val %% 10^scale; this row tests %s' % o[:90], fn.where())
    return n


def run(ctx):
    rep = ctx.rep
    rep.explanation = ('Static MIR analysis. R-TABLE: the (sign, scale==0) dispatch of to_i64/to_i128/to_u64/to_u128 on BigDecimalRef is extracted from the '
                       'CFG: Minus->None for unsigned, NoSign->Some(0), every other cell ends in a checked integer conversion of the digits or of the '
                       'value truncated to scale 0. R-FWD: owned ToPrimitive methods return the same-named method of self.to_ref(). R-PROJ: the 20 '
                       'From<int>/From<&int>, From<BigInt>, From<(T,i64)>, FromPrimitive::from_i*/u* and ToBigInt are exact projections (scale literal 0). '
                       'R-NOCALL: no flooring/euclidean division is reachable from the conversions or the truncating rescale. The MIN boundary of to_i64/to_i128 (d < 2^(W-1) -> -(d as iW), == -> MIN, > -> None) is a 3-cell table with the boundary constant evaluated from its literal arithmetic. is_integer is a 2-row table (scale <= 0 -> true; otherwise int_val % 10^scale == 0); a fast path outside it is undecided. NOT decided: '
                       'the remainder arithmetic of num-bigint.')
    F = ctx.facts('default', 'rel')
    n1 = sign_tables(rep, F)
    n2 = owned_forwarders(rep, F)
    n3 = projections(rep, F)
    nf, nc = no_flooring(rep, F)
    nmb = min_boundary(rep, F)
    nii = is_integer_table(rep, F)
    rep.floor('is_integer rows', nii, 2)
    rep.floor('MIN-boundary closures', nmb, 2)
    rep.floor('sign-dispatch cells', n1, 36)
    rep.floor('owned forwarders', n2, 5)
    rep.floor('projection constructors', n3, 26)
    rep.floor('functions on conversion paths', nf, 10)
    rep.trust('num-bigint: BigInt/BigUint `/` truncates toward zero; to_i64/to_u64/... return None exactly on overflow')
