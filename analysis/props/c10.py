"""C10 square root: context honoured (PROV-CTX), sign dispatch tables (R-TABLE), R-SIGN, R-STICKY."""
import re
from props import roots
from rules import signsticky as S, table as TB, tablerules as TR
from rules.table import T, Undecided


def sign_tables(rep, F, fns, rule='R-TABLE'):
    n = 0
    for fn in fns:
        item = fn.name.split('::')[-1]
        if item != 'sqrt_with_context':
            continue
        try:
            paths = TB.PathEnum(F, fn).run()
        except Undecided as e:
            rep.undecided(rule, fn.key + ':sign-table', str(e), fn.where())
            continue
        for atoms, out in paths:
            n += 1
            desc = [(TB.show(a[0]), a[1]) for a in atoms]
            key = '%s:path[%s]' % (fn.key, ';'.join('%s%s%s' % (TB.show(a[0]).split('(')[0], '=' if a[1][0] == 'eq' else '!in', a[1][1]) for a in atoms))
            roots_called = TB.find_calls(out, r'sqrt::impl_sqrt$')
            nonneg = any((TB.is_call(a[0], r'is_negative$') and a[1] == ('eq', 0)) or
                         (a[0][0] == 'discr' and a[1] == ('eq', 2)) for a in atoms)   # Sign::Plus has discriminant 2
            negative = any((TB.is_call(a[0], r'is_negative$') and a[1][0] == 'notin') or (a[0][0] == 'discr' and a[1] == ('eq', 0)) for a in atoms)
            oc = TR.outcome_class(out)
            if roots_called:
                if nonneg:
                    rep.ok(rule, key, 'root taken only under the non-negative arm: %s' % desc, fn.where())
                else:
                    rep.violation(rule, key, 'impl_sqrt is reached on a path that does not establish x >= 0: atoms %s' % desc, fn.where())
            elif negative:
                if oc == 'None':
                    rep.ok(rule, key, 'negative input yields None', fn.where())
                else:
                    rep.violation(rule, key, 'negative input must yield None; this path yields %s' % TB.show(out)[:80], fn.where())
            else:
                # zero / one shortcuts: must return the input itself or zero
                inner = TB.deref(out[3][0]) if out[0] == 'adt' and out[2] == 'Some' and out[3] else None
                ok = inner is not None and (inner == T('param', 1) or TB.is_call(inner, r'Zero>?::zero$|Clone>?::clone$'))
                if ok:
                    rep.ok(rule, key, 'shortcut returns %s' % TB.show(out)[:60], fn.where())
                else:
                    rep.violation(rule, key, 'zero/one shortcut must return the input (or zero); it returns %s' % TB.show(out)[:80], fn.where())
    return n


def run(ctx):
    rep = ctx.rep
    rep.explanation = ('Static MIR analysis. PROV-CTX: in impl_sqrt and the five entry points the rounding routine whose result is returned receives '
                       'ctx.precision and ctx.rounding (provenance + backward dependence from the return place). R-TABLE: negative -> None, '
                       'zero -> zero, and impl_sqrt is reached only under the non-negative arm. R-SIGN: no re-signing after a context-mode rounding '
                       '(copy-sign variant exempt by specification). R-STICKY: the radicand must be consulted again after the integer root so that '
                       'inexactness can reach the rounding decision. ROOT-SHAPE (path terms of impl_sqrt): PARITY - scale + E is even on every path for the radicand n*10^E (parity abstraction, both branches of saturating_sub); STICKY - the bare floor root r is rounded only where r*r == R, otherwise r*10 + d with a non-zero digit d; COUNTED - the digits counted for the result scale are those of the integer constructed. NOT decided: the digits of the integer root itself, the result-scale formula (derived from the digit counts via a decimal division).')
    F = ctx.facts('default', 'rel')
    fns = roots.family(F, r'sqrt')
    rep.entries['sqrt family'] = [f.key for f in fns]
    rep.floor('sqrt functions', len(fns), 6)
    n1, n2 = roots.sign_and_ctx_rules(rep, F, fns)
    n3 = sign_tables(rep, F, fns)
    ndf = roots.default_form(rep, F, r'sqrt')
    rep.floor('default-context form', ndf, 1)
    nkg = roots.kernel_gates(rep, F, r'sqrt')
    rep.floor('kernel gateways', nkg, 1)
    n4 = S.sticky(rep, F, fns)
    S.radicand_exact(rep, F, fns)
    from rules import rootshape
    nrs = rootshape.check_sqrt(rep, F)
    rep.floor('root-shape obligations (parity, sticky digit, counted digits)', nrs, 3)
    rep.floor('PROV-CTX final sinks', n1, 5)
    rep.floor('sign table paths', n3, 6)
    rep.floor('integer-root sites', n4, 1)
    # the rounding of the root is decided by the context's mode inside the table-checked rounding routines only: a root
    # kernel that branches on the mode itself (e.g. to skip the sticky digit for some modes) is reported
    nmd = TR.mode_dispatch(rep, F)
    rep.floor('functions dispatching on the rounding mode', nmd, 3)
    rep.trust('num-integer Roots::sqrt returns the floor of the exact root (no remainder)')
