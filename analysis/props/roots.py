"""shared pieces of C10 / C11 / C12 (square root, cube root, reciprocal)"""
import re
from rules import prov, provrules as R, signsticky as S, table as TB, tablerules as TR
from rules.table import T, Undecided

MODES = TR.MODES
SIGNS = TR.SIGNS
DIRECTED_MIRROR = {'Floor': 'Ceiling', 'Ceiling': 'Floor'}


def engine(F):
    if not hasattr(F, '_prov'):
        F._prov = prov.ProvEngine(F)
    return F._prov


def family(F, pat):
    return [f for f in F.real_fns() if not f.is_closure and re.search(pat, f.name.split('::')[-1]) and 'test' not in f.name]


def call_term(paths, pat, in_discr=False):
    """find a call term (matching pat) used in some atom of the extracted paths"""
    for atoms, out in paths:
        for term, _ in atoms:
            for s in TB.subterms(term):
                if s and s[0] == 'call' and (re.search(pat, s[1]) or re.search(pat, TB._plain(s[1]))):
                    return s
    return None


def mirror_table(rep, F, fn, sink_pat, rule='R-SIGN'):
    """for a function that rounds a magnitude and re-signs it: for every (sign, mode) the context
    handed to the rounding routine carries the mode mirrored exactly when the sign is Minus and the
    mode is Floor/Ceiling"""
    key = fn.key + ':mirror-table'
    try:
        paths = TB.PathEnum(F, fn).run()
    except Undecided as e:
        rep.undecided_anchor(rule, key, 'table not extractable: %s' % e, fn.where())
        return 0
    sign_t = call_term(paths, r'BigDecimal::sign$|BigInt::sign$')
    mode_t = call_term(paths, r'Context::rounding_mode$')
    ctxp0 = T('param', R.ctx_param_index(fn))
    if mode_t is None:
        # the mode read straight from the context's field instead of through its accessor
        for atoms, out in paths:
            for term, _ in atoms:
                for s_ in TB.subterms(term):
                    if s_ and s_[0] == 'field' and s_[2] == 'rounding' and TB.deref(s_[1]) == ctxp0:
                        mode_t = s_
    if sign_t is None or mode_t is None:
        rep.violation(rule, key, 'the result is re-signed after rounding but no dispatch on (sign, rounding mode) selects a mirrored mode: Floor/Ceiling act in the wrong direction for negative numbers', fn.where())
        return 1
    ctx_term = None
    n = 0
    bad = []
    for sign in SIGNS:
        for mode in MODES:
            n += 1
            env = {sign_t: ('variant', 'Sign', sign), mode_t: ('variant', 'RoundingMode', mode)}
            # shortcut tests (zero / one) are off on the paths of interest
            for atoms, out in paths:
                for term, _ in atoms:
                    tt = TB.deref(term)
                    if tt[0] == 'call' and re.search(r'is_zero$|is_one$', TB._plain(tt[1])):
                        env[tt] = 0
            # contract of the magnitude kernel: its result is non-negative (an in-place re-sign tests it against sign(x))
            for atoms, out in paths:
                for term, _ in atoms:
                    for st_ in TB.subterms(term):
                        if st_[0] == 'call' and re.search(r'BigInt::sign$|BigDecimal::sign$', TB._plain(st_[1])) and st_[2] and TB.find_calls(st_[2][0], sink_pat):
                            env[st_] = ('variant', 'Sign', 'Plus')
            ev = TB.Evaluator(F.raw['enums'], env)
            try:
                atoms, out = ev.select(paths)
            except Undecided as e:
                bad.append(((sign, mode), 'undecided: %s' % e))
                continue
            sinks = TB.find_calls(out, sink_pat)
            if not sinks:
                bad.append(((sign, mode), 'no rounding routine on this path: %s' % TB.show(out)[:80]))
                continue
            ctxarg = TB.deref(TB.reduce_option(F, sinks[0][2][-1]))
            want_mode = DIRECTED_MIRROR.get(mode) if sign == 'Minus' else None
            ctxp = T('param', R.ctx_param_index(fn))

            def mode_of(a):
                """the rounding mode a context term carries on this path: ctx -> the caller's mode; with_rounding_mode(ctx, M) -> M,
                where M may be a literal variant or the caller's own mode (rounding_mode(ctx)) handed back"""
                a = TB.deref(a)
                if a == ctxp:
                    return mode
                # the mode handed over loose (beside the precision) instead of inside a context
                if a[0] == 'adt' and str(a[1]).endswith('RoundingMode') and not a[3]:
                    return a[2]
                if a == TB.deref(mode_t) or (TB.is_call(a, r'Context::rounding_mode$') and TB.deref(a[2][0]) == ctxp) or (a[0] == 'field' and a[2] == 'rounding' and TB.deref(a[1]) == ctxp):
                    return mode
                if TB.is_call(a, r'Context::with_rounding_mode$') and TB.deref(a[2][0]) == ctxp:
                    mm = TB.deref(a[2][1])
                    if mm[0] == 'adt' and str(mm[1]).endswith('RoundingMode') and not mm[3]:
                        return mm[2]
                    if mm == TB.deref(mode_t) or (TB.is_call(mm, r'Context::rounding_mode$') and TB.deref(mm[2][0]) == ctxp):
                        return mode
                return None
            got_mode = mode_of(ctxarg)
            if want_mode is None:
                ok = got_mode == mode
                want = 'the caller\'s context (mode %s) unchanged' % mode
            else:
                ok = got_mode == want_mode
                want = 'the context with mode %s' % want_mode
            if not ok:
                bad.append(((sign, mode), 'rounding routine receives %s; must receive %s' % (TB.show(ctxarg)[:80], want)))
    if bad:
        rep.violation(rule, key, 'sign/mode mirror table wrong in %d of 21 cells, e.g. (sign, mode)=%s: %s' % (len(bad), bad[0][0], bad[0][1]), fn.where())
    else:
        rep.ok(rule, key, '21 (sign, mode) cells: Floor<->Ceiling mirrored exactly for negative input, context unchanged otherwise', fn.where())
    return n


def sign_and_ctx_rules(rep, F, fns, sink_pat=None):
    E = engine(F)
    n1 = R.ctx_honoured(rep, F, E, fns, allow_mirror=sink_pat is not None)
    n2 = R.mode_pair_honoured(rep, F, E, fns)
    n3 = S.sign_sinks(rep, F, E, fns)
    before = len(rep.obs)
    n4 = S.no_resign_after_rounding(rep, F, E, fns)
    # upgrade the provenance-level "mirrored" verdict to the exact table
    for o in list(rep.obs[before:]):
        if 'mirrored' in o['detail'] and o['status'] == 'discharged' and sink_pat:
            fn = next(f for f in fns if o['key'].split(':', 2)[2].startswith(f.key + ':'))
            n4 += mirror_table(rep, F, fn, sink_pat)
    return n1 + n2, n3 + n4


# kernels that work on a magnitude / assume a sign dispatch done by their caller: who may call them (confirmed by reading)
KERNEL_GATES = {
    'arithmetic::inverse::impl_inverse_uint_scale': (r'^BigDecimal::inverse_with_context$', 'inverse_with_context mirrors Floor/Ceiling for negative operands and re-attaches the sign'),
    'arithmetic::sqrt::impl_sqrt': (r'^BigDecimal::sqrt_with_context$|^BigDecimalRef(::<.*>)?::sqrt_(abs_|copysign_)?with_context$', 'the sqrt entry points dispatch on the sign (negative -> None / abs / copysign)'),
    'arithmetic::cbrt::impl_cbrt_uint_scale': (r'^arithmetic::cbrt::impl_cbrt_int_scale$', 'impl_cbrt_int_scale hands over the magnitude together with the sign for the rounding data'),
    'arithmetic::cbrt::impl_cbrt_int_scale': (r'^BigDecimal::cbrt_with_context$', 'single entry point'),
}


def kernel_gates(rep, F, which, rule='KERNEL-GATE'):
    """must-pass-through on the call graph: every call path from an API root (a function nobody in the crate calls: public
    methods, trait impls) to a magnitude kernel goes through one of the gate functions that prepare its sign handling.
    A private helper inserted between gate and kernel is fine; an entry point that reaches the kernel around the gate is not"""
    cg = F.callgraph()
    callers = {}
    for k, vs in cg.items():
        for v in vs:
            callers.setdefault(v, set()).add(k)
    n = 0
    for tgt, (pat, why) in sorted(KERNEL_GATES.items()):
        if not re.search(which, tgt):
            continue
        if tgt not in F.fns:
            rep.violation(rule, tgt.split('::')[-1] + ':missing', 'anchor function not found (fail closed)')
            continue
        n += 1
        # walk callers backwards from the kernel, not entering gates
        seen, st = set(), [tgt]
        gates_hit = set()
        while st:
            x = st.pop()
            for c in callers.get(x, ()):
                if c == x or c in seen:
                    continue
                if re.search(pat, c):
                    gates_hit.add(c)
                    continue
                seen.add(c)
                st.append(c)
        # a bypass: a function reached that way which is an API root (no callers besides itself / closures' parents)
        roots_ = [c for c in sorted(seen) if not F.fns[c].is_closure and not [q for q in callers.get(c, ()) if q != c]]
        key = F.fns[tgt].key + ':callers'
        if roots_:
            rep.violation(rule, key, '%s reaches the magnitude kernel without passing through its gate; %s - a caller that bypasses it loses that step' % (roots_[0], why), F.fns[roots_[0]].where())
        elif not gates_hit:
            rep.undecided(rule, key, 'no gate function found among the callers', F.fns[tgt].where())
        else:
            rep.ok(rule, key, 'every call path from an API entry passes through %s (%s)' % (', '.join(sorted(c.split('::')[-1] for c in gates_hit)), why), F.fns[tgt].where())
    return n


def default_form(rep, F, pat):
    """the default-context form passes Context::default() (built only from the generated constants) to the explicit form"""
    from rules import prov as _prov, provrules as _R
    if not hasattr(F, '_prov'):
        F._prov = _prov.ProvEngine(F)
    before = len(rep.obs)
    _R.default_ops(rep, F, F._prov, rule='PROV-DEFAULTOPS')
    keep = [o for o in rep.obs[before:] if re.search(pat, o['key'])]
    rep.obs = rep.obs[:before] + keep
    return len(keep)
