"""C11 cube root: PROV-CTX, R-SIGN (rounding data carries the sign; re-signed with the same value),
lazy-flag table cross-check, R-STICKY."""
from props import roots
from rules import signsticky as S, tablerules as TR, scale
from props import exact


def run(ctx):
    rep = ctx.rep
    rep.explanation = ('Static MIR analysis. PROV-CTX: cbrt_with_context -> impl_cbrt_int_scale -> impl_cbrt_uint_scale hand on ctx.precision and '
                       'ctx.rounding, and the final rounding (InsigData) receives the rounding data unchanged. R-SIGN: the rounding data is built with '
                       'n.sign() and the result is re-signed with that very value. R-TABLE: needs_trailing_zeros (the lazily evaluated tail flag) is '
                       'consistent with round_pair. R-STICKY: radicand consulted again after nth_root. ROOT-SHAPE: the lazily evaluated discarded-part-is-zero flag is true only on paths that establish nth_root(R,3)^3 == R. R-SCALE (dimension bookkeeping): on every path of impl_cbrt_uint_scale - all three residues of the scale mod 3, with and without padding - the dimension of nth_root(n*10^shift, 3) minus the trimmed digits equals the scale of the constructed result (linear arithmetic over the div_rem fact shifted = 3q + r). NOT decided: the digits of the root.')
    F = ctx.facts('default', 'rel')
    fns = roots.family(F, r'cbrt')
    rep.entries['cbrt family'] = [f.key for f in fns]
    rep.floor('cbrt functions', len(fns), 4)
    n1, n2 = roots.sign_and_ctx_rules(rep, F, fns)
    cells, table = TR.round_pair_table(rep, F)
    n3 = TR.needs_tz_crosscheck(rep, F, table)
    n4 = S.sticky(rep, F, fns)
    from rules import rootshape
    nrs = rootshape.check_cbrt(rep, F)
    rep.floor('root-shape obligations (exact flag)', nrs, 1)
    ndf = roots.default_form(rep, F, r'cbrt')
    rep.floor('default-context form', ndf, 1)
    nkg = roots.kernel_gates(rep, F, r'cbrt')
    rep.floor('kernel gateways', nkg, 1)
    npf = exact.pow_fits(ctx)
    rep.floor('integer powers of ten checked for overflow', npf, 5)
    # scale bookkeeping of the root routine: for every residue of the scale mod 3 the returned integer's
    # dimension (radicand dimension / 3, minus the trimmed digits) equals the scale it is labelled with
    exact.prepare(F)
    for f in fns:
        if f.name.split('::')[-1] == 'impl_cbrt_uint_scale':
            v, msgs, paths = scale.analyse(f, 'dims', scale_params=(2,))
            key = f.key + ':scale-bookkeeping'
            if v == 'ok':
                rep.ok('R-SCALE', key, 'all %d paths (scale residues 0, 1, 2 mod 3; with and without zero padding): dim(nth_root(n*10^shift, 3)) - trimmed digits = the result\'s scale' % paths, f.where())
            elif v == 'violation':
                rep.violation('R-SCALE', key, msgs[0][:500], f.where())
            else:
                rep.undecided('R-SCALE', key, msgs[0][:200], f.where())
    S.radicand_exact(rep, F, fns)
    rep.floor('PROV-CTX final sinks', n1, 3)
    rep.floor('R-SIGN instances', n2, 2)
    rep.floor('lazy-flag cells', n3, 70)
    rep.floor('integer-root sites', n4, 1)
    rep.trust('num-integer Roots::nth_root returns the floor of the exact root (no remainder)')
