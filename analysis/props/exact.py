"""shared driver of the R-SCALE family (C01, C09, C19 and the rescale clauses of C06 / C18)"""
import re, collections
from rules import scale, table as TB

DERIVED = [('BigDecimal::double', 'double'), ('BigDecimal::half', 'half'), ('BigDecimal::square', 'square'),
           ('BigDecimal::cube', 'cube'), ('BigDecimal::abs', 'abs')]
RESCALE = [r'^BigDecimal::with_scale$', r'^BigDecimal::set_scale$', r'^BigDecimal::take_and_scale$', r"^BigDecimalRef(::<'_>)?::to_owned_with_scale$"]


def prepare(F):
    """first pass: helper preconditions over parameter scales are lifted to the call sites"""
    if getattr(F, '_scale_ready', False):
        return
    scale.PRECONDS.clear()
    scale.FACTS = F
    for f, kind in scale.kernels(F):
        if re.search(r'^arithmetic::addition::', f.name):
            scale.analyse(f, kind, lift=True)
    F._scale_ready = True


def record(rep, rule, fn, verdict, msgs, paths, key_suffix='', extra=''):
    key = fn.key + key_suffix
    if verdict == 'ok':
        rep.ok(rule, key, 'all %d paths type-check: dimensions consistent, rescaling upward, no lossy operation, value = specification%s' % (paths, extra), fn.where())
    elif verdict == 'undecided':
        rep.undecided(rule, key, 'body contains a construct the typing does not model (%s); no verdict for this function' % msgs[0][:160], fn.where())
    else:
        rep.violation(rule, key, msgs[0][:600], fn.where())


def in_caller_context(F, f, kind):
    """analyse helper f spliced into its unique caller (None if it has several callers or none)"""
    import copy
    import inline
    from facts import Fn
    callers = [g for g in F.real_fns() if g.name != f.name and any((t['callee'].get('resolved') or '') == f.name for b, t in g.calls())]
    if len(callers) != 1:
        return None
    g = callers[0]
    d = copy.deepcopy(g.d)
    bodies = {f.name: f.d, g.name: d}
    counter = [0]
    for _ in range(8):
        hit = None
        for bl in d['blocks']:
            t = bl['term']
            if t.get('t') == 'call' and (t['callee'].get('resolved') or '') == f.name:
                hit = (bl, t)
                break
        if hit is None:
            break
        inline.inline_call(d, hit[0], hit[1], f.d, bodies, counter)
    merged = Fn(d)
    gk = scale.OPS.get(g.trait) if g.trait in scale.OPS else ('add' if re.search(r'^arithmetic::addition::add', g.name) else kind)
    try:
        return scale.analyse(merged, gk, lift=re.search(r'^arithmetic::addition::', g.name) is not None)
    except Exception:
        return None


def operator_family(rep, F, traits, rule='R-SCALE'):
    """every impl function of the given operator traits + the addition helpers"""
    prepare(F)
    n = 0
    arms = collections.Counter()
    shortcuts = 0
    for f, kind in scale.kernels(F):
        if f.trait is not None and f.trait not in traits:
            continue
        if f.trait is None and 'std::ops::Add' not in traits:
            continue
        is_helper = re.search(r'^arithmetic::addition::', f.name) is not None
        v, msgs, paths = scale.analyse(f, kind, lift=is_helper)
        a = scale.analyse.last
        if v == 'violation' and is_helper:
            # a helper whose contract with its only caller is not expressible over parameter scales alone (e.g. it is handed a
            # scale difference the caller computed): type it in the context of that caller, spliced in at MIR level
            alt = in_caller_context(F, f, kind)
            if alt is not None and alt[0] == 'ok':
                v, msgs, paths = alt
                a = scale.analyse.last
        n += 1
        arms[f.arm] += 1
        rep.add_functions([f.name])
        extra = ''
        if a.shortcuts:
            shortcuts += a.shortcut_ok
            extra = '; shortcut paths verified under value facts {%s} for arbitrary scales' % '; '.join(a.shortcuts[:4])
        if is_helper and scale.PRECONDS.get(f.name):
            extra += '; preconditions lifted to call sites: %s' % ['%s %s %s' % (scale.show(x[1]), x[0], scale.show(x[2])) for x in scale.PRECONDS[f.name]][:2]
        record(rep, rule, f, v, msgs, paths, extra=extra)
    return n, len(arms), shortcuts


def derived_ops(rep, F, rule='R-SCALE'):
    prepare(F)
    n = 0
    for name, kind in DERIVED:
        fn = F.fns.get(name)
        if fn is None:
            rep.note('anchor %s not present: skipped' % name)
            continue
        n += 1
        rep.add_functions([fn.name])
        v, msgs, paths = scale.analyse(fn, kind)
        record(rep, rule, fn, v, msgs, paths, extra=' (%s)' % kind)
    for fn in F.impls('num_traits::Signed'):
        if fn.item == 'abs':
            n += 1
            v, msgs, paths = scale.analyse(fn, 'abs')
            record(rep, rule, fn, v, msgs, paths, extra=' (|a| by sign dispatch)')
    # iterator sums: fold(zero, |a, b| a + b)
    for fn in F.impls('std::iter::Sum'):
        n += 1
        rep.add_functions([fn.name])
        key = fn.key + ':fold-from-zero'
        try:
            paths = TB.PathEnum(F, fn).run()
            out = TB.deref(paths[0][1]) if len(paths) == 1 else None
        except TB.Undecided:
            out = None
        ok = out is not None and TB.is_call(out, r'Iterator::fold$') and len(out[2]) == 3 and TB.is_call(out[2][1], r'Zero>?::zero$')
        if ok:
            rep.ok(rule, key, 'sum = iter.fold(zero, closure): %s' % TB.show(out)[:80], fn.where())
        else:
            rep.undecided(rule, key, 'not the fold-from-zero shape; accumulation not decided structurally', fn.where())
        for cn in F.closures_of(fn.name):
            cf = F.fns[cn]
            v, msgs, paths = scale.analyse(cf, 'add', arg_offset=1)
            record(rep, rule, cf, v, msgs, paths, extra=' (accumulator + item)')
            n += 1
    return n


def rescale_primitives(rep, F, rule='R-SCALE', exact=True, scale_only=True):
    prepare(F)
    n = 0
    for pat in RESCALE:
        for fn in F.real_fns():
            if fn.is_closure or not re.search(pat, fn.name):
                continue
            rep.add_functions([fn.name])
            if exact:
                n += 1
                v, msgs, paths = scale.analyse(fn, 'rescale', scale_params=(2,))
                record(rep, rule, fn, v, msgs, paths, key_suffix=':extension-exact', extra=' (same value at the requested scale whenever it is >= the current scale; the shrinking branch is unreachable under that precondition)')
            if scale_only:
                n += 1
                v, msgs, paths = scale.analyse(fn, 'scale-only', scale_params=(2,))
                record(rep, rule, fn, v, msgs, paths, key_suffix=':carries-requested-scale', extra=' (every path returns exactly the requested scale with a consistent integer dimension)')
    # the rounding rescale and its default-mode entry point: label only (loops are widened, the digits are not decided)
    for pat in (r'^BigDecimal::with_scale_round$', r'^BigDecimal::round$'):
        if not scale_only:
            break
        for fn in F.real_fns():
            if fn.is_closure or not re.search(pat, fn.name):
                continue
            rep.add_functions([fn.name])
            n += 1
            v, msgs, paths = scale.analyse(fn, 'scale-only', scale_params=(2,))
            record(rep, rule, fn, v, msgs, paths, key_suffix=':carries-requested-scale', extra=' (every path returns a decimal labelled with exactly the requested scale)')
    return n


def power_helpers(rep, F, rule='R-SCALE'):
    """the power-of-ten helpers really return 10^k on every loop-free algorithm branch (exponent typing);
    the 19-digit-chunk loop of ten_to_the_uint is outside the typing and reported as such"""
    prepare(F)
    scale.FACTS = F
    n = 0
    for name in ('arithmetic::ten_to_the_uint', 'arithmetic::ten_to_the_u64', 'arithmetic::ten_to_the'):
        fn = F.fns.get(name)
        if fn is None:
            rep.note('anchor %s not present: skipped' % name)
            continue
        n += 1
        rep.add_functions([fn.name])
        v, msgs, paths = scale.analyse(fn, 'pow10', scale_params=(1,))
        a = scale.analyse.last
        key = fn.key + ':returns-10^k'
        if v == 'violation':
            rep.violation(rule, key, msgs[0][:500], fn.where())
        elif a.ok > 0 and all(m == 'loop' for m in a.undec):
            extra = '' if not a.undec else '; %d loop path(s) (the 19-digit-chunk algorithm for 20 <= k < 590) are not decided' % len(a.undec)
            rep.ok(rule, key, '%d loop-free path(s) return exactly 10^k: exponents add up to the argument (e.g. 16*q + r with (q, r) = div_rem(k, 16))%s' % (a.ok, extra), fn.where())
        else:
            rep.undecided(rule, key, (msgs or ['no path decided'])[0][:200], fn.where())
    return n


def pow_fits(ctx, rule='POW-FITS'):
    """every 10uN.pow(k) in the power-of-ten helpers provably fits its integer type: the exponent is bounded by a dominating
    `k < c` test or by a div_rem remainder (interval reasoning of the panic engine, debug-profile facts).  10u64.pow(20)
    panics in debug builds and wraps to garbage in release builds"""
    from rules.panic_clause import panic_clause
    from report import Report, OK, VIOLATION
    rep = ctx.rep
    Fd = ctx.facts('default', 'dbg')
    bodies = [n for n in ('arithmetic::multiply_by_ten_to_the_uint', 'arithmetic::ten_to_the_uint', 'arithmetic::ten_to_the_u64') if n in Fd.fns]
    before = len(rep.obs)
    panic_clause(ctx, Fd, [], only_bodies=bodies, what='powers of ten')
    new = rep.obs[before:]
    rep.obs = rep.obs[:before]
    n = 0
    for o in new:
        if 'num::pow' not in o['key']:
            continue
        n += 1
        o = dict(o)
        o['rule'] = rule
        o['key'] = o['key'].replace(':R-PANIC:', ':%s:' % rule)
        if o['status'] == VIOLATION:
            o['detail'] = 'the exponent of 10uN.pow(..) is not provably small enough for the integer type (10^20 does not fit u64): ' + o['detail'][:200]
        rep.obs.append(o)
    return n
