"""C09 remainder: alignment upward and `%` at equal dimensions in all four hand-written forms (R-SCALE),
RemAssign forwards correctly, zero divisor reaches num-bigint's panicking `%` (R-GUARD)."""
from props import exact
from props.c08 import guard_clause
from rules import scale


def run(ctx):
    rep = ctx.rep
    rep.explanation = ('Static MIR analysis. R-SCALE on the Rem/RemAssign impls: both operands are brought to max(scale_a, scale_b) upward (direction '
                       'obligations proven from the path\'s ordering facts), `%` is applied to (a, b) in that order at provably equal dimensions and the '
                       'result is constructed at that scale; RemAssign is a - b forwarder in the right order. R-GUARD: a zero divisor reaches '
                       'num-bigint\'s panicking `%` through a zero-preserving image on every path. NOT decided: num-bigint\'s sign convention for `%` '
                       '(trusted: truncated, sign of the dividend).')
    F = ctx.facts('default', 'rel')
    n, arms, sc = exact.operator_family(rep, F, ('std::ops::Rem', 'std::ops::RemAssign'))
    nr = exact.rescale_primitives(rep, F, scale_only=False)
    ng, tot = guard_clause(ctx, F, ('std::ops::Rem', 'std::ops::RemAssign'))
    rep.floor('Rem/RemAssign functions (typing)', n, 5)
    rep.floor('Rem/RemAssign functions (zero guard)', ng, 5)
    rep.trust('num-bigint: BigInt % BigInt truncates (result has the sign of the dividend) and panics on a zero divisor')
