"""C06: rounding to a scale -- round_pair decision table, lazy-flag consistency, default mode of round(n)."""
from rules import tablerules as TR, provrules as R, prov


def run(ctx):
    rep = ctx.rep
    rep.explanation = ('Static MIR analysis. R-TABLE: the complete decision table of RoundingMode::round_pair is extracted from its CFG '
                       '(path enumeration over terms; atoms = branch predicates) and compared, for all 4200 abstract inputs '
                       '(7 modes x 3 signs x 100 digit pairs x tail flag), with the documented mode definitions by evaluating the path '
                       'predicates -- the function is never run.  needs_trailing_zeros is cross-checked against that table. '
                       'PROV: round(n) uses the configured default mode.  NOT decided: carry propagation and the position arithmetic of with_scale_round.')
    F = ctx.facts('default', 'rel')
    cells, table = TR.round_pair_table(rep, F)
    rep.floor('round_pair abstract cells', cells, 4200)
    n = TR.needs_tz_crosscheck(rep, F, table)
    rep.floor('needs_trailing_zeros cells', n, 70)
    if not hasattr(F, '_prov'):
        F._prov = prov.ProvEngine(F)
    sub_before = len(rep.obs)
    R.default_ops(rep, F, F._prov, rule='PROV-DEFAULTOPS')
    # keep only the round(n) obligation of that family here
    rep.obs = rep.obs[:sub_before] + [o for o in rep.obs[sub_before:] if 'BigDecimal::round->' in o['key']]
    rep.extra['exhaustive_table'] = True
    rep.trust('RoundingMode documentation (identical to IEEE-754 / java.math.RoundingMode) as the oracle for the table')
