"""C06: rounding to a scale -- round_pair decision table, lazy-flag consistency, default mode of round(n)."""
from rules import tablerules as TR, provrules as R, prov, signsticky as S
from props import exact
from props.c15 import no_flooring


def run(ctx):
    rep = ctx.rep
    rep.explanation = ('Static MIR analysis. R-TABLE: the complete decision table of RoundingMode::round_pair is extracted from its CFG '
                       '(path enumeration over terms; atoms = branch predicates) and compared, for all 4200 abstract inputs '
                       '(7 modes x 3 signs x 100 digit pairs x tail flag), with the documented mode definitions by evaluating the path '
                       'predicates -- the function is never run.  needs_trailing_zeros is cross-checked against that table. '
                       'PROV: round(n) uses the configured default mode. R-SCALE: with_scale / set_scale / take_and_scale / to_owned_with_scale return exactly the requested scale on every path and are exact when extending; R-SIGN: with_scale_round gives round_pair the receiver\'s own sign; R-NOCALL: truncation uses truncating division. MODE-DISPATCH: no function other than the table-checked ones branches on a RoundingMode value. POSITION: place-value typing of with_scale_round\'s digit indices - with k = scale - new_scale the pair handed to round_pair is (D[k], D[k-1]), the tail flag all_zero(D[0..k-1]), the result rebuilt from D[k..], the three regimes selected by comparing len(D) - scale with -new_scale (linear identities, all digit counts and scales). NOT decided: carry propagation through runs of nines.')
    F = ctx.facts('default', 'rel')
    cells, table = TR.round_pair_table(rep, F)
    rep.floor('round_pair abstract cells', cells, 4200)
    n = TR.needs_tz_crosscheck(rep, F, table)
    rep.floor('needs_trailing_zeros cells', n, 70)
    if not hasattr(F, '_prov'):
        F._prov = prov.ProvEngine(F)
    sub_before = len(rep.obs)
    R.default_ops(rep, F, F._prov, rule='PROV-DEFAULTOPS')
    # keep only the round(n) obligation of that family here
    rep.obs = rep.obs[:sub_before] + [o for o in rep.obs[sub_before:] if 'BigDecimal::round->' in o['key']]
    # (4) the rescale routines return exactly the requested scale; their extension branch is exact
    nr = exact.rescale_primitives(rep, F)
    rep.floor('rescale primitive obligations', nr, 10)
    # (5) with_scale_round hands the receiver's own sign to round_pair; truncation never floors
    wsr = [f for f in F.real_fns() if not f.is_closure and f.name == 'BigDecimal::with_scale_round']
    ns = S.sign_sinks(rep, F, F._prov, wsr)
    rep.floor('round_pair calls in with_scale_round', ns, 3)
    no_flooring(rep, F)
    from rules import position
    npos = position.check(rep, F)
    rep.floor('position obligations of with_scale_round', npos, 6)
    nm = TR.mode_dispatch(rep, F)
    rep.floor('functions dispatching on the rounding mode', nm, 3)
    rep.extra['exhaustive_table'] = True
    rep.trust('RoundingMode documentation (identical to IEEE-754 / java.math.RoundingMode) as the oracle for the table')
