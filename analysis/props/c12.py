"""C12 reciprocal: PROV-CTX and R-SIGN (the magnitude is rounded then re-signed: Floor/Ceiling must be mirrored)."""
import re
from props import roots
from rules import table as TB


def sign_carrying_outcomes(rep, F, fns, rule='R-TABLE'):
    """"the reciprocal has the sign of x": every return of the entry point is either x itself (the
    0 / 1 shortcut) or passes through the sign-copying step with sign(x) (must-pass-through)"""
    n = 0
    for fn in fns:
        if fn.name.split('::')[-1] != 'inverse_with_context':
            continue
        key = fn.key + ':every-return-carries-sign'
        try:
            paths = TB.PathEnum(F, fn, max_paths=64).run()
        except TB.Undecided as e:
            rep.undecided(rule, key, str(e), fn.where())
            continue
        n += 1
        bad = []
        for atoms, out in paths:
            nf = TB.show(TB.strip_refs(out))
            ok = nf == 'arg1' or re.match(r'^take_with_sign\(.*,sign\(arg1\)\)$', nf) is not None
            if not ok:
                bad.append(([(TB.show(a[0])[:30], a[1]) for a in atoms][-2:], nf[:120]))
        if bad:
            rep.violation(rule, key, '%d of %d return paths neither return x nor re-attach sign(x): e.g. under %s the result is %s (a negative x would get a positive reciprocal)'
                          % (len(bad), len(paths), bad[0][0], bad[0][1]), fn.where())
        else:
            rep.ok(rule, key, 'all %d return paths are x itself or take_with_sign(.., sign(x))' % len(paths), fn.where())
    return n



def run(ctx):
    rep = ctx.rep
    rep.explanation = ('Static MIR analysis. PROV-CTX: inverse_with_context -> impl_inverse_uint_scale: the final with_precision_round receives '
                       'ctx.precision and ctx.rounding. R-SIGN: the implementation rounds |x| and copies the sign afterwards, so the exact '
                       '(sign, mode) table is extracted from the CFG: the rounding routine must receive Ceiling for (Minus, Floor), Floor for '
                       '(Minus, Ceiling) and the caller\'s context in the 19 other cells. NOT decided: convergence, termination, accuracy at small p.')
    F = ctx.facts('default', 'rel')
    fns = roots.family(F, r'^inverse|^impl_inverse')
    rep.entries['inverse family'] = [f.key for f in fns]
    rep.floor('inverse functions', len(fns), 3)
    n1, n2 = roots.sign_and_ctx_rules(rep, F, fns, sink_pat=r'inverse::impl_inverse_uint_scale$')
    rep.floor('PROV-CTX final sinks', n1, 2)
    rep.floor('R-SIGN instances', n2, 3)
    n3 = sign_carrying_outcomes(rep, F, fns)
    rep.floor('entry points with sign-carrying returns', n3, 1)
    if ctx.tier == 'thorough':
        from rules import witness
        nw = witness.run(rep, r'^W1')
        rep.floor('type-level witnesses', nw, 1)
