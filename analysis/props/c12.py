"""C12 reciprocal: PROV-CTX and R-SIGN (the magnitude is rounded then re-signed: Floor/Ceiling must be mirrored)."""
import re
from props import roots
from rules import table as TB


def sign_carrying_outcomes(rep, F, fns, rule='R-TABLE'):
    """"the reciprocal has the sign of x": every return of the entry point is either x itself (the
    0 / 1 shortcut) or passes through the sign-copying step with sign(x) (must-pass-through)"""
    n = 0
    for fn in fns:
        if fn.name.split('::')[-1] != 'inverse_with_context':
            continue
        key = fn.key + ':every-return-carries-sign'
        try:
            paths = TB.PathEnum(F, fn, max_paths=64).run()
        except TB.Undecided as e:
            rep.undecided(rule, key, str(e), fn.where())
            continue
        n += 1
        bad = []
        for atoms, out in paths:
            o2 = TB.strip_refs(out)
            nf = TB.show(o2)
            ok = nf == 'arg1' or re.match(r'^take_with_sign\(.*,sign\(arg1\)\)$', nf) is not None
            if not ok:
                # the sign copied in place: the kernel result K (a magnitude) is returned as it is where the path establishes
                # sign(K) == sign(x) (or sign(x) == NoSign), and with its integer negated where it establishes sign(K) != sign(x)
                negated = o2[0] == 'with_field' and o2[2] == 'int_val' and TB.is_call(o2[3], r'ops::Neg::neg$') and TB.strip_refs(o2[3][2][0]) == ('field', o2[1], 'int_val')
                K = o2[1] if negated else o2
                differs = None
                nosign = False
                for term, (rel, val) in atoms:
                    t_ = TB.strip_refs(term)
                    truth = not (rel == 'eq' and val == 0)
                    if t_[0] == 'bin' and t_[1] in ('Ne', 'Eq'):
                        sides = {TB.show(t_[2]), TB.show(t_[3])}
                        if TB.show(('call', 'BigInt::sign', (('field', K, 'int_val'),))).replace('BigInt::', '') in {x.replace('BigInt::', '') for x in sides} and any(x in ('sign(arg1)',) for x in sides):
                            differs = truth if t_[1] == 'Ne' else not truth
                        if 'sign(arg1)' in sides and any('NoSign' in x for x in sides):
                            nosign = (not truth) if t_[1] == 'Ne' else truth
                if TB.is_call(K, r'impl_inverse_uint_scale$') and ((negated and differs is True) or (not negated and (differs is False or nosign))):
                    ok = True
            if not ok:
                bad.append(([(TB.show(a[0])[:30], a[1]) for a in atoms][-2:], nf[:120]))
        if bad:
            rep.violation(rule, key, '%d of %d return paths neither return x nor re-attach sign(x): e.g. under %s the result is %s (a negative x would get a positive reciprocal)'
                          % (len(bad), len(paths), bad[0][0], bad[0][1]), fn.where())
        else:
            rep.ok(rule, key, 'all %d return paths are x itself or take_with_sign(.., sign(x))' % len(paths), fn.where())
    return n



STRUCT = re.compile(r'BigDecimal::(new|from_bigint|from_biguint|to_ref)$|BigInt::from_biguint$|clone::Clone::clone$|convert::(From::from|Into::into)$|borrow::ToOwned::to_owned$|BigInt::(magnitude|into_parts|sign)$|BigDecimalRef.*::(to_owned|abs)$|Signed::abs$|BigDecimal::abs$')
SHORTEN = re.compile(r'BigDecimal::(with_prec|with_precision_round|with_scale_round|with_scale|round|set_scale|take_and_scale)$|to_owned_with_scale$|Context::round_decimal|ops::(Div|Rem|Shr)(Assign)?|Integer::div_rem$|Roots::')


def operand_exact(rep, F, rule='OPERAND-EXACT'):
    """the Newton iteration r <- r(2 - x r) converges to the reciprocal of whatever x it is given: the operand built from
    (n, scale) must reach the iteration closure unrounded.  Values derived only from the operand parameters through
    structure-preserving constructors form the class OPERAND; handing one of them to a rounding / truncating routine is a
    violation (the iterate and the initial guess are not in that class and may be clipped freely)"""
    fn = F.fns.get('arithmetic::inverse::impl_inverse_uint_scale')
    if fn is None:
        rep.violation(rule, 'impl_inverse_uint_scale:missing', 'anchor function not found (fail closed)')
        return 0
    rep.add_functions([fn.name])
    OP = {1, 2}
    CONST = set()
    changed = True
    while changed:
        changed = False
        for bid, st in fn.stmts():
            rv = st['rv']
            if st['lhs']['p']:
                continue
            l = st['lhs']['l']
            src = []
            if rv['r'] in ('use', 'cast') and rv['op'].get('k') in ('copy', 'move'):
                src = [rv['op']['pl']['l']]
            elif rv['r'] == 'ref':
                src = [rv['pl']['l']]
            elif rv['r'] == 'agg' and rv['kind'].get('a') != 'closure':
                src = [o['pl']['l'] for o in rv['ops'] if o.get('k') in ('copy', 'move')]
                if not src:
                    if l not in CONST:
                        CONST.add(l)
                        changed = True
                    continue
            else:
                continue
            if src and all(x in OP for x in src) and l not in OP:
                OP.add(l)
                changed = True
        for bid, t in fn.calls():
            if not t.get('dest') or t['dest']['p']:
                continue
            r0 = TB._plain(t['callee'].get('resolved') or t['callee'].get('def') or '')
            d0 = TB._plain(t['callee'].get('def') or '')
            locs = [a['pl']['l'] for a in t['args'] if a.get('k') in ('copy', 'move')]
            if (STRUCT.search(r0) or STRUCT.search(d0)) and locs and all(x in OP or x in CONST for x in locs) and any(x in OP for x in locs) and t['dest']['l'] not in OP:
                OP.add(t['dest']['l'])
                changed = True
    bad = []
    for bid, t in fn.calls():
        r0 = TB._plain(t['callee'].get('resolved') or t['callee'].get('def') or '')
        d0 = TB._plain(t['callee'].get('def') or '')
        if (SHORTEN.search(r0) or SHORTEN.search(d0)) and t['args'] and t['args'][0].get('k') in ('copy', 'move') and t['args'][0]['pl']['l'] in OP:
            bad.append((r0.split('::')[-1], t['loc']['line']))
    captured = False
    for bid, st in fn.stmts():
        rv = st['rv']
        if rv['r'] == 'agg' and rv['kind'].get('a') == 'closure' and any(o.get('k') in ('copy', 'move') and o['pl']['l'] in OP for o in rv['ops']):
            captured = True
    key = fn.key + ':operand-reaches-iteration-unrounded'
    if bad:
        rep.violation(rule, key, 'the operand is shortened by %s (line %d) before the Newton iteration: the result converges to the reciprocal of a rounded x, so exact reciprocals and directed modes go wrong' % bad[0], fn.where(bad[0][1]))
    elif not captured:
        rep.undecided(rule, key, 'no iteration closure capturing an operand-only value recognised', fn.where())
    else:
        rep.ok(rule, key, '%d operand-only locals; none is handed to a rounding or truncating routine; the iteration closure captures one of them' % len(OP), fn.where())
    return 1


def run(ctx):
    rep = ctx.rep
    rep.explanation = ('Static MIR analysis. PROV-CTX: inverse_with_context -> impl_inverse_uint_scale: the final with_precision_round receives '
                       'ctx.precision and ctx.rounding. R-SIGN: the implementation rounds |x| and copies the sign afterwards, so the exact '
                       '(sign, mode) table is extracted from the CFG: the rounding routine must receive Ceiling for (Minus, Floor), Floor for '
                       '(Minus, Ceiling) and the caller\'s context in the 19 other cells. OPERAND-EXACT: the operand reaches the Newton iteration unrounded (only the iterate and the guess are clipped). ITER-EXIT: the exit test of the refinement loop must not depend on a value that already went through the rounding to the caller\'s precision under the caller\'s mode (agreement of two p-digit roundings says nothing about the limit) - a known finding on this tree. NOT decided: convergence and termination as such, the digits of the result.')
    F = ctx.facts('default', 'rel')
    fns = roots.family(F, r'^inverse|^impl_inverse')
    rep.entries['inverse family'] = [f.key for f in fns]
    rep.floor('inverse functions', len(fns), 3)
    n1, n2 = roots.sign_and_ctx_rules(rep, F, fns, sink_pat=r'inverse::impl_inverse_uint_scale$')
    rep.floor('PROV-CTX final sinks', n1, 2)
    rep.floor('R-SIGN instances', n2, 3)
    n3 = sign_carrying_outcomes(rep, F, fns)
    ndf = roots.default_form(rep, F, r'BigDecimal::inverse->')
    rep.floor('default-context form', ndf, 1)
    nkg = roots.kernel_gates(rep, F, r'inverse')
    rep.floor('kernel gateways', nkg, 1)
    n4 = operand_exact(rep, F)
    rep.floor('operand-exactness rule', n4, 1)
    from rules import iterexit
    n5 = iterexit.check(rep, F, 'arithmetic::inverse::impl_inverse_uint_scale')
    rep.floor('iteration exit tests', n5, 1)
    rep.floor('entry points with sign-carrying returns', n3, 1)
    if ctx.tier == 'thorough':
        from rules import witness
        nw = witness.run(rep, r'^W1')
        rep.floor('type-level witnesses', nw, 1)
