"""C12 reciprocal: PROV-CTX and R-SIGN (the magnitude is rounded then re-signed: Floor/Ceiling must be mirrored)."""
from props import roots


def run(ctx):
    rep = ctx.rep
    rep.explanation = ('Static MIR analysis. PROV-CTX: inverse_with_context -> impl_inverse_uint_scale: the final with_precision_round receives '
                       'ctx.precision and ctx.rounding. R-SIGN: the implementation rounds |x| and copies the sign afterwards, so the exact '
                       '(sign, mode) table is extracted from the CFG: the rounding routine must receive Ceiling for (Minus, Floor), Floor for '
                       '(Minus, Ceiling) and the caller\'s context in the 19 other cells. NOT decided: convergence, termination, accuracy at small p.')
    F = ctx.facts('default', 'rel')
    fns = roots.family(F, r'^inverse|^impl_inverse')
    rep.entries['inverse family'] = [f.key for f in fns]
    rep.floor('inverse functions', len(fns), 3)
    n1, n2 = roots.sign_and_ctx_rules(rep, F, fns, sink_pat=r'inverse::impl_inverse_uint_scale$')
    rep.floor('PROV-CTX final sinks', n1, 2)
    rep.floor('R-SIGN instances', n2, 3)
    if ctx.tier == 'thorough':
        from rules import witness
        nw = witness.run(rep, r'^W1')
        rep.floor('type-level witnesses', nw, 1)
