"""C16 precision formatting: rounding uses the configured default mode and the number's own sign
(PROV-FMTROUND), the padding limit gates padding, and formatter flags never reach the digits."""
import re
from facts import cdef, cres
from rules import prov, provrules as R, units

FLAG_GETTERS = re.compile(r"fmt::Formatter::(width|fill|align|sign_plus|sign_minus|sign_aware_zero_pad|flags|alternate|options)$")
DIGIT_SINKS = re.compile(r'Formatter::pad_integral$|Formatter::write_str$|fmt::Write::write_str$|fmt::Write::write_char$|String::push$|String::push_str$|String::insert$|Vec::push$|Vec::insert$|Vec::resize$|fmt::Arguments::new$')


def flags_noninterference(rep, F, E, names, rule='FLAGS'):
    getters = 0
    flows = 0
    ncalls = 0

    def is_flag(s):
        return s.startswith('ret:') and FLAG_GETTERS.search(prov.strip_args(s[4:].split('.')[0])) is not None

    tainted, is_tainted = R.param_taint(F, E, names, is_flag)
    for nme in sorted(names):
        fn = F.fns[nme]
        for bid, t in fn.calls():
            ncalls += 1
            d = prov.strip_args(cdef(t))
            if FLAG_GETTERS.search(d):
                getters += 1
            if DIGIT_SINKS.search(d):
                for i in range(len(t['args'])):
                    srcs = E.arg_prov(fn, t, i).all()
                    if is_tainted(fn, srcs):
                        flows += 1
                        rep.violation(rule, '%s|%s:arg%d' % (fn.key, d.split('::')[-1], i),
                                      'a value derived from a formatter flag (width/fill/align/sign/zero-pad/alternate) reaches the characters of the numeral: flags must only add padding around it; sources %s'
                                      % R.short(srcs, 5), fn.where(t['loc']['line']))
    if flows == 0:
        rep.ok(rule, 'fmt-callgraph:flags-do-not-reach-digits',
               '%d calls in %d functions on the formatting paths: %d flag-getter call(s), none flows (directly or through a callee parameter) into the numeral\'s bytes or pad_integral\'s arguments' % (ncalls, len(names), getters))
    return ncalls, getters


def run(ctx):
    rep = ctx.rep
    rep.explanation = ('Static MIR analysis. PROV-FMTROUND: every rounding-data construction / rounding call reachable from Display, LowerExp, UpperExp '
                       'takes the generated DEFAULT_ROUNDING_MODE and the sign of the formatted number. The padding limit FMT_MAX_INTEGER_PADDING '
                       'feeds a comparison on those paths. FLAGS (sufficient condition for "flags never alter the digits"): no value obtained from '
                       'Formatter::{width,fill,align,sign_plus,sign_minus,sign_aware_zero_pad,flags,alternate} flows into the bytes written or into '
                       'pad_integral. UNITS (contradiction rule): on the formatting paths every byte container is used consistently as ASCII text or as digit values (a `== 0` / is_zero test on bytes that are elsewhere offset by b\'0\' is a contradiction). NOT decided: that the ASCII-digit rounding agrees numerically with the library\'s rounding routines.')
    F = ctx.facts('default', 'rel')
    if not hasattr(F, '_prov'):
        F._prov = prov.ProvEngine(F)
    E = F._prov
    n4 = R.fmt_round(rep, F, E)
    # padding-limit clause of PROV-DISPLAY
    before = len(rep.obs)
    R.display_rules(rep, F, E)
    rep.obs = rep.obs[:before] + [o for o in rep.obs[before:] if 'padding-limit' in o['key']]
    names = F.reach(R.fmt_entries(F))
    rep.add_functions(names)
    nc, ng = flags_noninterference(rep, F, E, names)
    nu = units.check(rep, F, names)
    rep.floor('byte containers with a consistent unit', nu, 4)
    # sign handed to pad_integral derives from the number's sign
    n_pad = 0
    for nme in sorted(names):
        fn = F.fns[nme]
        for bid, t in fn.calls():
            if prov.strip_args(cdef(t)).endswith('Formatter::pad_integral') and len(t['args']) >= 2:
                n_pad += 1
                srcs = E.arg_prov(fn, t, 1).all() | R.control_sources(F, E, fn, t['args'][1])
                ok = any('.sign' in s or s.startswith('param:') for s in srcs) and not all(s.startswith('lit:') for s in srcs)
                key = '%s|pad_integral:is_nonnegative' % fn.key
                if ok:
                    rep.ok('PROV-FMTROUND', key, 'sign flag derives from %s' % R.short(srcs, 4), fn.where(t['loc']['line']))
                else:
                    rep.violation('PROV-FMTROUND', key, 'the is_nonnegative flag handed to pad_integral does not derive from the number\'s sign: %s' % R.short(srcs), fn.where(t['loc']['line']))
    rep.floor('formatting rounding sinks', n4, 2)
    rep.floor('calls scanned on formatting paths', nc, 150)
    rep.floor('pad_integral calls', n_pad, 3)
    rep.trust('Formatter::pad_integral implements width/fill/alignment/sign and never alters the buffer it is given')
