"""C16 precision formatting: rounding uses the configured default mode and the number's own sign
(PROV-FMTROUND), the padding limit gates padding, and formatter flags never reach the digits."""
import re
from facts import cdef, cres, strip_lt
from rules import prov, provrules as R, units

FLAG_GETTERS = re.compile(r"fmt::Formatter::(width|fill|align|sign_plus|sign_minus|sign_aware_zero_pad|flags|alternate|options)$")
DIGIT_SINKS = re.compile(r'Formatter::pad_integral$|Formatter::write_str$|fmt::Write::write_str$|fmt::Write::write_char$|String::push$|String::push_str$|String::insert$|Vec::push$|Vec::insert$|Vec::resize$|fmt::Arguments::new$')


def flags_noninterference(rep, F, E, names, rule='FLAGS'):
    getters = 0
    flows = 0
    ncalls = 0

    def is_flag(s):
        return s.startswith('ret:') and FLAG_GETTERS.search(prov.strip_args(s[4:].split('.')[0])) is not None

    tainted, is_tainted = R.param_taint(F, E, names, is_flag)
    for nme in sorted(names):
        fn = F.fns[nme]
        for bid, t in fn.calls():
            ncalls += 1
            d = prov.strip_args(cdef(t))
            if FLAG_GETTERS.search(d):
                getters += 1
            if DIGIT_SINKS.search(d):
                for i in range(len(t['args'])):
                    srcs = E.arg_prov(fn, t, i).all()
                    if is_tainted(fn, srcs):
                        flows += 1
                        rep.violation(rule, '%s|%s:arg%d' % (fn.key, d.split('::')[-1], i),
                                      'a value derived from a formatter flag (width/fill/align/sign/zero-pad/alternate) reaches the characters of the numeral: flags must only add padding around it; sources %s'
                                      % R.short(srcs, 5), fn.where(t['loc']['line']))
    if flows == 0:
        rep.ok(rule, 'fmt-callgraph:flags-do-not-reach-digits',
               '%d calls in %d functions on the formatting paths: %d flag-getter call(s), none flows (directly or through a callee parameter) into the numeral\'s bytes or pad_integral\'s arguments' % (ncalls, len(names), getters))
    return ncalls, getters


def bounded_fill(rep, F, names, rule='BOUNDED-FILL'):
    """what is compared with the padding limit is what is written: in every function that consults
    FMT_MAX_INTEGER_PADDING, each path that grows the digit buffer by Y (Vec::resize(v, len + Y, _)) carries the
    within-limit outcome of a comparison of that same Y with the limit.  A limit tested on a part of the amount
    (or on another quantity) lets the padding exceed the documented bound"""
    from rules import table as TB
    lim = [c for k, c in F.consts.items() if k.endswith('FMT_MAX_INTEGER_PADDING')]
    if not lim:
        rep.violation(rule, 'FMT_MAX_INTEGER_PADDING:missing', 'generated constant not found (fail closed)')
        return 0
    limit = int(lim[0]['val'])
    n = 0
    for nme in sorted(names):
        fn = F.fns[nme]
        if fn.is_closure:
            continue
        uses = any(o.get('k') == 'const' and str(o.get('named', '')).endswith('FMT_MAX_INTEGER_PADDING')
                   for bid, st in fn.stmts() if st['rv']['r'] == 'bin' for o in (st['rv']['a'], st['rv']['b']))
        if not uses:
            continue
        try:
            pe = TB.PathEnum(F, fn, max_paths=400)
            paths = pe.run()
        except TB.Undecided as e:
            rep.undecided(rule, fn.key + ':limit-bounds-fill', str(e), fn.where())
            continue
        bad = None
        good = 0
        for (atoms, out), eff in zip(paths, pe.effects):
            for callee, args in eff:
                if not re.search(r'Vec::<.*>::resize$|Vec::resize$', TB._plain(callee)) and not TB._plain(callee).endswith('Vec::resize'):
                    continue
                amt = TB.strip_refs(args[1])
                Y = None
                if isinstance(amt, tuple) and amt[0] == 'bin' and amt[1] == 'Add':
                    for x, y in ((amt[2], amt[3]), (amt[3], amt[2])):
                        if isinstance(x, tuple) and x[0] == 'call' and TB._plain(x[1]).endswith('::len'):
                            Y = y
                if Y is None:
                    bad = bad or ('undecided', 'growth amount not of the form len + Y: %s' % TB.show(amt)[:80])
                    continue
                tested = []
                ok = False
                for a, c in atoms:
                    a = TB.strip_refs(a)
                    if not (isinstance(a, tuple) and a[0] == 'bin' and a[1] in ('Gt', 'Ge', 'Lt', 'Le')):
                        continue
                    for lhs, rhs, op in ((a[2], a[3], a[1]), (a[3], a[2], {'Gt': 'Lt', 'Ge': 'Le', 'Lt': 'Gt', 'Le': 'Ge'}[a[1]])):
                        if rhs == ('const', limit):
                            truth = not (c == ('eq', 0))
                            within = (op in ('Gt', 'Ge') and not truth) or (op in ('Lt', 'Le') and truth)
                            tested.append(lhs)
                            if lhs == Y and within:
                                ok = True
                if ok:
                    good += 1
                elif tested:
                    bad = ('violation', 'the buffer grows by %s but the limit %d is tested on %s: the quantity written is not the quantity bounded' % (TB.show(Y)[:90], limit, TB.show(tested[0])[:60]))
                else:
                    bad = bad or ('violation', 'the buffer grows by %s on a path that never compares it with the padding limit' % TB.show(Y)[:90])
        n += 1
        key = fn.key + ':limit-bounds-fill'
        if bad and bad[0] == 'violation':
            rep.violation(rule, key, bad[1], fn.where())
        elif bad:
            rep.undecided(rule, key, bad[1], fn.where())
        elif good:
            rep.ok(rule, key, '%d growing path(s): each carries `amount <= FMT_MAX_INTEGER_PADDING` on exactly the amount passed to resize' % good, fn.where())
        else:
            rep.undecided(rule, key, 'function consults the limit but no buffer growth was recognised', fn.where())
    return n


def pad_whole(rep, F, names, rule='FLAGS'):
    """"width, fill, alignment, zero padding and '+' only add padding around the numeral": Formatter::pad_integral computes the
    padding from the text it is handed, so on a path that calls it nothing else may be written to the same Formatter (a
    suffix written afterwards - an exponent, say - would sit outside the width computation)"""
    n = 0
    WRITE = re.compile(r'fmt::Formatter(<[^>]*>)?::(write_str|write_fmt|write_char|pad)$|fmt::Write::(write_str|write_fmt|write_char)$')
    for nme in sorted(names):
        fn = F.fns[nme]
        pads = [(b, t) for b, t in fn.calls() if prov.strip_args(cdef(t)).endswith('Formatter::pad_integral')]
        if not pads:
            continue
        n += 1
        key = fn.key + ':numeral-handed-over-whole'
        # blocks reachable from / reaching a pad_integral call
        succ = {b: [x for x in fn.succ(b) if x in fn.live_blocks()] for b in fn.live_blocks()}
        pred = {}
        for b, xs in succ.items():
            for x in xs:
                pred.setdefault(x, []).append(b)

        def closure(starts, rel):
            seen, st = set(), list(starts)
            while st:
                x = st.pop()
                for y in rel.get(x, []):
                    if y not in seen:
                        seen.add(y)
                        st.append(y)
            return seen
        after = closure([b for b, _ in pads], succ)
        before = closure([b for b, _ in pads], pred)
        bad = None
        for b, t in fn.calls():
            d = prov.strip_args(cdef(t))
            if not WRITE.search(d) or not t['args']:
                continue
            ty = strip_lt((t['args'][0].get('pl', {}).get('ty') or t['args'][0].get('ty') or ''))
            if 'Formatter' not in ty:
                continue          # writing into a local String / buffer is how the numeral is assembled
            if b in after or b in before:
                bad = (d.split('::')[-1], t['loc']['line'], 'after' if b in after else 'before')
        if bad:
            rep.violation(rule, key, 'the Formatter is also written to with %s %s pad_integral on the same path: that text is outside the width / fill / zero-padding computation, so the flags no longer wrap the whole numeral' % (bad[0], bad[2]), fn.where(bad[1]))
        else:
            rep.ok(rule, key, 'pad_integral is the only write to the Formatter on its paths', fn.where())
    return n


def common_pad_integral(rep, F, E, names):
    # sign handed to pad_integral derives from the number's sign
    n_pad = 0
    for nme in sorted(names):
        fn = F.fns[nme]
        for bid, t in fn.calls():
            if prov.strip_args(cdef(t)).endswith('Formatter::pad_integral') and len(t['args']) >= 2:
                n_pad += 1
                srcs = E.arg_prov(fn, t, 1).all() | R.control_sources(F, E, fn, t['args'][1])
                # the flag computed by a local helper (`fn sign_is_non_negative(sign) -> bool`): a constant selected under a
                # switch on the helper's parameter derives from the argument handed to the helper
                hl = t['args'][1]['pl']['l'] if t['args'][1]['k'] in ('copy', 'move') else None
                hops = 0
                while hl is not None and hops < 6:
                    hops += 1
                    dsl = [(b2, x) for b2, x in fn.calls() if x.get('dest') and not x['dest']['p'] and x['dest']['l'] == hl]
                    asg = [st for b2, st in fn.stmts() if st['lhs']['l'] == hl and not st['lhs']['p']]
                    if len(dsl) == 1 and not asg:
                        ct = dsl[0][1]
                        g = F.fns.get(ct['callee'].get('resolved') or '')
                        if g is not None:
                            ret = {'k': 'copy', 'pl': {'l': 0, 'p': []}}
                            gs = R.control_sources(F, E, g, ret)
                            for s0 in gs:
                                m0 = re.match(r'^param:(\d+)', s0)
                                if m0 and int(m0.group(1)) - 1 < len(ct['args']):
                                    srcs |= E.arg_prov(fn, ct, int(m0.group(1)) - 1).all()
                        break
                    if len(asg) == 1 and asg[0]['rv']['r'] == 'use' and asg[0]['rv']['op']['k'] in ('copy', 'move') and not asg[0]['rv']['op']['pl']['p']:
                        hl = asg[0]['rv']['op']['pl']['l']
                    else:
                        break
                ok = any('.sign' in s or s.startswith('param:') for s in srcs) and not all(s.startswith('lit:') for s in srcs)
                key = '%s|pad_integral:is_nonnegative' % fn.key
                if ok:
                    rep.ok('PROV-FMTROUND', key, 'sign flag derives from %s' % R.short(srcs, 4), fn.where(t['loc']['line']))
                else:
                    rep.violation('PROV-FMTROUND', key, 'the is_nonnegative flag handed to pad_integral does not derive from the number\'s sign: %s' % R.short(srcs), fn.where(t['loc']['line']))
    return n_pad


def run(ctx):
    rep = ctx.rep
    rep.explanation = ('Static MIR analysis. PROV-FMTROUND: every rounding-data construction / rounding call reachable from Display, LowerExp, UpperExp '
                       'takes the generated DEFAULT_ROUNDING_MODE and the sign of the formatted number. The padding limit FMT_MAX_INTEGER_PADDING '
                       'feeds a comparison on those paths. FLAGS (sufficient condition for "flags never alter the digits"): no value obtained from '
                       'Formatter::{width,fill,align,sign_plus,sign_minus,sign_aware_zero_pad,flags,alternate} flows into the bytes written or into '
                       'pad_integral. UNITS (contradiction rule): on the formatting paths every byte container is used consistently as ASCII text or as digit values (a `== 0` / is_zero test on bytes that are elsewhere offset by b\'0\' is a contradiction). FIXED-POINT: in the {:.N} formatter for numbers with integer digits the edits of the digit vector (rounding at len - (scale - target), zero padding, point at len - scale) leave the digit content at exactly the target scale on every path (linear identity, using round_ascii_digits\' contract). For pure fractions (format_ascii_digits_no_integer): the regime is chosen by comparing target with scale - len, n = target - (scale - len) digits are kept, the output is target + 2 bytes, the digits are moved so that the last one sits at fractional position scale - delta, byte 1 is the point, and left of the digits the single rounded digit is the last byte with the right insignificant digit. ASCII-ROUND: round_ascii_digits rounds D[n-1] from the insignificant digit D[n] and the tail D[n+1..] (all offset by b\'0\'), truncates to n-1 digits, pushes the rounded digit back and reports len(D)-n removed digits. NUMERAL-SHAPE: in the {:.Ne} formatter the exponent written accounts for the digits removed by rounding and for the padding zeros (linear identity over all digit counts). BOUNDED-FILL: where the padding limit is consulted, the amount compared with it is exactly the amount the buffer grows by. NOT decided: that the ASCII-digit rounding agrees numerically with the library\'s rounding routines.')
    F = ctx.facts('default', 'rel')
    if not hasattr(F, '_prov'):
        F._prov = prov.ProvEngine(F)
    E = F._prov
    n4 = R.fmt_round(rep, F, E)
    # padding-limit clause of PROV-DISPLAY
    before = len(rep.obs)
    R.display_rules(rep, F, E)
    rep.obs = rep.obs[:before] + [o for o in rep.obs[before:] if 'padding-limit' in o['key']]
    names = F.reach(R.fmt_entries(F))
    rep.add_functions(names)
    nc, ng = flags_noninterference(rep, F, E, names)
    nu = units.check(rep, F, names)
    rep.floor('byte containers with a consistent unit', nu, 4)
    nb = bounded_fill(rep, F, names)
    from rules import fixedpoint
    nfp = fixedpoint.check(rep, F)
    rep.floor('fixed-point bookkeeping cells', nfp, 4)
    nfn = fixedpoint.check_no_integer(rep, F)
    rep.floor('pure-fraction layout cells', nfn, 11)
    from rules import asciiround
    nar = asciiround.check(rep, F)
    rep.floor('positions of the ASCII rounding routine', nar, 6)
    from rules import numeral
    nn = numeral.check(rep, F)
    rep.floor('numeral-shape obligations', nn, 20)
    from rules import moveclear
    nmc = moveclear.check(rep, F, names)
    rep.floor('in-place digit shifts followed by a clear', nmc, 1)
    rep.floor('functions consulting the padding limit', nb, 1)
    n_pad = common_pad_integral(rep, F, E, names)
    n_pw = pad_whole(rep, F, names)
    rep.floor('functions handing the numeral to pad_integral', n_pw, 3)
    rep.floor('formatting rounding sinks', n4, 2)
    rep.floor('calls scanned on formatting paths', nc, 150)
    rep.floor('pad_integral calls', n_pad, 3)
    rep.trust('Formatter::pad_integral implements width/fill/alignment/sign and never alters the buffer it is given')
