"""C18 representation accessors: pure projections (R-PROJ); more clauses (scale extension exact,
type-level witnesses) are attached by the R-SCALE layer and the witness crate."""
from rules import proj, scale, normalform
from props import exact


def run(ctx):
    rep = ctx.rep
    rep.explanation = ('Static MIR analysis. R-PROJ: for each constructor / accessor / view in tables/projection_spec.json the body is a single '
                       'unconditional path whose returned term - after inlining single-path local helpers and dropping borrows - is exactly the '
                       'specified projection of the inputs (e.g. to_ref = {sign: int_val.sign(), digits: int_val.magnitude(), scale: scale}); no '
                       'arithmetic, no other call. NORMAL-FORM: normalized() removes k trailing zero digits and lowers the scale by the same k (k counted from the least-significant end with `== 0`), radix 10 both ways, zero -> zero(). NOT decided: digits()\' loop (count_decimal_digits_uint), the chunked branch of ten_to_the*, num-bigint\'s radix conversion.')
    F = ctx.facts('default', 'rel')
    n = proj.check(rep, F)
    rep.floor('projection API items', n, 22)
    # extending the scale multiplies by the exact power of ten
    nr = exact.rescale_primitives(rep, F, scale_only=False)
    rep.floor('rescale primitives (extension exact)', nr, 4)
    nph = exact.power_helpers(rep, F)
    npf = exact.pow_fits(ctx)
    rep.floor('integer powers of ten checked for overflow', npf, 5)
    rep.floor('power-of-ten helpers', nph, 3)
    nn = normalform.check(rep, F)
    # "extending the scale or precision multiplies by the exact power of ten": scale bookkeeping of with_prec (shared with C07)
    from rules import scale as _scale
    wpf = F.fns.get('BigDecimal::with_prec')
    if wpf is None:
        rep.violation('R-SCALE', 'BigDecimal::with_prec:missing', 'anchor function not found (fail closed)')
    else:
        rep.add_functions([wpf.name])
        v, msgs, paths = _scale.analyse(wpf, 'dims', scale_params=(2,))
        key = wpf.key + ':scale-bookkeeping'
        if v == 'ok':
            rep.ok('R-SCALE', key, 'all %d paths: padding to a higher precision multiplies the integer by 10^diff and raises the scale by the same diff' % paths, wpf.where())
        elif v == 'violation':
            rep.violation('R-SCALE', key, msgs[0][:400], wpf.where())
        else:
            rep.undecided('R-SCALE', key, (msgs or ['not decided'])[0][:200], wpf.where())
    from rules import countdigits
    ncd = countdigits.check(rep, F)
    rep.floor('digit-count obligations', ncd, 2)
    rep.floor('normalized() table rows', nn, 2)
    from rules import limbmod
    _Fl = F
    nlm = limbmod.check(rep, _Fl, [f.name for f in _Fl.real_fns()])
    rep.floor('functions reading big-integer limbs', nlm, 1)
    rep.trust('num-bigint: BigInt::sign / magnitude / from_biguint are the exact sign-magnitude decomposition')
    if ctx.tier == 'thorough':
        from rules import witness
        nw = witness.run(rep, r'^W[3456]')
        rep.floor('type-level witnesses', nw, 4)
