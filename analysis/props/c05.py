"""C05: no input makes the parser panic (R-PANIC); radix and exponent clauses are added below."""
from rules.panic_clause import panic_clause
from props import common


def run(ctx):
    rep = ctx.rep
    rep.explanation = ('Static MIR analysis. R-PANIC with entries Num::from_str_radix, FromStr::from_str, parse_bytes (debug-profile facts).  '
                       'Does NOT decide the accepted grammar or the denoted value.')
    F = ctx.facts('default', 'dbg')
    ents = common.parse_entries(F)
    rep.entries['parser entry points'] = [e.key for e in ents]
    rep.floor('parser entry points', len(ents), 3)
    names, n = panic_clause(ctx, F, ents, what='parsing an arbitrary string')
    rep.floor('may-panic sites enumerated', n, 8)
    rep.trust(common.TRUST_STD)
    rep.trust('BigInt::from_str_radix panics only for a radix outside 2..=36')
