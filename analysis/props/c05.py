"""C05: no input makes the parser panic (R-PANIC); radix and exponent clauses are added below."""
import re
from rules.panic_clause import panic_clause
from rules import table as TB
from props import common

WIDE = {'i128': 128, 'u128': 128, 'i64': 64, 'u64': 64, 'usize': 64, 'isize': 64, 'i32': 32, 'u32': 32, 'i16': 16, 'u16': 16, 'i8': 8, 'u8': 8}


PASS_THROUGH = re.compile(r'checked_(sub|add|neg|mul)$|Option::(and_then|map|zip|ok_or_else|ok_or|unwrap_or)$|Try::branch$|ToPrimitive::to_\w+$|convert::(From::from|Into::into|TryFrom::try_from)$|Result::(ok|map|and_then)$')


def numeric_slice(t):
    """subterms of the scale computation, not descending into calls that merely produce its inputs
    (string searches, parsers, counters): those results are the sources of the slice"""
    if not isinstance(t, tuple) or not t:
        return
    if isinstance(t[0], str):
        yield t
        if t[0] == 'call' and not PASS_THROUGH.search(TB._plain(t[1])):
            return
    for x in t:
        if isinstance(x, tuple):
            for y in numeric_slice(x):
                yield y


def radix_and_exponent(rep, F, rule='R-TABLE'):
    """(2) every Ok(..) return of from_str_radix lies on the radix == 10 edge;
       (3) the scale handed to the constructor is computed from the parsed exponent through checked
           operations and widening casts only"""
    fns = [f for f in F.real_fns() if not f.is_closure and f.trait == 'num_traits::Num' and f.self_ty == 'BigDecimal' and f.item == 'from_str_radix']
    n = 0
    for fn in fns:
        rep.add_functions([fn.name])
        try:
            paths = TB.PathEnum(F, fn, max_paths=800, cut_loops=True).run()
        except TB.Undecided as e:
            rep.undecided(rule, fn.key + ':radix', 'paths not enumerable: %s' % e, fn.where())
            continue
        radix = TB.T('param', 2)
        oks = [(a, o) for a, o in paths if TB.deref(o)[0] == 'adt' and TB.deref(o)[2] == 'Ok']
        n += 1
        bad = []
        for atoms, out in oks:
            on10 = any((t == TB.T('bin', 'Ne', radix, TB.T('const', 10)) and v == ('eq', 0)) or
                       (t == TB.T('bin', 'Eq', radix, TB.T('const', 10)) and v[0] == 'notin') for t, v in atoms)
            if not on10:
                bad.append([(TB.show(t)[:40], v) for t, v in atoms][:3])
        if not oks:
            rep.undecided(rule, fn.key + ':radix', 'no Ok(..) return recognised', fn.where())
        elif bad:
            rep.violation(rule, fn.key + ':radix', '%d of %d Ok(..) returns are reachable without establishing radix == 10, e.g. under %s' % (len(bad), len(oks), bad[0]), fn.where())
        else:
            rep.ok(rule, fn.key + ':radix', 'all %d Ok(..) returns (of %d paths) lie on the radix == 10 edge; every other radix returns Err' % (len(oks), len(paths)), fn.where())
        # (3) scale slice
        n += 1
        probs = []
        seen_new = 0
        for atoms, out in oks:
            for c in TB.find_calls(out, r'BigDecimal::new$|BigDecimal::from_bigint$'):
                if len(c[2]) < 2:
                    continue
                seen_new += 1
                for sub in numeric_slice(c[2][1]):
                    if sub[0] == 'bin' and sub[1] in ('Add', 'Sub', 'Mul', 'Shl', 'Shr', 'Div', 'Rem'):
                        probs.append('unchecked %s in the scale computation' % sub[1])
                    if sub[0] == 'ovf':
                        probs.append('overflow-asserting arithmetic in the scale computation')
                    if sub[0] == 'un' and sub[1] == 'Neg':
                        probs.append('unchecked negation in the scale computation')
                    if sub[0] == 'cast':
                        to = sub[2]
                        if WIDE.get(to, 0) < 128:
                            probs.append('narrowing/sign-changing `as %s` cast in the scale computation' % to)
                    if sub[0] == 'closure' and sub[1] in F.fns:
                        cf = F.fns[sub[1]]
                        for bid, st in cf.stmts():
                            rv = st['rv']
                            if rv['r'] == 'cast' and rv['kind'].startswith('IntToInt'):
                                src = (rv['op'].get('ty') or rv['op'].get('pl', {}).get('ty', '')).lstrip('&')
                                if WIDE.get(rv['to'], 0) < WIDE.get(src, 999) or (src[:1] != rv['to'][:1] and WIDE.get(rv['to'], 0) <= WIDE.get(src, 999)):
                                    probs.append('narrowing/sign-changing `%s as %s` cast inside a closure of the scale computation' % (src, rv['to']))
                            if rv['r'] == 'bin' and rv['bop'].replace('WithOverflow', '') in ('Add', 'Sub', 'Mul') and not rv['bop'].endswith('Unchecked'):
                                probs.append('plain %s inside a closure of the scale computation' % rv['bop'])
                    if sub[0] == 'call' and re.search(r'wrapping_|saturating_|unchecked_|overflowing_', sub[1]):
                        probs.append('wrapping/saturating arithmetic %s in the scale computation' % sub[1].split('::')[-1])
        if not seen_new:
            rep.undecided(rule, fn.key + ':exponent-range', 'constructor call not recognised on the Ok paths', fn.where())
        elif probs:
            rep.violation(rule, fn.key + ':exponent-range', 'exponents outside the i64 range must be errors, but the scale is computed with: %s' % sorted(set(probs)), fn.where())
        else:
            rep.ok(rule, fn.key + ':exponent-range', 'scale = checked_sub(..).and_then(to_i64) style: only checked operations and widening casts between the parsed exponent and the constructor (%d constructor terms)' % seen_new, fn.where())
    return n



def head_of_numeral(rep, F, rule='HEAD-OF-NUMERAL'):
    """BigInt's text parser accepts a sign at the head of the text it is given.  from_str_radix hands it either a slice of
    the numeral or a buffer built by concatenating slices.  Only the numeral's own head may carry the sign: a later slice
    (the fraction digits after the '.') becomes the head of the buffer whenever every slice before it is empty, so unless
    the path establishes that the earlier slice is non-empty, or inspects the start of the later slice, a sign after the
    point is accepted ('.+5' read as 0.05, the sign even counted as a fraction digit)"""
    fns = [f for f in F.real_fns() if not f.is_closure and f.trait == 'num_traits::Num' and f.self_ty == 'BigDecimal' and f.item == 'from_str_radix']
    n = 0
    for fn in fns:
        try:
            pe = TB.PathEnum(F, fn, max_paths=800, cut_loops=True)
            paths = pe.run()
        except TB.Undecided as e:
            rep.undecided(rule, fn.key + ':sign-only-at-head', str(e), fn.where())
            continue
        n += 1
        bad, okc, und = [], 0, []
        for (atoms, out), eff in zip(paths, pe.effects):
            o = TB.deref(out)
            if not (o[0] == 'adt' and o[2] == 'Ok'):
                continue
            pieces = []
            handed = None
            for callee, args in eff:
                c = TB._plain(callee)
                if c.endswith('String::push_str') and len(args) == 2:
                    pieces.append(TB.strip_refs(args[1]))
                elif re.search(r'BigInt::from_str_radix$|BigInt as .*Num>::from_str_radix$|Num::from_str_radix$', c) and args:
                    handed = TB.strip_refs(args[0])
            if handed is None:
                und.append('no call to the integer text parser on an Ok path')
                continue
            if not pieces:
                pieces = [handed]

            def classify(t):
                """'prefix' (starts at the numeral's head), 'inner' (starts later), None"""
                t = TB.strip_refs(t)
                if t == TB.T('param', 1):
                    return 'prefix'
                if t[0] == 'call' and re.search(r'Index::index$', TB._plain(t[1])) and len(t[2]) == 2:
                    base = classify(t[2][0])
                    r = TB.strip_refs(t[2][1])
                    if base is None or r[0] != 'adt':
                        return None
                    if r[2] in ('RangeTo', 'RangeToInclusive', 'RangeFull'):
                        return base
                    if r[2] in ('RangeFrom', 'Range'):
                        return 'inner'
                    return None
                if t[0] == 'field' and TB.strip_refs(t[1])[0] == 'call' and re.search(r'str::split_at$|split_at$', TB._plain(TB.strip_refs(t[1])[1])):
                    base = classify(TB.strip_refs(t[1])[2][0])
                    return base if t[2] == '0' else ('inner' if base else None)
                return None

            kinds = [classify(p) for p in pieces]
            if None in kinds:
                und.append('piece of the integer text not recognised: %s' % TB.show(pieces[kinds.index(None)])[:80])
                continue
            if kinds[0] != 'prefix':
                bad.append('the first piece handed to the integer parser is not the head of the numeral: %s' % TB.show(pieces[0])[:80])
                continue
            for i in range(1, len(pieces)):
                if kinds[i] != 'inner':
                    continue
                later, earlier = pieces[i], pieces[:i]
                guarded = False
                for a, c in atoms:
                    a = TB.strip_refs(a)
                    if TB.mentions(a, later) and not any(x[0] == 'call' and re.search(r'checked_sub$|from_str_radix$|Iterator::count$', TB._plain(x[1])) for x in TB.subterms(a)):
                        guarded = True        # the path inspects the later slice itself (starts_with, first char, ...)
                    if any(a[0] == 'call' and re.search(r'is_empty$', TB._plain(a[1])) and TB.strip_refs(a[2][0]) == e for e in earlier):
                        guarded = True
                    if a[0] == 'bin' and a[1] in ('Eq', 'Ne', 'Gt', 'Lt', 'Ge', 'Le') and TB.T('const', 0) in (a[2], a[3]):
                        other = a[3] if a[2] == TB.T('const', 0) else a[2]
                        if any(TB.mentions(e, other) for e in earlier):
                            guarded = True    # the split position is compared with 0
                if guarded:
                    okc += 1
                else:
                    bad.append('the slice %s follows slices that may all be empty and is never inspected: a leading sign in it is accepted by the integer parser' % TB.show(later)[:70])
            if len(pieces) == 1:
                okc += 1
        key = fn.key + ':sign-only-at-head'
        if bad:
            rep.violation(rule, key, bad[0], fn.where())
        elif und:
            rep.undecided(rule, key, und[0], fn.where())
        else:
            rep.ok(rule, key, '%d Ok path(s): the text handed to the integer parser starts at the numeral\'s head, and every later slice is inspected or preceded by a non-empty one' % okc, fn.where())
    return n


TEXT_PARSER = re.compile(r'(BigInt|BigUint)::(parse_bytes|from_str_radix|from_radix_[bl]e)$|num_traits::Num::from_str_radix$|<num_bigint::(BigInt|BigUint) as .*(FromStr>::from_str|Num>::from_str_radix)$|str::FromStr::from_str$|str::<impl str>::parse$|core::num::dec2flt|f(32|64)::from_str')


def gateway(rep, F, rule='GATEWAY'):
    """who-may-call: on the call graph of the parse entry points the only body that hands text to an integer/float
    text parser is <BigDecimal as Num>::from_str_radix (whose Ok returns lie on the radix == 10 edge); an entry point
    that reaches such a parser without going through it bypasses the radix check and the decimal grammar"""
    ents = common.parse_entries(F)
    gate = [f for f in ents if f.item == 'from_str_radix']
    n = 0
    if not gate:
        rep.violation(rule, 'from_str_radix:missing', 'anchor <BigDecimal as Num>::from_str_radix not found (fail closed)')
        return 0
    gate = gate[0]
    cg = F.callgraph()
    for e in ents:
        if e is gate:
            continue
        # bodies reachable from e without entering the gateway
        seen, st = set(), [e.name]
        while st:
            x = st.pop()
            if x in seen or x not in cg or x == gate.name:
                continue
            seen.add(x)
            st.extend(cg[x])
        n += 1
        hits = []
        reaches_gate = False
        for nm in sorted(seen):
            f = F.fns[nm]
            for bid, t in f.calls():
                d = (t['callee'].get('resolved') or '') + ' | ' + (t['callee'].get('def') or '')
                if gate.name in F.call_targets(f, t):
                    reaches_gate = True
                    continue
                res = t['callee'].get('resolved') or t['callee'].get('def') or ''
                if TEXT_PARSER.search(res) or TEXT_PARSER.search(t['callee'].get('def') or ''):
                    # <BigDecimal as FromStr>::from_str / str::parse::<BigDecimal> resolve to local bodies and are followed instead
                    if F.call_targets(f, t):
                        continue
                    # the decimal grammar itself living in this body (the shared parser spliced in): the text handed over is what
                    # the exponent / decimal-point splitting left, and the radix is the literal 10
                    lit10 = any(a.get('k') == 'const' and a.get('int') == '10' for a in t['args'])
                    splits = sum(1 for _, t2 in f.calls() if re.search(r'::find$', (t2['callee'].get('def') or '')))
                    exp_parser = re.search(r'FromStr for i(64|128)>::from_str$|str::parse$', res) is not None
                    if (lit10 or exp_parser) and splits >= 2:
                        continue
                    hits.append((f, t, res))
        key = e.key + ':only-through-from_str_radix'
        if hits:
            f, t, res = hits[0]
            rep.violation(rule, key, '%s hands its input to the text parser %s without passing through from_str_radix: the radix check and the decimal grammar are bypassed' % (f.name, res.split(' as ')[0][-60:]), f.where(t['loc']['line']))
        elif not reaches_gate:
            rep.undecided(rule, key, 'entry point no longer reaches from_str_radix', e.where())
        else:
            rep.ok(rule, key, '%d bodies reachable outside the gateway; none calls an integer/float text parser' % len(seen), e.where())
    return n


def no_text_normalisation(rep, F, ents, rule='VERBATIM'):
    """who-may-call: the text handed to the delegated integer parsers is a slice of the input as it is.  No parser entry
    point calls a str method that removes or rewrites characters (trim*, strip_*, replace*, to_*case): trimming a set
    of characters accepts any repetition of them (`1e++5`), which the grammar rejects."""
    import re as _re
    from facts import cres as _cres
    from rules import table as _TB
    n = 0
    for fn_ in ents:
        key = fn_.key + ':input-not-normalised'
        bad = None
        for b, t in fn_.calls():
            c = _TB._plain(_cres(t) or '')
            if _re.search(r'(^|::)str::(trim\w*|strip_\w+|replace\w*|to_(ascii_)?(lower|upper)case)$', c):
                bad = (c.split('::')[-1], t['loc']['line'])
        n += 1
        if bad:
            rep.violation(rule, key, 'the input text is passed through str::%s before it is parsed: characters are dropped or rewritten, so numerals outside the grammar are accepted' % bad[0], fn_.where(bad[1]))
        else:
            rep.ok(rule, key, 'no trimming / stripping / replacing str method is called on the input', fn_.where())
    return n


def run(ctx):
    rep = ctx.rep
    rep.explanation = ('Static MIR analysis. R-PANIC with entries Num::from_str_radix, FromStr::from_str, parse_bytes (debug-profile facts).  '
                       'R-TABLE on from_str_radix: every Ok(..) return lies on the radix == 10 edge, and the scale handed to the constructor is computed through checked operations and widening casts only. '
                       'GATEWAY (who-may-call): FromStr::from_str and parse_bytes reach an integer/float text parser only through from_str_radix, so the radix check cannot be bypassed. '
                       'HEAD-OF-NUMERAL: the only place where the delegated integer parser may see a sign is the head of the numeral (a sign directly after the point is not silently accepted). Does NOT decide the rest of the accepted grammar or the denoted value.')
    F = ctx.facts('default', 'dbg')
    ents = common.parse_entries(F)
    rep.entries['parser entry points'] = [e.key for e in ents]
    rep.floor('parser entry points', len(ents), 3)
    names, n = panic_clause(ctx, F, ents, what='parsing an arbitrary string')
    rep.floor('may-panic sites enumerated', n, 8)
    nvb = no_text_normalisation(rep, F, ents)
    rep.floor('parser entry points checked for verbatim input', nvb, 3)
    Fr = ctx.facts('default', 'rel')
    n2 = radix_and_exponent(rep, Fr)
    rep.floor('radix/exponent clauses', n2, 2)
    n3 = gateway(rep, Fr)
    n4 = head_of_numeral(rep, Fr)
    rep.floor('head-of-numeral clause', n4, 1)
    rep.floor('parse entry points checked against the gateway', n3, 2)
    rep.trust(common.TRUST_STD)
    rep.trust('BigInt::from_str_radix panics only for a radix outside 2..=36')
