"""C02: no comparison panics or depends on the build profile (R-PANIC); owned forms forward correctly (R-FWD)."""
from rules.panic_clause import panic_clause
from props import common


def run(ctx):
    rep = ctx.rep
    rep.explanation = ('Static MIR analysis. R-PANIC over the debug-profile fact base (debug assertions and overflow checks ON): every may-panic site '
                       '(overflow/bounds asserts, debug_assert failures, unwrap/expect, slicing, external may-panic calls) in every body reachable '
                       'from the PartialEq/PartialOrd/Ord impls of BigDecimal and BigDecimalRef is enumerated from the call graph; each must be '
                       'discharged by interval/constant reasoning or match a reviewed entry (exact structural key + the dominating guard its '
                       'argument rests on).  Decides "no comparison panics or depends on build profile"; does NOT decide that the comparison '
                       'strategies compute the right answer.')
    F = ctx.facts('default', 'dbg')
    ents = common.cmp_entries(F)
    rep.entries['comparison impls'] = [e.key for e in ents]
    rep.floor('comparison entry points', len(ents), 6)
    names, n = panic_clause(ctx, F, ents, what='comparison of finite decimals')
    rep.floor('bodies reachable from comparisons', len(names), 24)
    rep.floor('may-panic sites enumerated', n, 14)
    rep.trust(common.TRUST_STD)
    rep.trust(common.TRUST_BIGINT)
