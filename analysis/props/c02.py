"""C02: no comparison panics or depends on the build profile (R-PANIC); owned forms forward correctly (R-FWD)."""
from rules.panic_clause import panic_clause
from rules import table as TB, ordertable, scangap
from props import common


def forwarders(rep, F, rule='R-FWD'):
    """owned comparison impls forward to the reference impls: same operation, operands in order
    (a function that stops being a forwarder is undecided, never a violation)"""
    n = 0
    for fn in common.cmp_entries(F):
        item = fn.item
        owned = (fn.self_ty == 'BigDecimal')
        if not owned and item != 'partial_cmp':
            continue
        key = fn.key + ':forwards'
        try:
            paths = TB.PathEnum(F, fn, max_paths=8).run()
        except TB.Undecided as e:
            rep.undecided(rule, key, 'not a straight-line forwarder (%s)' % e, fn.where())
            continue
        n += 1
        if len(paths) != 1 or paths[0][0]:
            rep.undecided(rule, key, 'has its own branching (%d paths): agreement with the reference form is no longer structural' % len(paths), fn.where())
            continue
        nf = TB.show(TB.strip_refs(paths[0][1]))
        a1, a2 = 'to_ref(arg1)', 'to_ref(arg2)'
        if item in ('eq', 'ne'):
            good = {'Eq(%s,%s)' % (a1, a2), 'Eq(%s,%s)' % (a2, a1)} if item == 'eq' else {'Ne(%s,%s)' % (a1, a2), 'Ne(%s,%s)' % (a2, a1)}
            wrong = {'Ne(%s,%s)' % (a1, a2), 'Ne(%s,%s)' % (a2, a1)} if item == 'eq' else set()
        elif item == 'cmp':
            good = {'cmp(%s,%s)' % (a1, a2)}
            wrong = {'cmp(%s,%s)' % (a2, a1), 'Eq(%s,%s)' % (a1, a2)}
        elif item == 'partial_cmp':
            good = {'Option::Some(cmp(arg1,arg2))', 'Option::Some(cmp(%s,%s))' % (a1, a2)}
            wrong = {'Option::Some(cmp(arg2,arg1))', 'Option::Some(cmp(%s,%s))' % (a2, a1), 'Option::None'}
        else:
            continue
        if nf in good:
            rep.ok(rule, key, 'forwards as %s' % nf, fn.where())
        elif nf in wrong or (item in ('cmp', 'partial_cmp') and 'reverse(' in nf):
            rep.violation(rule, key, '%s forwards to the wrong operation or with swapped operands: %s' % (item, nf), fn.where())
        else:
            rep.undecided(rule, key, 'unrecognised forwarding shape %s' % nf[:100], fn.where())
    return n



def run(ctx):
    rep = ctx.rep
    rep.explanation = ('Static MIR analysis. R-PANIC over the debug-profile fact base (debug assertions and overflow checks ON): every may-panic site '
                       '(overflow/bounds asserts, debug_assert failures, unwrap/expect, slicing, external may-panic calls) in every body reachable '
                       'from the PartialEq/PartialOrd/Ord impls of BigDecimal and BigDecimalRef is enumerated from the call graph; each must be '
                       'discharged by interval/constant reasoning or match a reviewed entry (exact structural key + the dominating guard its '
                       'argument rests on).  ORDER-TABLE: every return path of <BigDecimalRef as Ord>::cmp is reduced to (comparison base, reversals mod 2) and its '
                       'predicates to a cell (scale order, difference fits u64, sign); the base must be the correctly oriented digit comparison (or the scale order '
                       'when the difference overflows) and the reversal parity must match the sign, so no magnitude ordering is returned without the sign correction; '
                       'checked_diff is checked against its contract cell by cell.  Decides "no comparison panics or depends on build profile" and the shape of the '
                       'ordering table; SCAN-GAP: in the digit loops no element pulled with next() is skipped while its iterator is consumed further.  ZIP-LENGTH: every element-wise zip comparison is dominated by a test that the two lengths are equal.  Does NOT decide the arithmetic of the digit-level strategies inside compare_scaled_biguints / check_equality_bigdecimal_ref.')
    F = ctx.facts('default', 'dbg')
    ents = common.cmp_entries(F)
    rep.entries['comparison impls'] = [e.key for e in ents]
    rep.floor('comparison entry points', len(ents), 6)
    names, n = panic_clause(ctx, F, ents, what='comparison of finite decimals')
    rep.floor('bodies reachable from comparisons', len(names), 24)
    rep.floor('may-panic sites enumerated', n, 14)
    nf = forwarders(rep, ctx.facts('default', 'rel'))
    rep.floor('comparison forwarders', nf, 4)
    Fr = ctx.facts('default', 'rel')
    nt = ordertable.cmp_table(rep, Fr)
    nc = ordertable.checked_diff_contract(rep, Fr)
    rep.floor('order-table cells of <BigDecimalRef as Ord>::cmp', nt, 14)
    rep.floor('checked_diff contract cells', nc, 4)
    ne = ordertable.eq_table(rep, Fr)
    ng = scangap.check(rep, Fr, Fr.reach(common.cmp_entries(Fr)))
    rep.floor('digit loops advanced with next()', ng, 2)
    from rules import ziplen
    ziplen.check(rep, Fr, Fr.reach(common.cmp_entries(Fr)))
    from rules import limbmod
    _Fl = Fr
    nlm = limbmod.check(rep, _Fl, [f.name for f in _Fl.real_fns()])
    rep.floor('functions reading big-integer limbs', nlm, 1)
    rep.floor('equality table cells', ne, 7)
    rep.trust('compare_scaled_biguints(a, b, k) decides a <=> b*10^k (its documented contract; the digit comparison itself is not decided)')
    rep.trust(common.TRUST_STD)
    rep.trust(common.TRUST_BIGINT)
