"""C17 serde: digit-for-digit (no float on the string / JSON-number paths), errors not panics,
scale limit in both JSON-number adapters (sibling cross-check), serialisation through Display."""
import re
from facts import cres, cdef, strip_lt
from rules import prov, provrules as R, table as TB
from rules.panic_clause import panic_clause, reach_stop
from props import common

STOP_VISIT = re.compile(r"Visitor<'de>>::visit_(?!(str|map|string|borrowed_str)($|::))|Visitor<'de>>::expecting$")
FLOATY = re.compile(r'try_parse_from_f(32|64)$|parse_from_f(32|64)(_subnormal)?$|ToPrimitive::to_f(32|64)$|::to_f64$|::to_f32$|f64 as std::str::FromStr|f32 as std::str::FromStr|(?:core|std)::f64::|(?:core|std)::f32::|libm::|TryFrom<f(32|64)>')


def entries(F):
    out = []
    for f in F.real_fns():
        if f.is_closure:
            continue
        if re.search(r"Visitor<'de>>::visit_(str|map)$", f.name) or re.search(r'impl_serde::arbitrary_precision(_option)?::deserialize$', f.name):
            out.append(f)
    return out


def no_float(rep, F, ents, rule='R-NOCALL'):
    names = reach_stop(F, ents, STOP_VISIT)
    rep.add_functions(names)
    hits = 0
    ncalls = 0
    for nme in sorted(names):
        fn = F.fns[nme]
        for bid, t in fn.calls():
            ncalls += 1
            d = cdef(t)
            gargs = t['callee'].get('gargs', [])
            if FLOATY.search(d) or FLOATY.search(cres(t)) or FLOATY.search(t['callee'].get('static', '')) or any(g in ('f64', 'f32') for g in gargs):
                hits += 1
                rep.violation(rule, '%s|%s' % (fn.key, re.sub(r'<[^<>]*>', '', d).split('::')[-1]),
                              'binary floating point on a string / JSON-number deserialisation path (digits must be read digit for digit): call to %s' % t['callee'].get('static', d),
                              fn.where(t['loc']['line']))
        for bid, st in fn.stmts():
            rv = st['rv']
            if rv['r'] == 'cast' and re.search(r'IntToFloat|FloatToInt|FloatToFloat', rv['kind']):
                hits += 1
                rep.violation(rule, '%s|cast:%s' % (fn.key, rv['kind']), 'float cast on a string / JSON-number deserialisation path', fn.where(st['line']))
    rep.call_sites += ncalls
    if hits == 0:
        rep.ok(rule, 'deserialize-str-map-callgraph:no-float', '%d call sites in %d functions reachable from visit_str / visit_map / the JSON-number adapters: no float conversion, parse or cast' % (ncalls, len(names)))
    return len(names)


def serialize_shape(rep, F, rule='R-FWD'):
    n = 0
    for f in F.real_fns():
        if f.is_closure:
            continue
        if f.trait == 'serde_crate::Serialize' and f.self_ty == 'BigDecimal':
            n += 1
            try:
                paths = TB.PathEnum(F, f).run()
            except TB.Undecided as e:
                rep.undecided(rule, f.key + ':collect_str', str(e), f.where())
                continue
            ok = len(paths) == 1 and TB.is_call(paths[0][1], r'Serializer::collect_str$') and TB.mentions(paths[0][1], TB.T('param', 1))
            if ok:
                rep.ok(rule, f.key + ':collect_str', 'serialises Display text of self: %s' % TB.show(paths[0][1])[:80], f.where())
            else:
                rep.violation(rule, f.key + ':collect_str', 'Serialize must hand the Display text of self to the serializer (collect_str); outcome %s' % [TB.show(p[1])[:80] for p in paths], f.where())
        if re.search(r'impl_serde::arbitrary_precision(_option)?::serialize$', f.name):
            n += 1
            calls = [cdef(t) for _, t in f.calls()]
            to_s = any(re.search(r'ToString::to_string$', c) for c in calls)
            num = any(re.search(r'serde_json::Number.*from_str$|FromStr::from_str$', c) or 'serde_json' in t['callee'].get('static', '') and c.endswith('from_str') for (_, t), c in zip(f.calls(), calls))
            floaty = any(FLOATY.search(c) for c in calls)
            if to_s and num and not floaty:
                rep.ok(rule, f.key + ':via-display', 'serialises serde_json::Number::from_str(Display text)', f.where())
            else:
                rep.violation(rule, f.key + ':via-display', 'JSON-number adapter must serialise the Display text through serde_json::Number::from_str (to_string=%s, Number::from_str=%s, float=%s)' % (to_s, num, floaty), f.where())
    return n


def adapter_bodies(F, f):
    """the adapter, its closures, and the free helpers of the same file it calls or hands over as a function value"""
    bodies = [f]
    i = 0
    while i < len(bodies):
        g = bodies[i]
        i += 1
        for x in F.closures_of(g.name):
            if F.fns[x] not in bodies:
                bodies.append(F.fns[x])
        for bid, t in g.calls():
            for nme in sorted(F.call_targets(g, t)):
                h = F.fns.get(nme)
                if h is not None and h not in bodies and h.file == f.file and h.trait is None and not h.is_closure \
                        and not re.search(r'::(de)?serialize$|::visit_\w+$|::expecting$', h.name) and len(bodies) < 12:
                    bodies.append(h)
    return bodies


def sibling_limit(rep, F, E, rule='SIBLING-LIMIT'):
    """both JSON-number adapters must compare the deserialised scale with SERDE_SCALE_LIMIT"""
    n = 0
    for f in F.real_fns():
        if f.is_closure or not re.search(r'impl_serde::arbitrary_precision(_option)?::deserialize$', f.name):
            continue
        n += 1
        bodies = adapter_bodies(F, f)
        hit = False
        for g in bodies:
            env = E.local[g.name]
            for bid, st in g.stmts():
                rv = st['rv']
                if rv['r'] == 'bin' and rv['bop'] in ('Lt', 'Le', 'Gt', 'Ge'):
                    a = E.read_op(g, env, rv['a']).all()
                    b = E.read_op(g, env, rv['b']).all()
                    for x, y in ((a, b), (b, a)):
                        if any(s.startswith('const:') and s.endswith('SERDE_SCALE_LIMIT@OUT') for s in x) and ('tag:scale' in y or any('.scale' in s for s in y)):
                            hit = True
            for bid, t in g.calls():
                if re.search(r'PartialOrd::(gt|ge|lt|le)$|Option::map_or$|Option::is_some_and$|Option::map$', prov.strip_args(cdef(t))):
                    srcs = set().union(*[E.arg_prov(g, t, i).all() for i in range(len(t['args']))]) if t['args'] else set()
                    for s0 in list(srcs):
                        if s0.startswith('closure:') and s0[8:] in E.summ:
                            srcs |= E.summ[s0[8:]].all()
                    if any(s.endswith('SERDE_SCALE_LIMIT@OUT') for s in srcs) and ('tag:scale' in srcs):
                        hit = True
        if hit:
            rep.ok(rule, f.key, 'compares the deserialised scale with the generated SERDE_SCALE_LIMIT', f.where())
        else:
            rep.violation(rule, f.key, 'this JSON-number adapter never compares the scale of the deserialised decimal with SERDE_SCALE_LIMIT (its sibling does): exponents beyond the configured limit are accepted', f.where())
    return n


def guard_signatures(F, fn):
    """structural signature of every comparison against the scale limit in an adapter (and its
    closures): operator + provenance of both operands, and of the receiver the closure is applied to"""
    from rules import panic

    class PV(panic.Provenance):
        def of_place(self, pl, depth=3):
            if any(isinstance(p, dict) and p.get('n') == 'scale' for p in pl['p']):
                return 'SCALE'
            return panic.Provenance.of_place(self, pl, depth)

    sigs = set()
    bodies = adapter_bodies(F, fn)
    for g in bodies:
        pv = PV(g)
        uses_limit = False
        for bid, st in g.stmts():
            rv = st['rv']
            if rv['r'] == 'bin' and rv['bop'] in ('Lt', 'Le', 'Gt', 'Ge', 'Eq', 'Ne'):
                a, b = pv.of_op(rv['a'], 4), pv.of_op(rv['b'], 4)
                if 'SERDE_SCALE_LIMIT' in a + b:
                    uses_limit = True
                    sigs.add('%s(%s,%s)' % (rv['bop'], re.sub(r'param#\d+', 'param', a), re.sub(r'param#\d+', 'param', b)))
        if uses_limit and g.is_closure and g.locals[0] == 'bool':
            # what is the closure applied to?  (the receiver of the combinator in the parent)
            parent = F.fns.get(re.sub(r'::\{closure#\d+\}$', '', g.name))
            if parent is not None:
                pp = PV(parent)
                for bid, t in parent.calls():
                    if any(a['k'] in ('copy', 'move') and g.name.split('::')[-1] in strip_closure(parent, a) for a in t['args']):
                        recv = pp.of_op(t['args'][0], 4)
                        sigs.add('%s on %s' % (prov.strip_args(cdef(t)).split('::')[-1], re.sub(r'param#\d+', 'param', recv)))
    return sigs


def strip_closure(parent, a):
    """name of the closure a call argument is (via its single aggregate definition), else ''"""
    l = a['pl']['l']
    for bid, st in parent.stmts():
        if st['lhs']['l'] == l and not st['lhs']['p'] and st['rv']['r'] == 'agg' and st['rv']['kind'].get('a') == 'closure':
            return st['rv']['kind'].get('def', '')
    return ''


def sibling_signatures(rep, F, rule='SIBLING-LIMIT'):
    fns = [f for f in F.real_fns() if not f.is_closure and re.search(r'impl_serde::arbitrary_precision(_option)?::deserialize$', f.name)]
    if len(fns) != 2:
        rep.note('sibling signature cross-check needs exactly two JSON-number adapters, found %d' % len(fns))
        return 0
    sa, sb = guard_signatures(F, fns[0]), guard_signatures(F, fns[1])
    key = 'json_num~json_num_option:same-guard'
    def norm(S):
        """canonical predicates: the limit on the right-hand side, the closure parameter replaced by the value the
        combinator is applied to, `.0` payload projections dropped, the combinator itself (map_or / match / is_some_and) ignored"""
        recv = None
        for x in S:
            m_ = re.match(r'^(\w+) on (.*)$', x)
            if m_:
                recv = re.sub(r'\.0$', '', m_.group(2))
        out = set()
        flip = {'Lt': 'Gt', 'Le': 'Ge', 'Gt': 'Lt', 'Ge': 'Le', 'Eq': 'Eq', 'Ne': 'Ne'}
        for x in S:
            if re.match(r'^\w+ on ', x):
                continue
            m_ = re.match(r'^(Lt|Le|Gt|Ge|Eq|Ne)\((.*),([^,]*)\)$', x)
            if not m_:
                out.add(x)
                continue
            op, a, b = m_.group(1), m_.group(2), m_.group(3)
            if 'SERDE_SCALE_LIMIT' in a and 'SERDE_SCALE_LIMIT' not in b:
                op, a, b = flip[op], b, a
            a = re.sub(r'\.0$', '', a)
            if a == 'param' and recv:
                a = recv
            a = re.sub(r'tmp(\.\w+)*|var(\.\w+)*', '_', a)
            out.add('%s(%s,%s)' % (op, a, b))
        return out
    if norm(sa) == norm(sb) and sa:
        rep.ok(rule, key, 'both adapters guard the scale with the same predicate: %s' % sorted(sa), fns[0].where())
    elif not sa or not sb:
        rep.violation(rule, key, 'one adapter has no comparison against SERDE_SCALE_LIMIT at all: %s vs %s' % (sorted(sa), sorted(sb)), fns[1].where())
    else:
        rep.violation(rule, key, 'the two JSON-number adapters test the scale limit differently (one of them is wrong): %s  vs  %s' % (sorted(sa - sb), sorted(sb - sa)), fns[1].where())
    return 1


NUM_W = {'u8': 8, 'u16': 16, 'u32': 32, 'u64': 64, 'u128': 128, 'usize': 64, 'i8': 8, 'i16': 16, 'i32': 32, 'i64': 64, 'i128': 128, 'isize': 64, 'f32': 32, 'f64': 64}


def numeric_visitors(rep, F, rule='VISITOR-EXACT'):
    """integers and floats handed over by other formats convert exactly: in every visit_<number> method the handed-over
    value (tracked through copies and widening casts, into local helpers) reaches only the exact converters
    From<int> / TryFrom<float> for BigDecimal; a lossy cast (float->int, int->float, narrowing, sign-changing),
    arithmetic on it, or rendering it as text is a violation; an unknown external callee is undecided"""
    n = 0
    for f in F.real_fns():
        if f.is_closure or f.self_ty is None or f.trait != 'serde_crate::de::Visitor' or not re.match(r'visit_([iu](8|16|32|64|128)|f(32|64))$', f.item or ''):
            continue
        n += 1
        rep.add_functions([f.name])
        key = f.key + ':value-exact'
        probs, undec, sinks = [], [], []

        def walk(g, params, depth=0):
            tainted = set(params)
            changed = True
            while changed:
                changed = False
                for bid, st in g.stmts():
                    rv = st['rv']
                    l = st['lhs']['l']
                    src = None
                    if rv['r'] in ('use',) and rv['op']['k'] in ('copy', 'move'):
                        src = rv['op']['pl']['l']
                    elif rv['r'] == 'ref':
                        src = rv['pl']['l']
                    elif rv['r'] == 'agg':
                        if any(o['k'] in ('copy', 'move') and o['pl']['l'] in tainted for o in rv['ops']) and l not in tainted:
                            tainted.add(l)
                            changed = True
                        continue
                    elif rv['r'] == 'cast' and rv['op']['k'] in ('copy', 'move') and rv['op']['pl']['l'] in tainted:
                        sty = strip_lt(g.locals[rv['op']['pl']['l']]).lstrip('&')
                        dty = strip_lt(rv.get('to') or g.locals[l])
                        kind = rv.get('kind', '')
                        ok = False
                        if kind.startswith('FloatToFloat') and NUM_W.get(dty, 0) >= NUM_W.get(sty, 999):
                            ok = True
                        elif kind.startswith('IntToInt') and sty[:1] in 'iu' and dty[:1] in 'iu':
                            ws, wd = NUM_W.get(sty, 999), NUM_W.get(dty, 0)
                            ok = (sty[0] == dty[0] and wd >= ws) or (sty[0] == 'u' and dty[0] == 'i' and wd > ws)
                        if ok:
                            src = rv['op']['pl']['l']
                        else:
                            probs.append(('lossy cast `%s as %s` (%s) of the handed-over value' % (sty, dty, kind), g.where(st['line'])))
                            continue
                    elif rv['r'] == 'bin' and any(o['k'] in ('copy', 'move') and o['pl']['l'] in tainted for o in (rv['a'], rv['b'])):
                        if rv['bop'].replace('WithOverflow', '') in ('Add', 'Sub', 'Mul', 'Div', 'Rem', 'Shl', 'Shr', 'BitAnd', 'BitOr', 'BitXor'):
                            if l not in tainted:
                                tainted.add(('derived', l))
                        continue
                    if src is not None and src in tainted and l not in tainted:
                        tainted.add(l)
                        changed = True
            derived = {x[1] for x in tainted if isinstance(x, tuple)}
            for bid, t in g.calls():
                idx = [i for i, a in enumerate(t['args']) if a['k'] in ('copy', 'move') and a['pl']['l'] in tainted]
                didx = [i for i, a in enumerate(t['args']) if a['k'] in ('copy', 'move') and a['pl']['l'] in derived]
                d = prov.strip_args(cdef(t))
                res = cres(t)
                if didx and re.search(r'convert::(From::from|TryFrom::try_from|Into::into|TryInto::try_into)$', d) and 'BigDecimal' in res:
                    probs.append(('a value computed from the handed-over number (not the number itself) is converted', g.where(t['loc']['line'])))
                if not idx:
                    continue
                if re.search(r'convert::(From::from|TryFrom::try_from|Into::into|TryInto::try_into)$', d):
                    if 'BigDecimal' in res or 'BigDecimal' in strip_lt(g.locals[t['dest']['l']]):
                        sinks.append(res)
                    elif re.search(r'for (f32|f64|[iu]\d+)>', res) or re.search(r'^(f32|f64|[iu]\d+)$', strip_lt(g.locals[t['dest']['l']])):
                        # primitive-to-primitive From is lossless by construction in std
                        pass
                    else:
                        undec.append('converted through %s' % res[-60:])
                elif re.search(r'fmt::rt::Argument.*::new_|string::ToString::to_string$|fmt::(Display|LowerExp|Debug)::fmt$', d):
                    probs.append(('the handed-over number is rendered as text (shortest-digits float text is not the exact binary value)', g.where(t['loc']['line'])))
                elif re.search(r'::is_nan$|::is_finite$|::is_infinite$|::classify$|::is_sign_negative$|::is_sign_positive$|cmp::Partial(Eq|Ord)::', d):
                    pass
                else:
                    tg = F.call_targets(g, t)
                    if tg and depth < 3:
                        for nm in tg:
                            walk(F.fns[nm], [i + 1 for i in idx], depth + 1)
                    else:
                        undec.append('passed to %s' % (res or d)[-60:])

        walk(f, [2])
        if probs:
            rep.violation(rule, key, '%s: %s' % (f.item, probs[0][0]), probs[0][1])
        elif undec or not sinks:
            rep.undecided(rule, key, (undec or ['the handed-over value reaches no BigDecimal converter'])[0], f.where())
        else:
            rep.ok(rule, key, '%s: the value reaches only %s' % (f.item, sorted(set(x.split('::<')[-1][:70] for x in sinks))[0]), f.where())
    return n


def zero_not_padded(rep, F, rule='JSON-GRAMMAR'):
    """the JSON-number adapters serialise the Display text through serde_json::Number::from_str, whose grammar has no
    leading zeros.  Display right-pads integer-valued decimals (scale <= 0) with zeros; for the value zero that turns "0"
    into "00".  Necessary condition: wherever the padding routine is handed a non-constant zero count, the path has
    excluded the value zero (sign != NoSign / !is_zero)"""
    n = 0
    for fn in F.real_fns():
        if fn.is_closure or not any(re.search(r'zero_right_pad_integer_ascii_digits$', (t['callee'].get('resolved') or '')) for b, t in fn.calls()):
            continue
        try:
            pe = TB.PathEnum(F, fn, max_paths=400, cut_loops=True)
            paths = pe.run()
        except TB.Undecided as e:
            rep.undecided(rule, fn.key + ':zero-is-not-padded', str(e), fn.where())
            continue
        n += 1
        bad = ok = 0
        for (atoms, out), eff in zip(paths, pe.effects):
            calls = [args for c, args in eff if TB._plain(c).endswith('zero_right_pad_integer_ascii_digits')]
            if not calls:
                continue
            maybe_zero = True
            for a, c in atoms:
                s0 = TB.show(TB.strip_refs(a[0] if False else a))
                if re.match(r'^discr\((arg\d+\.sign|sign\(arg\d+\))\)$', s0):
                    if c[0] == 'eq':
                        maybe_zero = (c[1] == 1)
                    else:
                        maybe_zero = 1 not in c[1]
                elif re.match(r'^(Eq|Ne)\((arg\d+\.sign|sign\(arg\d+\)),Sign::NoSign\)$', s0):
                    truth = not (c == ('eq', 0))
                    maybe_zero = truth if s0.startswith('Eq') else (not truth)
                elif re.match(r'^is_zero\(arg\d+(\.digits|\.int_val)?\)$', s0):
                    maybe_zero = not (c == ('eq', 0))
            for args in calls:
                cnt = TB.strip_refs(args[1])
                if maybe_zero and cnt != TB.T('const', 0):
                    bad += 1
                else:
                    ok += 1
        key = fn.key + ':zero-is-not-padded'
        if bad:
            rep.violation(rule, key, 'on %d path(s) the value may be zero and is still handed to the right-padding routine with the zero count -scale: a zero with negative scale prints as "00", which serde_json::Number::from_str rejects (json_num cannot serialise it)' % bad, fn.where())
        elif ok:
            rep.ok(rule, key, '%d padding call(s): a zero value is padded by 0 zeros' % ok, fn.where())
    return n


def run_config(ctx, feat):
    rep = ctx.rep
    Fd = ctx.facts(feat, 'dbg')
    Fr = ctx.facts(feat, 'rel')
    ents_d = entries(Fd)
    rep.entries['deserialisation entries (%s)' % feat] = [e.key for e in ents_d]
    names, nsites = panic_clause(ctx, Fd, ents_d, stop=STOP_VISIT, what='deserialising a string or JSON number (%s)' % feat)
    ents_r = entries(Fr)
    nf = no_float(rep, Fr, ents_r)
    ns = serialize_shape(rep, Fr)
    if not hasattr(Fr, '_prov'):
        Fr._prov = prov.ProvEngine(Fr)
    nl = sibling_limit(rep, Fr, Fr._prov)
    sibling_signatures(rep, Fr)
    nv = numeric_visitors(rep, Fr)
    nz = zero_not_padded(rep, Fr)
    # visit_f32/visit_f64 end in parse_from_fNN: every float-dependent return of the converters carries the sign
    from rules import bitfield
    nsg = bitfield.returns_carry_sign(rep, Fr)
    rep.floor('float converters behind visit_f32/visit_f64 checked for the sign', nsg, 4)
    rep.floor('callers of the zero-padding routine', nz, 1)
    rep.floor('numeric visitor methods', nv, 6)
    return len(ents_d), nsites, nf, ns, nl


def run(ctx):
    rep = ctx.rep
    rep.explanation = ('Static MIR analysis of the `serde-json` feature configuration (the pinned test run does not compile it at all). '
                       'R-NOCALL: no float conversion/parse/cast is reachable from visit_str, visit_map or the two JSON-number adapters (float visitors '
                       'are cut: they are C14\'s subject). R-PANIC: every may-panic site on those paths is discharged or reviewed (debug-profile facts). '
                       'SIBLING-LIMIT: both adapters compare the scale with the generated SERDE_SCALE_LIMIT. R-FWD: Serialize is collect_str(self) and the '
                       'adapters serialise Number::from_str(Display text). VISITOR-EXACT: in every visit_<integer|float> method the handed-over value reaches only the exact From<int>/TryFrom<float> converters - no lossy cast, arithmetic or text rendering on the way. JSON-GRAMMAR: Display never right-pads the value zero (no "00", which the JSON number grammar rejects). NOT decided: round-trip equality.')
    ne, nsites, nf, ns, nl = run_config(ctx, 'serde')
    rep.floor('deserialisation entries', ne, 4)
    rep.floor('may-panic sites', nsites, 10)
    rep.floor('functions on the str/map paths', nf, 8)
    rep.floor('serialise shapes', ns, 3)
    rep.floor('JSON-number adapters', nl, 2)
    if ctx.tier == 'thorough':
        run_config(ctx, 'serde-string')
    rep.trust(common.TRUST_STD)
    rep.trust('serde / serde_json callbacks: deserialize_any may call any Visitor method; MapAccess::next_value::<BigDecimal> re-enters Deserialize')
