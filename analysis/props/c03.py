"""C03: hashing does not panic (R-PANIC, under the property's own bound |scale| <= 1e5)."""
from rules.panic_clause import panic_clause
from props import common


def run(ctx):
    rep = ctx.rep
    rep.explanation = ('Static MIR analysis. R-PANIC on Hash::hash for BigDecimal (debug-profile facts): every may-panic site reachable from it is '
                       'discharged or reviewed under the property\'s own bound |scale| <= 10^5.  A deliberately weak claim: agreement of the '
                       'hashed bytes with equality is NOT decided.')
    F = ctx.facts('default', 'dbg')
    ents = common.hash_entries(F)
    rep.entries['hash impl'] = [e.key for e in ents]
    rep.floor('Hash impl', len(ents), 1)
    names, n = panic_clause(ctx, F, ents, what='Hash::hash')
    rep.floor('may-panic sites enumerated', n, 3)
    rep.assume('|scale| <= 10^5 (the property bounds scales because the hash materialises zeros)')
    rep.trust(common.TRUST_STD)
