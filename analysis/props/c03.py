"""C03: hashing does not panic (R-PANIC, under the property's own bound |scale| <= 1e5)."""
import re
from facts import cdef, cres, fields_of
from rules.panic_clause import panic_clause
from rules import table as TB
from props import common


def zero_hashes_alike(rep, F, rule='HASH-ZERO'):
    """necessary for agreement: every zero (whatever its scale) feeds the same bytes - on each path
    where int_val.is_zero() holds, the hashed datum is the plain decimal string of the integer,
    neither trimmed nor extended"""
    n = 0
    for fn in common.hash_entries(F):
        key = fn.key + ':zero-any-scale'
        try:
            pe = TB.PathEnum(F, fn, max_paths=200)
            paths = pe.run()
        except TB.Undecided as e:
            rep.undecided(rule, key, 'paths not enumerable: %s' % e, fn.where())
            continue
        n += 1
        bad = []
        seen = 0
        for (atoms, out), eff in zip(paths, pe.effects):
            vals = {}
            consistent = True
            zero = None
            for term, (rel, v) in atoms:
                truth = not (rel == 'eq' and v == 0)
                k = TB.show(TB.strip_refs(term))
                if k in vals and vals[k] != truth:
                    consistent = False
                vals[k] = truth
                if TB.is_call(term, r'Zero::is_zero$|BigInt::is_zero$') and TB.mentions(TB.strip_refs(term), TB.T('field', TB.T('param', 1), 'int_val')):
                    zero = truth
            if not consistent or zero is not True:
                continue
            for name, args in eff:
                if re.search(r'hash::Hash::hash$|Hash>::hash$|Hasher::write', name) and args:
                    seen += 1
                    datum = TB.show(TB.strip_refs(args[0]))
                    if datum != 'to_str_radix(arg1.int_val,10)':
                        bad.append((sorted(k for k, tv in vals.items() if tv and 'is_zero' not in k), datum[:120]))
        if bad:
            rep.violation(rule, key, 'a zero is hashed differently depending on its scale: on the zero path under %s the hashed datum is %s, not the plain digit string "0"' % (bad[0][0], bad[0][1]), fn.where())
        elif seen == 0:
            rep.undecided(rule, key, 'no path establishes int_val.is_zero() before hashing: the zero clause is not structural in this shape', fn.where())
        else:
            rep.ok(rule, key, 'on all %d zero paths the hashed datum is the unmodified digit string of the integer' % seen, fn.where())
    return n


def feeding_shape(rep, F, rule='HASH-SHAPE'):
    """necessary for agreement under ANY Hasher (many hashers mix each write call separately): the sequence of Hasher /
    Hash calls that receive the state is the same on every path a non-zero value can take, and the same on every path a
    zero can take - equal values reach different paths only through their representation (sign of the scale, trailing
    zeros), so a representation-dependent call sequence splits equal values under such hashers"""
    n = 0
    for fn in common.hash_entries(F):
        key = fn.key + ':same-call-sequence'
        try:
            pe = TB.PathEnum(F, fn, max_paths=400, cut_loops=True)
            paths = pe.run()
        except TB.Undecided as e:
            rep.undecided(rule, key, 'paths not enumerable: %s' % e, fn.where())
            continue
        n += 1
        groups = {}
        for (atoms, out), eff in zip(paths, pe.effects):
            zero = None
            for term, (rel, v) in atoms:
                if TB.is_call(term, r'Zero::is_zero$|BigInt::is_zero$'):
                    zero = not (rel == 'eq' and v == 0)
            seq = []
            for name, args in eff:
                if re.search(r'hash::Hash::hash$|Hash>::hash$|hash::Hasher::\w+$|Hasher>::\w+$', name):
                    seq.append(TB._plain(name).split('::')[-1] if 'Hasher' in name else 'Hash::hash')
            looped = TB.show(out).startswith("('loop'")
            sig = tuple(seq) + (('...loop',) if looped else ())
            for z in ([zero] if zero is not None else [True, False]):
                groups.setdefault(z, set()).add(sig)
        bad = [(z, sigs) for z, sigs in groups.items() if len(sigs) > 1]
        if bad:
            z, sigs = bad[0]
            rep.violation(rule, key, 'the Hasher is fed by different call sequences depending on the representation (%s values): %s - hashers that mix each write separately give equal decimals different hashes'
                          % ('zero' if z else 'non-zero', ' vs '.join(sorted('[' + ', '.join(x) + ']' for x in sigs))[:300]), fn.where())
        elif not groups or all(not s for sigs in groups.values() for s in sigs):
            rep.undecided(rule, key, 'no Hasher/Hash call receiving the state recognised', fn.where())
        else:
            rep.ok(rule, key, 'every path feeds the state by the same call sequence %s' % list(sorted(next(iter(groups.values())))[0]), fn.where())
    return n


def hashed_data(rep, F, rule='HASH-FIELDS'):
    """necessary for agreement with ==: neither raw representation field is fed to the Hasher
    (scale and trailing zeros differ between equal values), and the hashed datum is computed from
    both fields"""
    n = 0
    for fn in common.hash_entries(F):
        bodies = [fn] + [F.fns[c] for c in F.closures_of(fn.name)]
        raw = []
        hashed = 0
        reads = set()
        for g in bodies:
            for bid, st in g.stmts():
                for pl in ([st['rv'].get('pl')] if st['rv'].get('pl') else []) + [o['pl'] for o in ([st['rv'].get('op')] if st['rv'].get('op') else []) if o and o.get('k') in ('copy', 'move')]:
                    for f in fields_of(pl):
                        if f in ('int_val', 'scale'):
                            reads.add(f)
            for bid, t in g.calls():
                d = cdef(t)
                if re.search(r'hash::Hash::hash$|hash::Hasher::write', d) and t['args']:
                    hashed += 1
                    # resolve the hashed operand through borrows/copies to a place
                    a = t['args'][0]
                    l = a['pl']['l'] if a['k'] in ('copy', 'move') else None
                    seen = set()
                    while l is not None and l not in seen:
                        seen.add(l)
                        defs = [st for b, st in g.stmts() if st['lhs']['l'] == l and not st['lhs']['p']]
                        if len(defs) != 1:
                            break
                        rv = defs[0]['rv']
                        src = rv.get('pl') if rv['r'] == 'ref' else (rv['op']['pl'] if rv['r'] == 'use' and rv['op']['k'] in ('copy', 'move') else None)
                        if src is None:
                            break
                        fl = fields_of(src)
                        if src['l'] == 1 and fl and fl[-1] in ('int_val', 'scale'):
                            raw.append(fl[-1])
                            break
                        l = src['l'] if not fl else None
        n += 1
        key = fn.key + ':no-raw-field'
        if raw:
            rep.violation(rule, key, 'the raw field(s) %s are fed to the Hasher: equal decimals with different scales or trailing zeros hash differently' % sorted(set(raw)), fn.where())
        elif hashed == 0:
            rep.undecided(rule, key, 'no Hash::hash / Hasher::write call found in the impl', fn.where())
        else:
            rep.ok(rule, key, '%d hashed datum/data: none is a raw representation field' % hashed, fn.where())
        n += 1
        key = fn.key + ':reads-both-fields'
        if reads >= {'int_val', 'scale'}:
            rep.ok(rule, key, 'the hashed datum is computed in a body that reads both int_val and scale', fn.where())
        else:
            rep.violation(rule, key, 'Hash::hash reads only %s: the value int_val*10^-scale cannot be determined from it' % sorted(reads), fn.where())
    return n



def run(ctx):
    rep = ctx.rep
    rep.explanation = ('Static MIR analysis. R-PANIC on Hash::hash for BigDecimal (debug-profile facts): every may-panic site reachable from it is '
                       'discharged or reviewed under the property\'s own bound |scale| <= 10^5.  HASH-FIELDS / HASH-ZERO / HASH-SHAPE are necessary conditions of agreement with ==: no raw representation field is hashed, every zero hashes the plain digit string, and the Hasher is fed by the same call sequence on every path (so hashers that mix each write separately cannot split equal values).  ZIP-LENGTH: on the equality side, every element-wise zip comparison of digit sequences is dominated by a test that their lengths are equal (an == that accepts a proper prefix makes unequal values equal while their hashes differ).  Agreement of the '
                       'hashed bytes with equality itself is NOT decided.')
    F = ctx.facts('default', 'dbg')
    ents = common.hash_entries(F)
    rep.entries['hash impl'] = [e.key for e in ents]
    rep.floor('Hash impl', len(ents), 1)
    names, n = panic_clause(ctx, F, ents, what='Hash::hash')
    rep.floor('may-panic sites enumerated', n, 3)
    nh = hashed_data(rep, ctx.facts('default', 'rel'))
    rep.floor('hash field rules', nh, 2)
    nz = zero_hashes_alike(rep, ctx.facts('default', 'rel'))
    rep.floor('zero-hash rule', nz, 1)
    nsq = feeding_shape(rep, ctx.facts('default', 'rel'))
    rep.floor('hash feeding-shape rule', nsq, 1)
    from rules import limbmod
    _Fl = ctx.facts('default', 'rel')
    nlm = limbmod.check(rep, _Fl, [f.name for f in _Fl.real_fns()])
    rep.floor('functions reading big-integer limbs', nlm, 1)
    # the equality relation itself must not be coarser than value equality (two unequal values comparing equal hash differently)
    from rules import ziplen
    ziplen.check(rep, _Fl, _Fl.reach(common.cmp_entries(_Fl)))
    rep.assume('|scale| <= 10^5 (the property bounds scales because the hash materialises zeros)')
    rep.trust(common.TRUST_STD)
