"""C19: programs of exact operations -- the inductive step: every exact operation is exact for every
representation of its operands (R-SCALE, parametric in scales and trailing zeros)."""
import re
from props import exact
from rules import table as TB

ASSIGN = ('std::ops::AddAssign', 'std::ops::SubAssign', 'std::ops::MulAssign')
ALL = ('std::ops::Add', 'std::ops::Sub', 'std::ops::Mul', 'std::ops::Neg') + ASSIGN


def by_value_predicates(rep, F, rule='BY-VALUE'):
    """the zero/one tests used by the shortcuts compare values, not representations"""
    n = 0
    for fn in F.impls('num_traits::Zero', r'^BigDecimal$'):
        if fn.item != 'is_zero':
            continue
        n += 1
        try:
            paths = TB.PathEnum(F, fn).run()
            nf = TB.normal_form(F, paths[0][1]) if len(paths) == 1 else None
        except TB.Undecided:
            nf = None
        if nf == 'is_zero(arg1.int_val)':
            rep.ok(rule, fn.key, 'is_zero() looks only at the unscaled integer: a zero carrying any scale is zero', fn.where())
        elif nf is None:
            rep.undecided(rule, fn.key, 'is_zero is no longer a single projection', fn.where())
        else:
            rep.violation(rule, fn.key, 'is_zero() must be int_val.is_zero() whatever the scale; it is %s' % nf, fn.where())
    ones = [f for f in F.impls('num_traits::One', r'^BigDecimal$') if f.item == 'is_one']
    n += 1
    if not ones:
        # default method of num_traits::One: *self == Self::one(), i.e. the crate's by-value PartialEq
        eqs = [f for f in F.impls('std::cmp::PartialEq', r'^BigDecimal$') if f.item == 'eq']
        if eqs:
            rep.ok(rule, 'One::is_one:default', 'is_one() is num-traits\' default `*self == one()` and therefore the by-value equality of C02 (1.00 counts as one)', eqs[0].where())
        else:
            rep.undecided(rule, 'One::is_one:default', 'no PartialEq impl found for BigDecimal')
    else:
        fn = ones[0]
        calls = [c for _, c in fn.calls()]
        uses_eq = any(re.search(r'PartialEq::eq$|PartialEq>::eq$', (c['callee'].get('resolved') or c['callee'].get('def', ''))) for c in calls)
        reads_scale = any(any(isinstance(p, dict) and p.get('n') == 'scale' for p in pl['p']) for b, st in fn.stmts() for pl in ([st['rv'].get('pl')] if st['rv'].get('pl') else []))
        if uses_eq and not reads_scale:
            rep.ok(rule, fn.key, 'custom is_one() delegates to by-value equality', fn.where())
        else:
            rep.violation(rule, fn.key, 'custom is_one() does not delegate to by-value equality (uses_eq=%s, reads scale=%s): a one written as 1.00 may be missed or a non-one accepted' % (uses_eq, reads_scale), fn.where())
    return n


def run(ctx):
    rep = ctx.rep
    rep.explanation = ('Static MIR analysis. The quantifier over programs is discharged by induction on program length: R-SCALE proves each exact '
                       'operation (every overload and every compound assignment, the derived operations, upward re-scaling) equal to its algebraic '
                       'specification for operands of ARBITRARY scale and digit representation -- the proofs are parametric in the operands\' scales and '
                       'never assume a canonical form, and every zero/one shortcut path is verified under the VALUE fact (x := 0, x := 1) whatever the '
                       'scale. BY-VALUE: is_zero/is_one used by the shortcuts are the by-value predicates. Comparisons, hashes and normalisation taken along the way: the ORDER-TABLE / SCAN-GAP / HASH-* / NORMAL-FORM necessary conditions of C02, C03 and C18 are re-established here. NOT decided: the digit-level comparison arithmetic '
                       'and the hashed bytes themselves.')
    F = ctx.facts('default', 'rel')
    n, arms, sc = exact.operator_family(rep, F, ALL)
    nd = exact.derived_ops(rep, F)
    nr = exact.rescale_primitives(rep, F, scale_only=False)
    nb = by_value_predicates(rep, F)
    n_assign = len([o for o in rep.obs if 'Assign<' in o['key'] or 'Assign for' in o['key']])
    # "comparisons and hashes taken along the way agree with the exact values", "normalizing": the structural
    # necessary conditions established for C02 / C03 / C18 are obligations of this property as well
    from rules import ordertable, scangap, normalform
    from props import common, c03
    nt = ordertable.cmp_table(rep, F) + ordertable.checked_diff_contract(rep, F) + ordertable.eq_table(rep, F)
    ng = scangap.check(rep, F, F.reach(common.cmp_entries(F)))
    from rules import ziplen
    ziplen.check(rep, F, F.reach(common.cmp_entries(F)))
    nh = c03.hashed_data(rep, F) + c03.zero_hashes_alike(rep, F) + c03.feeding_shape(rep, F)
    nn = normalform.check(rep, F)
    rep.floor('comparison table cells', nt, 20)
    rep.floor('digit loops advanced with next()', ng, 2)
    rep.floor('hash agreement rules', nh, 4)
    rep.floor('normalized() table rows', nn, 2)
    rep.floor('exact operator functions', n, 380)
    rep.floor('compound-assignment functions', n_assign, 60)
    rep.floor('shortcut paths verified under value facts', sc, 60)
    rep.floor('by-value predicate checks', nb, 2)
    rep.extra['shortcut_paths_verified'] = sc
    rep.extra['compound_assignment_functions'] = n_assign
    rep.trust('helper summaries: ten_to_the*(k) = 10^k; normalized() preserves the value (its loop is not verified)')
    if ctx.tier == 'thorough':
        from rules import witness
        nw = witness.run(rep, r'^W7')
        rep.floor('type-level witnesses', nw, 1)
