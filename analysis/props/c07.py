"""C07 rounding to a precision: contexts are honoured (PROV-CTX), with_precision_round forwards its
mode and converts precision to scale through checked arithmetic only (R-PANIC on its own body)."""
import re
from rules import prov, provrules as R, signsticky as S
from rules.panic_clause import panic_clause
from rules import scale
from props import exact


def run(ctx):
    rep = ctx.rep
    rep.explanation = ('Static MIR analysis. PROV-CTX: Context::{round_decimal, round_decimal_ref, add_refs, add_refs_into} and '
                       'BigDecimalRef::round_with_context hand ctx.precision and ctx.rounding to the rounding routine whose result is delivered; '
                       'with_precision_round forwards its mode parameter unchanged to with_scale_round. R-PANIC (own body + closures, debug-profile '
                       'facts): the precision-to-scale conversion uses checked arithmetic only -- the single may-panic site is the documented '
                       'expect("precision overflow"); no integer `as` cast on that slice. R-SIGN on the same functions. NOT decided: with_prec\'s '
                       'rounding (including its behaviour on negatives) and digit counting.')
    F = ctx.facts('default', 'rel')
    if not hasattr(F, '_prov'):
        F._prov = prov.ProvEngine(F)
    E = F._prov
    fns = [f for f in F.real_fns() if not f.is_closure and (
        re.search(r'^context::Context::(round_decimal|round_decimal_ref|add_refs|add_refs_into)$', f.name) or
        re.search(r'^BigDecimalRef(::<[^>]*>)?::round_with_context$', f.name))]
    rep.entries['context-taking rounding entry points'] = [f.key for f in fns]
    rep.floor('context-taking entry points', len(fns), 5)
    n1 = R.ctx_honoured(rep, F, E, fns)
    wpr = [f for f in F.real_fns() if not f.is_closure and f.name == 'BigDecimal::with_precision_round']
    n2 = R.mode_pair_honoured(rep, F, E, wpr)
    n3 = S.no_resign_after_rounding(rep, F, E, fns + wpr)
    rep.floor('PROV-CTX final sinks', n1 + n2, 5)
    nrt = S.rounding_term_sign(rep, F)
    rep.floor('rounding-term call sites', nrt, 2)
    # the two-operand sum hands the EXACT sum a + b to the rounding routine on every path
    exact.prepare(F)
    for f in fns:
        if f.name.endswith('add_refs_into'):
            v, msgs, paths = scale.analyse(f, 'rounded-add', arg_offset=1)
            key = f.key + ':rounds-the-exact-sum'
            if v == 'ok' and getattr(scale.analyse.last, 'rounded_ok', 0) > 0:
                rep.ok('R-SCALE', key, 'on all %d paths the value handed to with_precision_round is a + b (dimension typing, arbitrary scales)' % paths, f.where())
            elif v == 'violation':
                rep.violation('R-SCALE', key, msgs[0][:400], f.where())
            else:
                rep.undecided('R-SCALE', key, (msgs or ['no rounding call reached'])[0][:200], f.where())
    # own-body panic discipline of with_precision_round
    Fd = ctx.facts('default', 'dbg')
    bodies = []
    for f in Fd.real_fns():
        if f.name == 'BigDecimal::with_precision_round' or f.name.startswith('BigDecimal::with_precision_round::{closure'):
            bodies.append(f.name)
    names, nsites = panic_clause(ctx, Fd, [], only_bodies=bodies, what='precision-to-scale conversion of with_precision_round')
    rep.floor('with_precision_round bodies', len(bodies), 2)
    ncast = 0
    for nme in bodies:
        fn = Fd.fns[nme]
        for bid, st in fn.stmts():
            rv = st['rv']
            if rv['r'] == 'cast' and rv['kind'].startswith('IntToInt'):
                ncast += 1
                rep.violation('NO-CAST', '%s|cast-to-%s' % (fn.key, rv['to']), 'integer `as` cast on the precision-to-scale slice (must be checked conversions): to %s' % rv['to'], fn.where(st['line']))
    if ncast == 0:
        rep.ok('NO-CAST', 'with_precision_round:no-int-cast', 'no integer `as` cast in with_precision_round or its closures (%d bodies)' % len(bodies))
    if ctx.tier == 'thorough':
        from rules import witness
        nw = witness.run(rep, r'^W[12]')
        rep.floor('type-level witnesses', nw, 2)
