"""C07 rounding to a precision: contexts are honoured (PROV-CTX), with_precision_round forwards its
mode and converts precision to scale through checked arithmetic only (R-PANIC on its own body)."""
import re
from facts import cres, cdef
from rules import prov, provrules as R, signsticky as S
from rules.panic_clause import panic_clause
from rules import scale
from props import exact


def run(ctx):
    rep = ctx.rep
    rep.explanation = ('Static MIR analysis. PROV-CTX: Context::{round_decimal, round_decimal_ref, add_refs, add_refs_into} and '
                       'BigDecimalRef::round_with_context hand ctx.precision and ctx.rounding to the rounding routine whose result is delivered; '
                       'with_precision_round forwards its mode parameter unchanged to with_scale_round. R-PANIC (own body + closures, debug-profile '
                       'facts): the precision-to-scale conversion uses checked arithmetic only -- the single may-panic site is the documented '
                       'expect("precision overflow"); no integer `as` cast on that slice. R-SIGN on the same functions. FIXED-TIE: with_prec\'s tie rule cannot come from the configurable default mode. NOT decided: with_prec\'s '
                       'rounding (including its behaviour on negatives) and digit counting.')
    F = ctx.facts('default', 'rel')
    if not hasattr(F, '_prov'):
        F._prov = prov.ProvEngine(F)
    E = F._prov
    fns = [f for f in F.real_fns() if not f.is_closure and (
        re.search(r'^context::Context::(round_decimal|round_decimal_ref|add_refs|add_refs_into)$', f.name) or
        re.search(r'^BigDecimalRef(::<[^>]*>)?::round_with_context$', f.name))]
    rep.entries['context-taking rounding entry points'] = [f.key for f in fns]
    rep.floor('context-taking entry points', len(fns), 5)
    n1 = R.ctx_honoured(rep, F, E, fns)
    wpr = [f for f in F.real_fns() if not f.is_closure and f.name == 'BigDecimal::with_precision_round']
    n2 = R.mode_pair_honoured(rep, F, E, wpr)
    n3 = S.no_resign_after_rounding(rep, F, E, fns + wpr)
    rep.floor('PROV-CTX final sinks', n1 + n2, 5)
    nrt = S.rounding_term_sign(rep, F)
    from rules import countdigits
    ncd = countdigits.check(rep, F)
    rep.floor('digit-count obligations', ncd, 2)
    rep.floor('rounding-term call sites', nrt, 2)
    # every precision rounding of a long operand ends in with_scale_round: its digit positions and the rebuilt integer
    from rules import position
    npos = position.check(rep, F)
    rep.floor('position obligations of with_scale_round', npos, 6)
    # the two-operand sum hands the EXACT sum a + b to the rounding routine on every path
    exact.prepare(F)
    for f in fns:
        if f.name.endswith('add_refs_into'):
            v, msgs, paths = scale.analyse(f, 'rounded-add', arg_offset=1)
            key = f.key + ':rounds-the-exact-sum'
            if v == 'ok' and getattr(scale.analyse.last, 'rounded_ok', 0) > 0:
                rep.ok('R-SCALE', key, 'on all %d paths the value handed to with_precision_round is a + b (dimension typing, arbitrary scales)' % paths, f.where())
            elif v == 'violation':
                rep.violation('R-SCALE', key, msgs[0][:400], f.where())
            else:
                rep.undecided('R-SCALE', key, (msgs or ['no rounding call reached'])[0][:200], f.where())
    # own-body panic discipline of with_precision_round
    Fd = ctx.facts('default', 'dbg')
    bodies = []
    for f in Fd.real_fns():
        if f.name == 'BigDecimal::with_precision_round' or f.name.startswith('BigDecimal::with_precision_round::{closure'):
            bodies.append(f.name)
    names, nsites = panic_clause(ctx, Fd, [], only_bodies=bodies, what='precision-to-scale conversion of with_precision_round')
    rep.floor('with_precision_round bodies', len(bodies), 2)
    ncast = 0
    for nme in bodies:
        fn = Fd.fns[nme]
        for bid, st in fn.stmts():
            rv = st['rv']
            if rv['r'] == 'cast' and rv['kind'].startswith('IntToInt'):
                ncast += 1
                rep.violation('NO-CAST', '%s|cast-to-%s' % (fn.key, rv['to']), 'integer `as` cast on the precision-to-scale slice (must be checked conversions): to %s' % rv['to'], fn.where(st['line']))
    if ncast == 0:
        rep.ok('NO-CAST', 'with_precision_round:no-int-cast', 'no integer `as` cast in with_precision_round or its closures (%d bodies)' % len(bodies))
    # scale bookkeeping of with_prec: dropping `diff` digits lowers the scale by diff, padding raises it by diff
    wpf = F.fns.get('BigDecimal::with_prec')
    if wpf is not None:
        v, msgs, paths = scale.analyse(wpf, 'dims', scale_params=(2,))
        key = wpf.key + ':scale-bookkeeping'
        if v == 'ok':
            rep.ok('R-SCALE', key, 'all %d paths: the quotient by 10^diff is labelled scale - diff, the padded integer scale + diff, with diff >= 0 established by the digits/precision comparison' % paths, wpf.where())
        elif v == 'violation':
            rep.violation('R-SCALE', key, msgs[0][:400], wpf.where())
        else:
            rep.undecided('R-SCALE', key, (msgs or ['not decided'])[0][:200], wpf.where())
    # ROUND-ONCE: between the precision-rounding entry points and the table-checked routine with_scale_round no other,
    # mode-blind shortening of the operand may happen (truncate-then-round is double rounding: the dropped tail can no
    # longer break a tie or push a directed mode)
    TRUNC = re.compile(r'BigDecimal::(with_scale|set_scale|take_and_scale|with_prec|round|normalized_to)$|to_owned_with_scale$|BigDecimal as std::ops::Div|impl_division$')
    cg = F.callgraph()
    for ent in wpr + fns:
        seen_, st_ = set(), [ent.name]
        while st_:
            x = st_.pop()
            if x in seen_ or x not in cg or x == 'BigDecimal::with_scale_round':
                continue
            if re.search(r'^arithmetic::addition::|extend_scale_to$|ops::(Add|Sub)[<> ]|ops::(Add|Sub)Assign', x):
                continue        # the exact-sum layer of add_refs*: upward re-scaling only, typed exact by R-SCALE
            seen_.add(x)
            st_.extend(cg[x])
        hits = []
        for nme in sorted(seen_):
            g = F.fns[nme]
            if re.search(r'^arithmetic::addition::|impl_ops_add|impl_ops_sub|ops::Add|ops::Sub|AddAssign|SubAssign', nme):
                continue        # the exact sum of add_refs*: typed by R-SCALE (rounded-add)
            for bid, t in g.calls():
                r0 = cres(t) or cdef(t) or ''
                if TRUNC.search(r0) and nme != 'BigDecimal::with_precision_round::never':
                    hits.append((g, t, r0))
        key = ent.key + ':rounds-once'
        if hits:
            g, t, r0 = hits[0]
            rep.violation('ROUND-ONCE', key, '%s shortens the operand with %s before the requested rounding: digits dropped there can no longer decide a tie or a directed mode (double rounding)' % (g.name.split('::')[-1], r0.split('::')[-1]), g.where(t['loc']['line']))
        else:
            rep.ok('ROUND-ONCE', key, '%d bodies between the entry point and with_scale_round: no truncating rescale, no other rounding' % len(seen_), ent.where())
    # with_prec's tie rule is fixed by its specification (ties away from zero): it must not come from the
    # configurable default mode, and a mode constant it hands to a rounding routine must be HalfUp
    wp = F.fns.get('BigDecimal::with_prec')
    if wp is None:
        rep.violation('FIXED-TIE', 'BigDecimal::with_prec:missing', 'anchor function not found (fail closed)')
    else:
        rep.add_functions([wp.name])
        reach = F.reach([wp.name])
        conf = sorted(x for x in reach if re.search(r'RoundingMode as std::default::Default>::default$|Context as std::default::Default>::default$|default_with_sign$', x))
        named = []
        for nme in sorted(reach):
            g = F.fns[nme]
            if not (g.name == wp.name or g.name.startswith(wp.name + '::{closure')):
                continue
            for bid, st in g.stmts():
                rv = st['rv']
                for o in [rv.get('op'), rv.get('a'), rv.get('b')] + list(rv.get('ops') or []):
                    if o and o.get('k') == 'const' and str(o.get('named', '')).endswith('DEFAULT_ROUNDING_MODE'):
                        named.append(g.where(st['line']))
        bad_mode = []
        for bid, t in wp.calls():
            for i, a in enumerate(t['args']):
                ty = a.get('ty') or (wp.locals[a['pl']['l']] if a['k'] in ('copy', 'move') else '')
                if 'RoundingMode' not in ty:
                    continue
                l = a['pl']['l'] if a['k'] in ('copy', 'move') else None
                variant = None
                for b2, st in wp.stmts():
                    if l is not None and st['lhs']['l'] == l and not st['lhs']['p'] and st['rv']['r'] == 'agg' and st['rv']['kind'].get('a') == 'adt':
                        variant = st['rv']['kind'].get('variant')
                if variant is not None and variant != 'HalfUp':
                    bad_mode.append((variant, wp.where(t['loc']['line'])))
        key = wp.key + ':ties-away-from-zero-not-configurable'
        if conf or named:
            rep.violation('FIXED-TIE', key, 'with_prec must round ties away from zero whatever the build configuration, but it reaches the configurable default rounding mode (%s)' % (conf[0] if conf else 'DEFAULT_ROUNDING_MODE'), wp.where())
        elif bad_mode:
            rep.violation('FIXED-TIE', key, 'with_prec hands RoundingMode::%s to a rounding routine; its specification is ties away from zero (HalfUp)' % bad_mode[0][0], bad_mode[0][1])
        else:
            rep.ok('FIXED-TIE', key, '%d bodies reachable from with_prec: none is RoundingMode::default / Context::default / default_with_sign, no use of DEFAULT_ROUNDING_MODE, no non-HalfUp mode constant passed on' % len(reach), wp.where())
    if ctx.tier == 'thorough':
        from rules import witness
        nw = witness.run(rep, r'^W[12]')
        rep.floor('type-level witnesses', nw, 2)
