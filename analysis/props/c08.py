"""C08 division: every form refuses a zero divisor (R-GUARD); more clauses are added below."""
import collections
from rules import guard


def guard_clause(ctx, F, families, rule='R-GUARD'):
    rep = ctx.rep
    res = [r for r in guard.run(F) if r[0].trait in families]
    roots = collections.defaultdict(list)
    deps = collections.defaultdict(list)
    n_inst = 0
    for f, status, detail in res:
        rep.add_functions([f.name])
        if status == 'FLOAT':
            continue
        n_inst += 1
        if status == 'GUARDED':
            rep.ok(rule, f.key, 'no path to Return with a possibly-zero divisor', f.where())
        elif status == 'ROOT':
            roots[f.arm].append((f, detail))
        else:
            deps[f.arm].append((f, detail))
    for arm, lst in sorted(deps.items()):
        f, detail = lst[0]
        rep.note('%d function(s) of arm %s only forward a possibly-zero divisor to an unguarded form (%s); counted as dependents, reported at the root cause' % (len(lst), arm, detail))
    for arm, lst in sorted(roots.items()):
        f, detail = lst[0]
        rep.violation(rule, arm + ':unguarded-return',
                      'a zero divisor reaches Return without panicking in %d function(s) of this macro arm, e.g. %s via path: %s' % (len(lst), f.name, detail),
                      f.where())
    return n_inst, len(res)


# ---------------------------------------------------------------- clause (3): shortcut / forwarding table of the primitive forms
import re
from rules import table as TB, prov, provrules as R

PRIM = re.compile(r'^&?(u8|u16|u32|u64|u128|i8|i16|i32|i64|i128|f32|f64|num_bigint::BigInt)$')
KERNEL_SELF = re.compile(r'^&?BigDecimal$|^BigDecimalRef')


def lit_value(t):
    t = TB.deref(t)
    if t[0] == 'const':
        return float(t[1])
    if t[0] == 'lit' and t[1]:
        m = re.match(r'^const (-?[0-9.]+)(_?f32|_?f64)?$', t[1])
        if m:
            return float(m.group(1))
    return None


def closure_const(F, t):
    """closure |n| n == k  ->  k"""
    for s in TB.subterms(t):
        if s[0] == 'closure' and s[1] in F.fns:
            cf = F.fns[s[1]]
            ks = []
            for bid, st in cf.stmts():
                rv = st['rv']
                if rv['r'] == 'bin' and rv['bop'] == 'Eq':
                    for x in (rv['a'], rv['b']):
                        if x['k'] == 'const' and 'int' in x:
                            ks.append(int(x['int']))
            if len(ks) == 1:
                return ks[0]
    return None


def claimed_divisor(F, atoms, dterm, fn=None):
    """value of the divisor established by the path's positive tests, or None"""
    for term, (rel, val) in atoms:
        truth = (rel == 'notin' and val == (0,)) or (rel == 'eq' and val == 1)
        if not truth:
            continue
        tt = TB.strip_refs(term)
        if tt[0] == 'bin' and tt[1] == 'Eq' and fn is not None:
            # checked_neg(d) == Some(k)  (the constant is a promoted Option literal):  d == -k
            for x, y in ((tt[2], tt[3]), (tt[3], tt[2])):
                if x[0] == 'call' and re.search(r'checked_neg$', x[1]) and x[2] and x[2][0] == dterm and y[0] == 'promoted':
                    pv = F.promoted_value(fn, y[1])
                    if pv and pv[0] == 'some-int':
                        return -float(pv[1])
        if tt[0] == 'call' and re.search(r'One::is_one$', TB._plain(tt[1])) and tt[2] and tt[2][0] == dterm:
            return 1.0
        if tt[0] == 'bin' and tt[1] == 'Eq' and tt[2] == dterm and lit_value(tt[3]) is not None:
            return lit_value(tt[3])
        if tt[0] == 'call' and re.search(r'Option::is_some_and$', TB._plain(tt[1])) and tt[2]:
            inner = tt[2][0]
            if inner[0] == 'call' and re.search(r'checked_neg$', inner[1]) and inner[2] and inner[2][0] == dterm:
                k = closure_const(F, term)
                if k is not None:
                    return -float(k)
    return None


def shortcut_table(rep, F, rule='R-TABLE'):
    """primitive / BigInt divisor and numerator forms: the +-1, +-2 shortcuts return self, -self,
    half(), -half(); every other path converts the primitive exactly (From / TryFrom, never `as`)
    and forwards to a decimal division with the operands in order"""
    n = 0
    arms = {}
    for fn in F.real_fns():
        if fn.is_closure or fn.trait != 'std::ops::Div' or fn.argc != 2:
            continue
        t1, t2 = fn.ty(1), fn.ty(2)
        if KERNEL_SELF.match(t1) and KERNEL_SELF.match(t2):
            continue           # decimal / decimal kernels and their ref forwarders: R-GUARD + PROV
        try:
            paths = TB.PathEnum(F, fn, max_paths=64).run()
        except TB.Undecided as e:
            rep.undecided(rule, fn.arm + ':shortcuts', str(e), fn.where())
            continue
        n += 1
        prim_div = PRIM.match(t2) is not None
        d = TB.T('param', 2) if prim_div else TB.T('param', 1)
        a = TB.T('param', 1) if prim_div else TB.T('param', 2)
        A = 'arg1' if prim_div else 'arg2'
        D = 'arg2' if prim_div else 'arg1'
        probs = []
        for atoms, out in paths:
            nf = TB.show(TB.strip_refs(out))
            if nf.startswith("('panic'"):
                continue
            normal_false = any(TB.is_call(t, r'is_normal$') and v == ('eq', 0) for t, v in atoms)
            if normal_false:
                continue      # non-normal float operand: outside the property
            c = claimed_divisor(F, atoms, d, fn)
            if prim_div:
                exp = {1.0: {A}, -1.0: {'neg(%s)' % A}, 2.0: {'half(%s)' % A}, -2.0: {'neg(half(%s))' % A}}
                if c is not None:
                    if c not in exp:
                        probs.append('unexpected shortcut for divisor %s returning %s' % (c, nf))
                    elif nf not in exp[c]:
                        probs.append('divisor == %g must return %s; returns %s' % (c, ' or '.join(exp[c]), nf))
                else:
                    ok = re.match(r'^div\(%s,(from\(%s\)|into\(%s\)|unwrap\(try_from\(%s\)\)|%s)\)$' % (A, D, D, D, D), nf) is not None
                    if not ok:
                        probs.append('general path must be div(%s, exact conversion of %s); it is %s' % (A, D, nf))
            else:
                # primitive numerator: numerator == 1 may route through inverse() (exempt by the property); else exact conversion
                if c == 1.0:
                    if nf not in ('inverse(%s)' % A, 'div(from(%s),%s)' % (D, A)):
                        probs.append('numerator == 1 must return inverse(%s); returns %s' % (A, nf))
                elif c is not None:
                    probs.append('unexpected shortcut for numerator %s' % c)
                else:
                    ok = re.match(r'^div\((from\(%s\)|into\(%s\)|unwrap\(try_from\(%s\)\)|%s),%s\)$' % (D, D, D, D, A), nf) is not None
                    if not ok:
                        probs.append('general path must be div(exact conversion of %s, %s); it is %s' % (D, A, nf))
        arms.setdefault(fn.arm, []).append((fn, probs, len(paths)))
    for arm, lst in sorted(arms.items()):
        bad = [(f, p) for f, p, _ in lst if p]
        if bad:
            f, p = bad[0]
            rep.violation(rule, arm + ':shortcuts', '%d function(s) of this macro arm deviate, e.g. %s: %s' % (len(bad), f.key, p[0]), f.where())
        else:
            rep.ok(rule, arm + ':shortcuts', '%d function(s), %d paths each: shortcuts return self / -self / half() / -half(); other paths convert exactly and divide in order' % (len(lst), lst[0][2]), lst[0][0].where())
    return n


def _by_role(F, nf):
    """the arguments of an impl_division(..) normal form in the order numerator, divisor, scale, precision, whatever
    order the routine declares them in (roles by parameter type: BigInt by value, &BigInt, i64, u64)"""
    fdiv = F.fns.get('impl_division')
    m = re.match(r'^impl_division\((.*)\)$', nf)
    if fdiv is None or not m:
        return nf
    args, depth, cur = [], 0, ''
    for ch in m.group(1):
        if ch == ',' and depth == 0:
            args.append(cur)
            cur = ''
            continue
        depth += ch in '([{'
        depth -= ch in ')]}'
        cur += ch
    args.append(cur)
    tys = fdiv.argtys()
    roles = [[i for i, ty in enumerate(tys) if re.search(pat, ty)] for pat in (r'^(\w+::)*BigInt$', r'^&(\w+::)*BigInt$', r'^i64$', r'^u64$')]
    if len(args) != len(tys) or any(len(r) != 1 for r in roles):
        return nf
    return 'impl_division(%s)' % ','.join(args[r[0]] for r in roles)


def kernel_table(rep, F, rule='R-TABLE'):
    """the three decimal / decimal kernels (owned/owned, owned/ref, ref/ref): every non-panicking path is one of
         x == 0 or y == 1            -> x                         (exact)
         x.int_val == y.int_val      -> 1 at scale(x) - scale(y)  (same signed digits: the quotient of the values is 10^-(sx-sy))
         otherwise                   -> impl_division(x.int_val, &y.int_val, scale(x) - scale(y), DEFAULT_PRECISION)
       a shortcut whose test is not the equality of the two signed integers (e.g. of their magnitudes) returns +1 for -x/x"""
    n = 0
    for fn in F.real_fns():
        if fn.is_closure or fn.trait != 'std::ops::Div' or fn.argc != 2 or not (KERNEL_SELF.match(fn.ty(1)) and KERNEL_SELF.match(fn.ty(2))):
            continue
        if not any(re.search(r'impl_division$', t['callee'].get('resolved') or '') for b, t in fn.calls()):
            continue          # forwarders
        try:
            paths = TB.PathEnum(F, fn, max_paths=64).run()
        except TB.Undecided as e:
            rep.undecided(rule, fn.key + ':kernel-table', str(e), fn.where())
            continue
        n += 1
        probs = []
        undec = []
        for atoms, out in paths:
            nf = TB.show(TB.strip_refs(out))
            if nf.startswith("('panic'"):
                continue
            strs = [(TB.show(TB.strip_refs(a[0])), not (a[1] == ('eq', 0))) for a in atoms]
            # `a != b` false is `a == b` true
            strs = [('Eq' + st[2:], not tv) if st.startswith('Ne(') else (st, tv) for st, tv in strs]
            known = {'is_zero(arg2)', 'is_zero(arg1)', 'is_one(arg2)', 'Eq(arg1.int_val,arg2.int_val)', 'Eq(arg2.int_val,arg1.int_val)'}
            extra = [st for st, tv in strs if st not in known]
            if nf in ('arg1', 'clone(arg1)'):
                if not any(st in ('is_zero(arg1)', 'is_one(arg2)') and tv for st, tv in strs):
                    probs.append('the numerator is returned unchanged on a path that established neither x == 0 nor y == 1')
                continue
            nf1 = re.sub(r'\bone\(\)', 'from(1)', nf)
            m1 = re.match(r'^BigDecimal::BigDecimal\((?:into|from)\((-?\d+)\),(.*)\)$', nf1) or re.match(r'^(?:new|from_bigint)\((?:into|from)\((-?\d+)\),(.*)\)$', nf1)
            if m1:
                eq = [st for st, tv in strs if st.startswith('Eq(') and tv]
                if m1.group(1) != '1' or m1.group(2) != 'Sub(arg1.scale,arg2.scale)':
                    probs.append('the equal-digits shortcut must return 1 at scale(x) - scale(y); it returns %s' % nf[:80])
                elif not any(st in ('Eq(arg1.int_val,arg2.int_val)', 'Eq(arg2.int_val,arg1.int_val)') for st in eq):
                    probs.append('the shortcut returning +1 is not guarded by the equality of the two signed integers (guards: %s): operands of opposite sign with equal digits would divide to +1' % ([st for st, tv in strs if tv and st not in ('is_zero(arg2)',)][:2]))
                continue
            if re.match(r'^impl_division\((clone\()?arg1\.int_val\)?,arg2\.int_val,Sub\(arg1\.scale,arg2\.scale\),\d+\)$', _by_role(F, nf)):
                if extra:
                    probs.append('general path taken under an unrecognised test %s' % extra[0][:60])
                continue
            undec.append('unrecognised outcome %s' % nf[:90])
        key = fn.key + ':kernel-table'
        if probs:
            rep.violation(rule, key, probs[0], fn.where())
        elif undec:
            rep.undecided(rule, key, undec[0], fn.where())
        else:
            rep.ok(rule, key, '%d paths: zero/one shortcuts return x, equal signed digits give 1 at the scale difference, otherwise impl_division(x.int_val, &y.int_val, sx - sy, DEFAULT_PRECISION)' % len(paths), fn.where())
    return n


def remainder_rounded(rep, F, rule='ROUND-REACHED'):
    """Must-pass-through on the division kernel: on every path of impl_division that has divided (div_rem) and returns
    a quotient, either the last test of the remainder found it zero (the quotient is exact) or the rounding term
    (get_rounding_term) was added.  An exit between the first division and the rounding step returns a truncated
    quotient.  Paths are enumerated with loops cut; the recursive sign-normalising calls return before any division."""
    from rules import table as TB
    fn = F.fns.get('impl_division')
    if fn is None:
        return 0
    key = fn.key + ':inexact-quotient-is-rounded'
    try:
        pe = TB.PathEnum(F, fn, max_paths=2000, cut_loops=True)
        paths = pe.run()
    except TB.Undecided as e:
        rep.undecided(rule, key, str(e), fn.where())
        return 0
    ok = 0
    bad = None
    for (atoms, out), eff in zip(paths, pe.effects):
        names = [TB._plain(c) for c, a in eff]
        if not any(re.search(r'div_rem$', c) for c in names):
            continue
        if isinstance(out, tuple) and out and out[0] == 'loop':
            continue                                       # a path cut at a loop head is not a return
        if any(re.search(r'impl_division$', c) for c in names):
            continue                                       # sign normalisation: the recursive call's own paths are these same paths
        if any(re.search(r'get_rounding_term$', c) for c in names):
            ok += 1
            continue
        last = None
        for a, c in atoms:
            s0 = TB.show(TB.strip_refs(a))
            if re.match(r'^(Zero::)?is_zero\(', s0) and not re.match(r'^(Zero::)?is_zero\(arg\d+\)$', s0):      # a test of something computed (the remainder), not of an operand
                last = not (c == ('eq', 0))
        if last is True:
            ok += 1
        elif last is None:
            rep.undecided(rule, key, 'a dividing path returns without a recognisable test of the remainder', fn.where())
            return 1
        else:
            bad = 'a path divides, finds the remainder non-zero and returns the quotient without adding the rounding term: the result is truncated toward zero'
    if bad:
        rep.violation(rule, key, bad, fn.where())
    elif ok:
        rep.ok(rule, key, '%d dividing path(s): each ends with a zero remainder or passes through get_rounding_term' % ok, fn.where())
    else:
        return 0
    return 1


def run(ctx):
    rep = ctx.rep
    rep.explanation = ('Static MIR analysis (no bigdecimal code is executed). R-GUARD: for every Div/DivAssign impl whose divisor is an integer, BigInt or '
                       'decimal, a {MaybeZero,NonZero} dataflow over the CFG shows that no path reaches Return while the divisor may be zero (greatest '
                       'fixed point over the call graph; num-bigint division contracts trusted). PROV-DEFAULTOPS: every division kernel hands the generated '
                       'DEFAULT_PRECISION to impl_division, whose loop consumes it. R-TABLE: the primitive/BigInt operand forms are path-enumerated: the '
                       '+-1 and +-2 shortcuts return self, -self, half(), -half(); all other paths convert the primitive exactly (From/TryFrom) and '
                       'divide with the operands in order. R-SCALE (dims kind with inductive loop invariants): in impl_division the numerator, quotient and remainder stay a constant number of powers of ten from `scale` through both loops and the result is labelled accordingly. NOT decided: the digits of the quotient and its final rounding increment.')
    F = ctx.facts('default', 'rel')
    n, tot = guard_clause(ctx, F, ('std::ops::Div', 'std::ops::DivAssign'))
    rep.floor('Div/DivAssign impl functions with a non-float divisor', n, 102)
    if not hasattr(F, '_prov'):
        F._prov = prov.ProvEngine(F)
    before = len(rep.obs)
    R.default_ops(rep, F, F._prov)
    rep.obs = rep.obs[:before] + [o for o in rep.obs[before:] if 'impl_division' in o['key']]
    ns = shortcut_table(rep, F)
    nk = kernel_table(rep, F)
    rep.floor('decimal/decimal kernels', nk, 3)
    # scale bookkeeping of the division kernel: the digits and the scale stay in step through both loops
    from rules import scale
    from props import exact
    exact.prepare(F)
    fdiv = F.fns.get('impl_division')
    if fdiv is None:
        rep.violation('R-SCALE', 'impl_division:missing', 'anchor function not found (fail closed)')
    else:
        rep.add_functions([fdiv.name])
        # the scale is the routine's only i64 parameter and the numerator its first big integer taken by value, wherever
        # they stand in the parameter list
        tys = fdiv.argtys()
        i64s = [i for i, ty in enumerate(tys, 1) if ty == 'i64']
        nums = [i for i, ty in enumerate(tys, 1) if re.search(r'(^|::)BigInt$', ty)]
        sp, np_ = (i64s[0], nums[0]) if len(i64s) == 1 and nums else (3, 1)
        v, msgs, paths = scale.analyse(fdiv, 'dims', scale_params=(sp,), int_dims={np_: ('par', sp)})
        a = scale.analyse.last
        key = fdiv.key + ':scale-bookkeeping'
        if v == 'ok' and getattr(a, 'loop_ok', 0) >= 2:
            rep.ok('R-SCALE', key, 'all %d paths: with num standing for num*10^-scale, both loops keep every integer a constant number of powers of ten from `scale` (inductive step proved on %d back edges), quotient*10 + q adds equal powers of ten, and the result is labelled with the power of ten of its integer' % (paths, a.loop_ok), fdiv.where())
        elif v == 'violation':
            rep.violation('R-SCALE', key, msgs[0][:400], fdiv.where())
        else:
            rep.undecided('R-SCALE', key, (msgs or ['loop invariants not established'])[0][:200], fdiv.where())
    rep.floor('primitive-operand Div forms', ns, 80)
    nrr = remainder_rounded(rep, F)
    rep.floor('division kernel checked for rounding of an inexact quotient', nrr, 1)
    rep.trust('num-bigint: BigInt/BigUint Div, Rem, div_rem panic on a zero divisor')
    rep.trust('rustc MIR construction and trait resolution (nightly) for the same source the stable build compiles')
