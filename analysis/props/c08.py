"""C08 division: every form refuses a zero divisor (R-GUARD); more clauses are added below."""
import collections
from rules import guard


def guard_clause(ctx, F, families, rule='R-GUARD'):
    rep = ctx.rep
    res = [r for r in guard.run(F) if r[0].trait in families]
    roots = collections.defaultdict(list)
    deps = collections.defaultdict(list)
    n_inst = 0
    for f, status, detail in res:
        rep.add_functions([f.name])
        if status == 'FLOAT':
            continue
        n_inst += 1
        if status == 'GUARDED':
            rep.ok(rule, f.key, 'no path to Return with a possibly-zero divisor', f.where())
        elif status == 'ROOT':
            roots[f.arm].append((f, detail))
        else:
            deps[f.arm].append((f, detail))
    for arm, lst in sorted(deps.items()):
        f, detail = lst[0]
        rep.note('%d function(s) of arm %s only forward a possibly-zero divisor to an unguarded form (%s); counted as dependents, reported at the root cause' % (len(lst), arm, detail))
    for arm, lst in sorted(roots.items()):
        f, detail = lst[0]
        rep.violation(rule, arm + ':unguarded-return',
                      'a zero divisor reaches Return without panicking in %d function(s) of this macro arm, e.g. %s via path: %s' % (len(lst), f.name, detail),
                      f.where())
    return n_inst, len(res)


def run(ctx):
    rep = ctx.rep
    rep.explanation = ('Static MIR analysis (no bigdecimal code is executed). R-GUARD: for every Div/DivAssign impl whose divisor is an '
                       'integer, BigInt or decimal, a {MaybeZero,NonZero} dataflow over the CFG shows that no path reaches Return while the '
                       'divisor may be zero (greatest fixed point over the call graph; num-bigint division contracts trusted).')
    F = ctx.facts('default', 'rel')
    n, tot = guard_clause(ctx, F, ('std::ops::Div', 'std::ops::DivAssign'))
    rep.floor('Div/DivAssign impl functions with a non-float divisor', n, 102)
    rep.trust('num-bigint: BigInt/BigUint Div, Rem, div_rem panic on a zero divisor')
    rep.trust('rustc MIR construction and trait resolution (nightly) for the same source the stable build compiles')
