#!/usr/bin/env python3
"""Regenerates /verif/MANIFEST.json from the per-property table below (single source of truth)."""
import json, os, sys
HERE = os.path.dirname(os.path.abspath(__file__))
VERIF = os.path.dirname(HERE)
sys.path.insert(0, HERE)
from claims import CLAIMS, NOT_APPLICABLE

BASE_OFF = ("cd /repo && cargo nextest run --workspace --no-fail-fast --offline || cargo test --workspace --no-fail-fast --offline")

m = {
    'version': 1,
    'setup_cmd': 'cd /verif/driver && CARGO_NET_OFFLINE=true cargo build --release --offline',
    'hooks': {
        'guard': 'akubera_bigdecimal_rs_verif',
        'enable': 'unused: the analysis is purely static (rustc_private MIR fact extraction under cargo +nightly check); no hook or instrumentation exists in /repo',
        'baseline_off_cmd': BASE_OFF,
        'source_commits': [],
        'add_only': True,
    },
    'engines': [
        {'name': 'bdfacts', 'path': 'driver/', 'serves_properties': sorted(CLAIMS), 'kind_free_text': 'rustc_private driver: dumps type-checked MIR, resolved callees, constants and promoteds of /repo (and build.rs) as JSON facts'},
        {'name': 'rules', 'path': 'analysis/', 'serves_properties': sorted(CLAIMS), 'kind_free_text': 'Python rule engines over the fact base: CFG/dominators/call graph, must-pass-through, panic-site enumeration, provenance, decision tables, dimension typing'},
    ],
    'checks': [],
    'not_applicable': [{'property_id': k, 'reason': v} for k, v in sorted(NOT_APPLICABLE.items())],
    'notes': 'Technique family: static analysis only. Every claim is a partial, structural claim (see DESIGN.md section 3): the named clause is decided for every function/path/call site of the current tree; numeric behaviour of loops is not decided. Fix commits in /repo are listed in known_findings.json under "fixed".',
}
for pid in sorted(CLAIMS):
    c = CLAIMS[pid]
    m['checks'].append({
        'property_id': pid,
        'quick_cmd': './check %s --tier quick' % pid,
        'thorough_cmd': './check %s --tier thorough' % pid,
        'evidence_file': '/verif/evidence/%s.json' % pid,
        'replay_cmd_template': './check %s --explain {path}' % pid,
        'engine': 'bdfacts+rules',
        'level_claimed': {'category': 'other', 'text': c['text'], 'design_ref': c.get('design_ref', 'DESIGN.md section 3 (%s)' % pid)},
        'level_note': c['note'],
        'technique': c['technique'],
    })
with open(os.path.join(VERIF, 'MANIFEST.json'), 'w') as fh:
    json.dump(m, fh, indent=1)
print('MANIFEST.json: %d checks, %d not_applicable' % (len(m['checks']), len(m['not_applicable'])))
