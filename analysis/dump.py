#!/usr/bin/env python3
"""developer aid: pretty-print the MIR facts of functions matching a regex"""
import sys, os, re
sys.path.insert(0, os.path.dirname(os.path.abspath(__file__)))
import extract
from facts import *

def show_rv(rv, fn):
    r = rv['r']
    if r == 'use': return fmt_op(rv['op'], fn)
    if r == 'ref': return '&%s%s' % ('mut ' if rv['mut'] else '', fmt_place(rv['pl'], fn))
    if r == 'bin': return '%s(%s, %s)' % (rv['bop'], fmt_op(rv['a'], fn), fmt_op(rv['b'], fn))
    if r == 'un': return '%s(%s)' % (rv['uop'], fmt_op(rv['a'], fn))
    if r == 'cast': return '%s as %s [%s]' % (fmt_op(rv['op'], fn), rv['to'], rv['kind'])
    if r == 'discr': return 'discr(%s)' % fmt_place(rv['pl'], fn)
    if r == 'agg':
        k = rv['kind']
        nm = k.get('adt', k['a']) + ('::' + k['variant'] if 'variant' in k else '')
        return '%s{%s}' % (nm, ', '.join(fmt_op(o, fn) for o in rv['ops']))
    return rv.get('s', '?')

def dump(fn, F):
    print('fn %s  [%s:%d] argc=%d trait=%s self=%s macros=%s' % (fn.name, fn.file, fn.line, fn.argc, fn.trait_full, fn.self_ty, fn.macros))
    for i, t in enumerate(fn.locals):
        print('    _%d: %s%s' % (i, t, '  // ' + fn.dbg[i] if i in fn.dbg else ''))
    live = fn.live_blocks()
    for bid in sorted(fn.blocks):
        b = fn.blocks[bid]
        if bid not in live: continue
        print('  bb%d:' % bid)
        for st in b['st']:
            if st['s'] == 'assign':
                print('      %s = %s   // L%d' % (fmt_place(st['lhs'], fn), show_rv(st['rv'], fn), st['line']))
            else:
                print('      %s' % st)
        t = b['term']; k = t['t']
        if k == 'call':
            c = t['callee']
            print('      %s = call %s [res=%s](%s) -> bb%s  // L%d' % (fmt_place(t['dest'], fn), c.get('static', c.get('indirect')), c.get('resolved'), ', '.join(fmt_op(a, fn) for a in t['args']), t['to'], t['loc']['line']))
        elif k == 'switch':
            print('      switch %s %s else bb%d' % (fmt_op(t['on'], fn), ['%s->bb%d' % (v, tg) for v, tg in t['targets']], t['otherwise']))
        elif k == 'assert':
            print('      assert %s [%s](%s) -> bb%d  // L%d' % (fmt_op(t['cond'], fn), t['kind'], ', '.join(fmt_op(o, fn) for o in t['ops']), t['to'], t['loc']['line']))
        elif k in ('goto', 'drop'):
            print('      %s -> bb%d' % (k, t['to']))
        else:
            print('      %s' % k)

if __name__ == '__main__':
    import argparse
    ap = argparse.ArgumentParser()
    ap.add_argument('pat'); ap.add_argument('--feat', default='default'); ap.add_argument('--prof', default='rel'); ap.add_argument('--crate', default='bigdecimal')
    ap.add_argument('--names', action='store_true')
    a = ap.parse_args()
    d, info = extract.extract(a.feat, a.prof)
    F = Facts(d, a.crate)
    for fn in sorted(F.fns.values(), key=lambda f: f.name):
        if re.search(a.pat, fn.name):
            if a.names: print(fn.name)
            else: dump(fn, F); print()
