#!/usr/bin/env python3
"""Entry point:  check <Cxx|all> --tier quick|thorough [--explain FILE]"""
import argparse, importlib, json, os, sys, time, traceback

HERE = os.path.dirname(os.path.abspath(__file__))
sys.path.insert(0, HERE)

import extract
from facts import Facts
from report import Report, VIOLATION

PROPS = ['C%02d' % i for i in range(1, 21)]


class Ctx:
    """per-run context: lazily extracted fact bases + the report"""

    def __init__(self, pid, tier, seed, feat_map=None, rep=None):
        self.pid = pid
        self.tier = tier
        self.rep = rep or Report(pid, tier, seed)
        self._facts = {}
        self.repo = extract.REPO
        self.feat_map = feat_map or {}

    def facts(self, feat='default', prof='rel', crate='bigdecimal', extra_env=None):
        feat = self.feat_map.get(feat, feat)
        envk = tuple(sorted((extra_env or {}).items()))
        k = (feat, prof, crate, envk)
        if k not in self._facts:
            d, info = extract.extract(feat, prof, extra_env=extra_env)
            F = Facts(d, crate)
            F.info = info
            self._facts[k] = F
            self.rep.configs.append({'features': feat, 'profile': prof, 'crate': crate, 'env': info['env'],
                                     'bodies': len(F.fns), 'cached': info.get('cached'), 'extract_s': info.get('extract_s'),
                                     'renamed_functions_analysed_under_reference_names': dict(getattr(F, 'aliases', {}))})
        return self._facts[k]


def run_one(pid, tier, seed):
    ctx = Ctx(pid, tier, seed)
    try:
        mod = importlib.import_module('props.%s' % pid.lower())
    except ImportError as e:
        print('no check implemented for %s (%s)' % (pid, e))
        return 2
    try:
        mod.run(ctx)
        if tier == 'thorough':
            thorough_extra(ctx, mod, seed)
    except extract.ExtractionError as e:
        print('ERROR: %s' % e)
        ctx.rep.ob('EXTRACT', 'extraction', VIOLATION, 'fact extraction failed: the tree does not compile under the driver: %s' % e)
    except Exception:
        tb = traceback.format_exc()
        sys.stderr.write(tb)
        ctx.rep.ob('INTERNAL', 'checker-crash', VIOLATION, 'checker raised an exception (fail closed): ' + tb.splitlines()[-1])
    return ctx.rep.finish()


EXTRA_CONFIGS = {'default': ['serde', 'nostd'], 'serde': ['serde-string']}


def thorough_extra(ctx, mod, seed):
    """thorough tier: (1) the same rules on the other feature configurations; (2) the canary self-test:
    every seeded defect of this property must be reported under its expected key on a scratch copy"""
    import subprocess
    rep = ctx.rep
    base_feats = {c['features'] for c in rep.configs}
    for base in sorted(base_feats):
        for other in EXTRA_CONFIGS.get(base, []):
            sub = Ctx(ctx.pid, 'quick', seed, feat_map={base: other})
            try:
                mod.run(sub)
            except Exception as e:      # fail closed
                rep.violation('CONFIG', 'config=%s' % other, 'rules crashed under feature configuration %s: %r' % (other, e))
                continue
            rep.configs += sub.rep.configs
            bad = [o for o in sub.rep.obs if o['status'] == VIOLATION]
            for o in bad:
                o = dict(o)
                o['key'] = o['key'] + '@' + other
                o['detail'] = '[feature configuration %s] %s' % (other, o['detail'])
                rep.obs.append(o)
            if not bad:
                c = sub.rep.counts()
                rep.ok('CONFIG', 'config=%s' % other, 'same rules under feature configuration %s: %d obligations, %d discharged, %d reviewed, %d known, 0 violations'
                       % (other, len(sub.rep.obs), c['discharged'], c['reviewed'], c['known-finding']))
    # canary self-test
    p = subprocess.run([sys.executable, os.path.join(HERE, 'canary.py'), '--prop', ctx.pid, '--jobs', '8'],
                       stdout=subprocess.PIPE, stderr=subprocess.STDOUT, text=True, cwd=os.path.dirname(HERE))
    lines = [l for l in p.stdout.splitlines() if l.strip()]
    summary = {}
    try:
        summary = json.loads(lines[-1])
    except Exception:
        pass
    results = []
    for l in lines[:-1]:
        parts = l.split(None, 2)
        if len(parts) >= 2:
            results.append({'status': parts[0], 'canary': parts[1], 'why': parts[2] if len(parts) > 2 else ''})
    rep.extra['canaries'] = results
    for r in results:
        key = 'canary:%s' % r['canary']
        if r['status'] == 'caught':
            rep.ok('CANARY', key, 'seeded defect reported under its expected key on a scratch copy of /repo')
        elif r['status'] == 'skipped':
            rep.note('canary %s skipped: %s' % (r['canary'], r['why'][:120]))
        elif r['status'] == 'broken-canary':
            rep.note('canary %s does not compile any more: skipped' % r['canary'])
        else:
            rep.violation('CANARY', key, 'the checker no longer detects a seeded defect it is supposed to detect (self-test): %s' % r['why'][:300])
    if summary.get('total', 0) == 0:
        rep.note('no canary registered for this property')


def main():
    ap = argparse.ArgumentParser()
    ap.add_argument('prop')
    ap.add_argument('--tier', default=os.environ.get('VERIF_TIER', 'quick'), choices=['quick', 'thorough'])
    ap.add_argument('--explain', default=None)
    a = ap.parse_args()
    seed = int(os.environ.get('VERIF_SEED', '0') or 0)
    if a.explain:
        with open(a.explain) as fh:
            v = json.load(fh)
        print(json.dumps(v, indent=1))
        pid = v['key'].split(':')[0]
        print('--- re-deriving %s on the current tree' % pid)
        return run_one(pid, a.tier, seed)
    props = PROPS if a.prop == 'all' else [a.prop.upper()]
    rc = 0
    for p in props:
        r = run_one(p, a.tier, seed)
        rc = max(rc, r)
    return rc


if __name__ == '__main__':
    sys.exit(main())
