#!/usr/bin/env python3
"""Entry point:  check <Cxx|all> --tier quick|thorough [--explain FILE]"""
import argparse, importlib, json, os, sys, time, traceback

HERE = os.path.dirname(os.path.abspath(__file__))
sys.path.insert(0, HERE)

import extract
from facts import Facts
from report import Report, VIOLATION

PROPS = ['C%02d' % i for i in range(1, 21)]


class Ctx:
    """per-run context: lazily extracted fact bases + the report"""

    def __init__(self, pid, tier, seed):
        self.pid = pid
        self.tier = tier
        self.rep = Report(pid, tier, seed)
        self._facts = {}
        self.repo = extract.REPO

    def facts(self, feat='default', prof='rel', crate='bigdecimal', extra_env=None):
        envk = tuple(sorted((extra_env or {}).items()))
        k = (feat, prof, crate, envk)
        if k not in self._facts:
            d, info = extract.extract(feat, prof, extra_env=extra_env)
            F = Facts(d, crate)
            F.info = info
            self._facts[k] = F
            self.rep.configs.append({'features': feat, 'profile': prof, 'crate': crate, 'env': info['env'],
                                     'bodies': len(F.fns), 'cached': info.get('cached'), 'extract_s': info.get('extract_s')})
        return self._facts[k]


def run_one(pid, tier, seed):
    ctx = Ctx(pid, tier, seed)
    try:
        mod = importlib.import_module('props.%s' % pid.lower())
    except ImportError as e:
        print('no check implemented for %s (%s)' % (pid, e))
        return 2
    try:
        mod.run(ctx)
    except extract.ExtractionError as e:
        print('ERROR: %s' % e)
        ctx.rep.ob('EXTRACT', 'extraction', VIOLATION, 'fact extraction failed: the tree does not compile under the driver: %s' % e)
    except Exception:
        tb = traceback.format_exc()
        sys.stderr.write(tb)
        ctx.rep.ob('INTERNAL', 'checker-crash', VIOLATION, 'checker raised an exception (fail closed): ' + tb.splitlines()[-1])
    return ctx.rep.finish()


def main():
    ap = argparse.ArgumentParser()
    ap.add_argument('prop')
    ap.add_argument('--tier', default=os.environ.get('VERIF_TIER', 'quick'), choices=['quick', 'thorough'])
    ap.add_argument('--explain', default=None)
    a = ap.parse_args()
    seed = int(os.environ.get('VERIF_SEED', '0') or 0)
    if a.explain:
        with open(a.explain) as fh:
            v = json.load(fh)
        print(json.dumps(v, indent=1))
        pid = v['key'].split(':')[0]
        print('--- re-deriving %s on the current tree' % pid)
        return run_one(pid, a.tier, seed)
    props = PROPS if a.prop == 'all' else [a.prop.upper()]
    rc = 0
    for p in props:
        r = run_one(p, a.tier, seed)
        rc = max(rc, r)
    return rc


if __name__ == '__main__':
    sys.exit(main())
