"""Obligation ledger, known-finding handling, evidence writer."""
import json, os, sys, time

VERIF = os.path.dirname(os.path.dirname(os.path.abspath(__file__)))

OK, REVIEWED, UNDECIDED, VIOLATION, KNOWN = 'discharged', 'reviewed', 'undecided', 'violation', 'known-finding'


class Report:
    def __init__(self, pid, tier, seed=0):
        self.pid = pid
        self.tier = tier
        self.seed = seed
        self.t0 = time.time()
        self.obs = []           # dicts: rule,key,status,detail,where
        self.notes = []
        self.floors = []
        self.configs = []
        self.assumptions = []
        self.trusted = []
        self.entries = {}
        self.explanation = ''
        self.extra = {}
        self.functions = set()
        self.call_sites = 0
        kf = os.path.join(VERIF, 'known_findings.json')
        self.known = {}
        self.fixed = []
        if os.path.exists(kf):
            with open(kf) as fh:
                d = json.load(fh)
            for f in d.get('findings', []):
                if f['property'] == pid:
                    self.known[f['key']] = f
            self.fixed = [f for f in d.get('fixed', []) if f['property'] == pid]
        self.known_hit = set()

    # ---- recording
    def ob(self, rule, key, status, detail='', where=''):
        """record one obligation. key is structural (no line numbers); where is for the reader."""
        full = '%s:%s:%s' % (self.pid, rule, key)
        if status == VIOLATION and full in self.known:
            status = KNOWN
            self.known_hit.add(full)
        self.obs.append({'rule': rule, 'key': full, 'status': status, 'detail': detail, 'where': where})
        return status

    def ok(self, rule, key, detail='', where=''):
        return self.ob(rule, key, OK, detail, where)

    def reviewed(self, rule, key, detail='', where=''):
        return self.ob(rule, key, REVIEWED, detail, where)

    def undecided(self, rule, key, detail='', where=''):
        return self.ob(rule, key, UNDECIDED, detail, where)

    def violation(self, rule, key, detail='', where=''):
        return self.ob(rule, key, VIOLATION, detail, where)

    def note(self, s):
        self.notes.append(s)

    def undecided_anchor(self, rule, key, detail='', where=''):
        """the whole anchor function could not be put into the form a rule reads (a loop where the rule enumerates paths,
        too many paths, ...): its obligations are undecided as a block.  The next floor() call does not mistake the
        missing instances for a vanished anchor"""
        self._anchor_undecided = getattr(self, '_anchor_undecided', 0) + 1
        return self.ob(rule, key, UNDECIDED, detail, where)

    def floor(self, what, count, confirmed):
        """fail closed when a rule's instance count is zero or below half of what was confirmed by hand"""
        ok = count > 0 and count * 2 >= confirmed
        blocked = getattr(self, '_anchor_undecided', 0)
        if not ok and blocked:
            self._anchor_undecided = blocked - 1
            self.floors.append({'what': what, 'count': count, 'confirmed_at_design_time': confirmed, 'ok': True,
                                'note': 'short of the confirmed count because %d anchor(s) are undecided as a block (present, but not in the form the rule reads)' % blocked})
            return True
        self.floors.append({'what': what, 'count': count, 'confirmed_at_design_time': confirmed, 'ok': ok})
        if not ok:
            self.ob('FLOOR', what, VIOLATION,
                    'instance count %d fell below half of the %d confirmed by hand: extraction or selection broken' % (count, confirmed))
        return ok

    def assume(self, s):
        if s not in self.assumptions:
            self.assumptions.append(s)

    def trust(self, s):
        if s not in self.trusted:
            self.trusted.append(s)

    def add_functions(self, names):
        self.functions.update(names)

    # ---- finishing
    def counts(self):
        c = {OK: 0, REVIEWED: 0, UNDECIDED: 0, VIOLATION: 0, KNOWN: 0}
        for o in self.obs:
            c[o['status']] += 1
        return c

    def finish(self):
        c = self.counts()
        viols = [o for o in self.obs if o['status'] == VIOLATION]
        knowns = [o for o in self.obs if o['status'] == KNOWN]
        evdir = os.environ.get('VERIF_EVIDENCE_DIR') or os.path.join(VERIF, 'evidence')
        os.makedirs(evdir, exist_ok=True)
        vdir = os.path.join(evdir, 'violations')
        replay = []
        if viols:
            os.makedirs(vdir, exist_ok=True)
            for i, v in enumerate(viols):
                p = os.path.join(vdir, '%s-%d.json' % (self.pid, i))
                with open(p, 'w') as fh:
                    json.dump(v, fh, indent=1)
                replay.append(p)
        samples = []
        seen_rules = {}
        for o in self.obs:
            n = seen_rules.get((o['rule'], o['status']), 0)
            if n < 3:
                seen_rules[(o['rule'], o['status'])] = n + 1
                samples.append({k: o[k] for k in ('rule', 'key', 'status', 'where', 'detail')})
        samples = samples[:40]
        by_rule = {}
        for o in self.obs:
            r = by_rule.setdefault(o['rule'], {})
            r[o['status']] = r.get(o['status'], 0) + 1
        distinct = len({o['key'] for o in self.obs})
        ev = {
            'property_id': self.pid,
            'tier': self.tier,
            'seed': self.seed,
            'level': 'other',
            'coverage': {
                'explanation': self.explanation,
                'obligations': len(self.obs),
                'discharged': c[OK],
                'reviewed': c[REVIEWED],
                'undecided': c[UNDECIDED],
                'known_findings': c[KNOWN],
                'violations': c[VIOLATION],
                'evaluations': max(1, len(self.obs)),
                'distinct_nontrivial': distinct,
                'rule': 'one obligation per (rule, function or macro arm, structural site descriptor) instance found in the MIR fact base of the current tree; distinct = distinct keys',
                'by_rule': by_rule,
                'functions_analysed': len(self.functions),
                'call_sites': self.call_sites,
                'entries': self.entries,
                'configs': self.configs,
                'floors': self.floors,
                'samples': samples,
                'undecided_list': [{'key': o['key'], 'detail': o['detail']} for o in self.obs if o['status'] == UNDECIDED][:60],
                'known_finding_list': [{'key': o['key'], 'where': o['where'], 'detail': o['detail']} for o in knowns],
                'fixed_findings_on_record': self.fixed,
                'notes': self.notes[:80],
                'trusted_base': self.trusted,
                'checker_cmd': './check %s --tier %s' % (self.pid, self.tier),
                'exhaustive': False,
            },
            'assumptions': self.assumptions,
            'wall_s': round(time.time() - self.t0, 2),
            'violations': len(viols),
        }
        ev['coverage'].update(self.extra)
        tmp = os.path.join(evdir, '.%s.json.tmp%d' % (self.pid, os.getpid()))
        with open(tmp, 'w') as fh:
            json.dump(ev, fh, indent=1, default=str)
        os.rename(tmp, os.path.join(evdir, '%s.json' % self.pid))
        # ---- console
        print('[%s %s] obligations=%d discharged=%d reviewed=%d undecided=%d known=%d violations=%d functions=%d wall=%.1fs' % (
            self.pid, self.tier, len(self.obs), c[OK], c[REVIEWED], c[UNDECIDED], c[KNOWN], c[VIOLATION], len(self.functions), time.time() - self.t0))
        for r, d in sorted(by_rule.items()):
            print('   rule %-22s %s' % (r, ' '.join('%s=%d' % kv for kv in sorted(d.items()))))
        for n in self.notes[:12]:
            print('   note: ' + n)
        done = set()
        for o in knowns:
            if o['key'] in done:
                continue
            done.add(o['key'])
            kf = self.known.get(o['key'], {})
            print('KNOWN-FINDING: property=%s %s [%s] %s' % (self.pid, kf.get('what', o['detail']), o['key'], o['where']))
        for o, p in zip(viols, replay):
            print('  violation: %s  %s\n      %s' % (o['key'], o['where'], o['detail']))
            print('VIOLATION property=%s replay=%s' % (self.pid, p))
        return 1 if viols else 0
