"""Fact base loader: functions, CFG helpers, dominators, call graph (engine E2 core)."""
import json, os, re, collections

INT_TYPES = ('u8', 'u16', 'u32', 'u64', 'u128', 'usize', 'i8', 'i16', 'i32', 'i64', 'i128', 'isize')
INT_RE = re.compile(r'\b(u8|u16|u32|u64|u128|i8|i16|i32|i64|i128|usize|isize)\b')
FLOAT_RE = re.compile(r'\b(f32|f64)\b')
LIFETIME_RE = re.compile(r"'[a-z_][a-z0-9_]*\s*")


def strip_lt(ty):
    """remove lifetimes from a printed type"""
    return LIFETIME_RE.sub('', ty).replace('<>', '')


def arm_key(name):
    """macro-arm key: integer/float widths abstracted, lifetimes and module prefix of impl paths removed"""
    k = _strip_modules(strip_lt(name))
    k = INT_RE.sub('{int}', k)
    k = FLOAT_RE.sub('{float}', k)
    return k


def _strip_modules(k):
    """drop the module path in front of a free function, an impl block or a type: moving an item
    between modules must not change its key"""
    k = re.sub(r'^[a-z_:]+::<impl', '<impl', k)
    k = re.sub(r'^(?:[a-z_][a-z0-9_]*::)+(?=[A-Z])', '', k)
    k = re.sub(r'^(?:[a-z_][a-z0-9_]*::)+(?=[a-z_][A-Za-z0-9_]*(?:::\{closure#\d+\})*$)', '', k)
    return k


def stable_key(name):
    return _strip_modules(strip_lt(name))


def norm_ty(t):
    t = strip_lt(t or '')
    t = t.replace('&mut ', '&').replace(' ', '')
    t = re.sub(r'\b(?:[a-z_][a-z0-9_]*::)+', '', t)   # drop module paths
    return t


def split_top(s):
    """split a generic argument list at top-level commas"""
    out, depth, cur = [], 0, ''
    for ch in s:
        if ch in '<([':
            depth += 1
        elif ch in '>)]':
            depth -= 1
        if ch == ',' and depth == 0:
            out.append(cur.strip())
            cur = ''
        else:
            cur += ch
    if cur.strip():
        out.append(cur.strip())
    return out


def ty_unify(pattern, concrete, generics):
    """pattern (from an impl header, may mention the impl's generic parameters) vs a concrete printed type"""
    if pattern == concrete:
        return True
    p = pattern.lstrip('&')
    if p in generics or pattern in generics:
        return True
    if concrete in generics:
        return True
    # compare head constructors, ignoring generic arguments
    hp = re.sub(r'<.*$', '', pattern)
    hc = re.sub(r'<.*$', '', concrete)
    if hp == hc and ('<' in pattern or '<' in concrete):
        return True
    return False


class Fn:
    def __init__(self, d):
        self.d = d
        self.name = d['name']
        self.blocks = {b['id']: b for b in d['blocks']}
        self.locals = d['locals']
        self.argc = d['argc']
        self.kind = d['kind']
        self.trait = d.get('impl_trait_def')
        self.trait_full = d.get('impl_trait')
        self.self_ty = strip_lt(d.get('impl_self', '')) if d.get('impl_self') else None
        self.item = d.get('item')
        self.span = d['span']
        self.file = d['span']['file']
        self.line = d['span']['line']
        self.macros = d.get('macros', [])
        self.vis = d.get('vis')
        self.dbg = {int(k): v for k, v in d.get('dbg', {}).items()}
        self.is_promoted = '::promoted[' in self.name
        self.is_closure = self.kind == 'Closure'
        self.key = stable_key(self.name)
        self.arm = arm_key(self.name)
        self._preds = None
        self._dom = None
        self._live = None
        self._defcount = None

    def __repr__(self):
        return '<Fn %s>' % self.name

    def ty(self, i):
        return strip_lt(self.locals[i])

    def argtys(self):
        return [self.ty(i) for i in range(1, self.argc + 1)]

    def where(self, line=None):
        return '%s:%d' % (self.file, line if line is not None else self.line)

    # ----- CFG
    def succ(self, bid):
        t = self.blocks[bid]['term']
        k = t['t']
        if k == 'goto':
            return [t['to']]
        if k == 'switch':
            c = self._const_switch(bid, t)
            if c is not None:
                for v, tg in t['targets']:
                    if int(v) == c:
                        return [tg]
                return [t['otherwise']]
            return [x[1] for x in t['targets']] + [t['otherwise']]
        if k in ('drop', 'assert'):
            return [t['to']]
        if k == 'call':
            return [t['to']] if t['to'] is not None else []
        return []

    def _const_switch(self, bid, t):
        """value of a switch discriminant that is a literal constant (e.g. `cfg!(debug_assertions)`
        lowered to `_x = const false; switchInt(move _x)` at mir-opt-level 0), else None"""
        on = t['on']
        if on['k'] == 'const':
            return int(on['int']) if 'int' in on else None
        if on['k'] in ('copy', 'move') and not on['pl']['p']:
            l = on['pl']['l']
            val = None
            for st in self.blocks[bid]['st']:
                if st['s'] == 'assign' and st['lhs']['l'] == l and not st['lhs']['p']:
                    rv = st['rv']
                    if rv['r'] == 'use' and rv['op']['k'] == 'const' and 'int' in rv['op'] and 'named' not in rv['op']:
                        val = int(rv['op']['int'])
                    else:
                        val = None
            if val is not None and self._def_count(l) == 1:
                return val
        return None

    def _def_count(self, l):
        if self._defcount is None:
            c = collections.Counter()
            for b in self.blocks.values():
                for st in b['st']:
                    if st['s'] == 'assign':
                        c[st['lhs']['l']] += 1
                tt = b['term']
                if tt['t'] == 'call':
                    c[tt['dest']['l']] += 1
            self._defcount = c
        return self._defcount[l]

    def live_blocks(self):
        """non-cleanup blocks reachable from entry"""
        if self._live is not None:
            return self._live
        seen = set()
        st = [0]
        while st:
            b = st.pop()
            if b in seen or self.blocks[b]['cleanup']:
                continue
            seen.add(b)
            st.extend(self.succ(b))
        self._live = seen
        return seen

    def preds(self):
        if self._preds is None:
            p = collections.defaultdict(list)
            for b in self.live_blocks():
                for s in self.succ(b):
                    p[s].append(b)
            self._preds = p
        return self._preds

    def dominators(self):
        """dict block -> set of dominating blocks (incl. itself), over live blocks"""
        if self._dom is None:
            live = self.live_blocks()
            order = sorted(live)
            dom = {b: set(live) for b in live}
            dom[0] = {0}
            preds = self.preds()
            changed = True
            while changed:
                changed = False
                for b in order:
                    if b == 0:
                        continue
                    ps = [p for p in preds.get(b, []) if p in live]
                    new = set.intersection(*(dom[p] for p in ps)) if ps else set()
                    new = new | {b}
                    if new != dom[b]:
                        dom[b] = new
                        changed = True
            self._dom = dom
        return self._dom

    def returns(self):
        return [b for b in self.live_blocks() if self.blocks[b]['term']['t'] == 'return']

    def calls(self):
        """yield (block id, terminator) for every call in live non-cleanup blocks"""
        for b in sorted(self.live_blocks()):
            t = self.blocks[b]['term']
            if t['t'] == 'call':
                yield b, t

    def stmts(self):
        for b in sorted(self.live_blocks()):
            for st in self.blocks[b]['st']:
                if st['s'] == 'assign':
                    yield b, st

    def has_loop(self):
        live = self.live_blocks()
        color = {}
        stack = [(0, iter(self.succ(0)))]
        color[0] = 1
        while stack:
            b, it = stack[-1]
            adv = False
            for s in it:
                if s not in live:
                    continue
                if color.get(s) == 1:
                    return True
                if s not in color:
                    color[s] = 1
                    stack.append((s, iter(self.succ(s))))
                    adv = True
                    break
            if not adv:
                color[b] = 2
                stack.pop()
        return False


def cdef(t):
    """statically named callee def path (no generic args), '' for indirect calls"""
    return t['callee'].get('def', '')


def cres(t):
    """resolved instance def path if resolution succeeded, else the static def path"""
    c = t['callee']
    return c.get('resolved') or c.get('def', '')


def ctrait(t):
    return t['callee'].get('trait', '')


def op_local(o):
    """local index of a bare-local operand, else None"""
    if o['k'] in ('copy', 'move') and not o['pl']['p']:
        return o['pl']['l']
    return None


def op_base(o):
    if o['k'] in ('copy', 'move'):
        return o['pl']['l']
    return None


def fields_of(pl):
    return [p['n'] for p in pl['p'] if isinstance(p, dict) and 'f' in p]


def fmt_place(pl, fn=None):
    l = pl['l']
    s = '_%d' % l
    if fn is not None and l in fn.dbg:
        s = fn.dbg[l]
    for p in pl['p']:
        if p == '*':
            s = '(*%s)' % s
        elif 'f' in p:
            s = '%s.%s' % (s, p['n'])
        elif 'dc' in p:
            s = '(%s as %s)' % (s, p['dc'])
        else:
            s = '%s[..]' % s
    return s


def fmt_op(o, fn=None):
    if o['k'] in ('copy', 'move'):
        return fmt_place(o['pl'], fn)
    if o['k'] == 'const':
        if 'named' in o:
            return o['named']
        return o.get('s', '?')
    return '?'


class Facts:
    def __init__(self, fdir, crate='bigdecimal'):
        path = os.path.join(fdir, crate + '.json')
        with open(path) as fh:
            txt = fh.read()
        # no_std builds print std-facade paths as core:: / alloc::; normalise so rules see one spelling
        txt = re.sub(r'\b(?:core|alloc)::(?=[a-z_]+::|[A-Z])', 'std::', txt)
        self.raw = json.loads(txt)
        # crate-internal functions that were merely renamed are analysed under their reference names (alias.py)
        self.aliases = {}
        if crate == 'bigdecimal':
            import alias
            ref_adts = alias.ref_table().get('__adts__', {})
            ta = alias.find_type_aliases(self.raw, ref_adts) if ref_adts else {}
            if ta:
                txt = alias.apply(txt, ta)
                self.raw = json.loads(txt)
                self.aliases.update({'type ' + k: v for k, v in ta.items()})
            fa = alias.field_aliases(self.raw, ref_adts) if ref_adts else {}
            if fa:
                alias.rename_fields(self.raw, fa)
                txt = json.dumps(self.raw)
                self.aliases.update({'field %s.%s' % k: v for k, v in fa.items()})
            fn_al = alias.find_aliases(self.raw)
            if fn_al:
                txt = alias.apply(txt, fn_al)
                self.raw = json.loads(txt)
                self.aliases.update(fn_al)
            # helpers that did not exist in the reference tree are analysed inlined into their callers (inline.py)
            ref_names = {k for k in alias.ref_table() if not k.startswith('__')}
            if ref_names:
                import inline
                callers_before = {}
                for b in self.raw['bodies']:
                    for _bl, _t, c in inline._calls(b):
                        callers_before.setdefault(inline._plain(c), set()).add(b['name'])
                inl = inline.inline_new_helpers(self.raw, ref_names)
                if inl:
                    txt = json.dumps(self.raw)
                    for h in inl:
                        cs = callers_before.get(inline._plain(h), set())
                        self.aliases['inlined ' + h] = 'into ' + ', '.join(sorted(cs))
                        if len(cs) == 1:
                            # closures of a helper with a single caller become closures of that caller
                            c0 = next(iter(cs))
                            k0 = 100 + 10 * len(self.aliases)
                            txt = re.sub(re.escape(h) + r'::\{closure#(\d+)\}', lambda m: '%s::{closure#%d}' % (c0, k0 + int(m.group(1))), txt)
                    self.raw = json.loads(txt)
        if crate == 'build_script_build':
            import alias, inline
            bnames = set(alias.ref_table().get('__build__', []))
            if bnames:
                inl = inline.inline_new_helpers(self.raw, bnames)
                for h in inl:
                    self.aliases['inlined ' + h] = 'into its callers'
        self.crate = crate
        self.out_dir = self.raw.get('out_dir', '')
        self.fns = {}
        for b in self.raw['bodies']:
            self.fns[b['name']] = Fn(b)
        self.consts = {c['name']: c for c in self.raw.get('consts', [])}
        self._closures = collections.defaultdict(list)
        for n in self.fns:
            m = re.match(r'^(.*?)::\{closure#\d+\}', n)
            if m and '::promoted[' not in n:
                self._closures[m.group(1)].append(n)
        self._cg = None
        self._inst = {}
        self._ct = {}
        self._by_trait = collections.defaultdict(list)
        for f in self.fns.values():
            if f.trait and not f.is_promoted and not f.is_closure:
                self._by_trait[f.trait].append(f)

    def real_fns(self):
        return [f for f in self.fns.values() if not f.is_promoted]

    def find(self, pat):
        r = re.compile(pat)
        return sorted((f for f in self.real_fns() if r.search(f.name)), key=lambda f: f.name)

    def one(self, pat):
        l = self.find(pat)
        return l[0] if len(l) == 1 else None

    def impls(self, trait, self_pat=None):
        out = [f for f in self._by_trait.get(trait, [])]
        if self_pat is not None:
            r = re.compile(self_pat)
            out = [f for f in out if r.search(f.self_ty or '')]
        return sorted(out, key=lambda f: f.name)

    def closures_of(self, name):
        return list(self._closures.get(name, []))

    def promoted(self, fn, i):
        return self.fns.get('%s::promoted[%d]' % (fn.name, i))

    def promoted_value(self, fn, i):
        """value description of promoted constant: ('int', v) | ('variant', adt, name) | ('array',[ints]) | None"""
        p = self.promoted(fn, i)
        if p is None:
            return None
        for b in p.blocks.values():
            for st in b['st']:
                if st['s'] != 'assign':
                    continue
                rv = st['rv']
                if rv['r'] == 'use' and rv['op']['k'] == 'const':
                    o = rv['op']
                    if 'int' in o:
                        return ('int', int(o['int']))
                    if o.get('named'):
                        arr = self.const_array(o['named'])
                        if arr is not None:
                            return ('array', arr)
                    return ('lit', o.get('s'))
                if rv['r'] == 'agg':
                    k = rv['kind']
                    if k['a'] == 'adt':
                        # Some(<integer literal>) carries its payload along
                        if str(k.get('variant')) in ('Some', '1') and str(k.get('adt', '')).endswith('Option') and len(rv['ops']) == 1 and rv['ops'][0].get('k') == 'const' and 'int' in rv['ops'][0]:
                            return ('some-int', int(rv['ops'][0]['int']))
                        return ('variant', k['adt'], k['variant'])
                    if k['a'] == 'array':
                        return ('array', [int(o['int']) if 'int' in o else None for o in rv['ops']])
        return None

    def const_array(self, name):
        """the integer elements of a module-level `const NAME: [uN; K] = [ ... ];`, read from the item's source text (the
        driver records the item's position but does not evaluate array constants)"""
        c = self.consts.get(name) or next((v for k, v in self.consts.items() if k.endswith('::' + name.split('::')[-1])), None)
        if c is None or not re.match(r'^\[[ui](8|16|32|64|128|size); *\d+\]$', str(c.get('ty', ''))):
            return None
        try:
            import extract
            with open(os.path.join(extract.REPO, c['span']['file'])) as fh:
                lines = fh.read().split('\n')
            txt = '\n'.join(lines[c['span']['line'] - 1:c['span']['line'] + 400])
            m = re.search(r'=\s*\[(.*?)\]\s*;', txt, re.S)
            if not m:
                return None
            body = re.sub(r'//[^\n]*', '', m.group(1))
            vals = [int(re.sub(r'_|[ui](8|16|32|64|128|size)$', '', x.strip()), 0) for x in body.split(',') if x.strip()]
            want = int(re.search(r';\s*(\d+)\]', c['ty']).group(1))
            return vals if len(vals) == want else None
        except Exception:
            return None

    # ----- call graph
    def find_impls(self, trait, self_ty=None, item=None, trait_arg=None):
        """local impl methods of `trait` (def path) for self type `self_ty` (printed, lifetimes ignored;
        None = any; a generic parameter name = any); `trait_arg` = first generic arg of the trait"""
        out = []
        want_self = norm_ty(self_ty) if self_ty else None
        for g in self._by_trait.get(trait, []):
            if item is not None and g.item != item:
                continue
            gens = set(g.d.get('generics', []))
            if want_self is not None:
                st = norm_ty(g.self_ty or '')
                if not ty_unify(st, want_self, gens):
                    continue
            if trait_arg is not None and g.trait_full:
                m = re.match(r'^[^<]*<(.*)>$', strip_lt(g.trait_full))
                ta = split_top(m.group(1))[0] if m else None
                if ta is None:
                    # trait has a defaulted Rhs = Self
                    ta = g.self_ty
                if not ty_unify(norm_ty(ta), norm_ty(trait_arg), gens):
                    continue
            out.append(g)
        return out

    def instantiations(self, fn):
        """for a generic local function (or a closure inside one): {param name: set of concrete printed
        types it is instantiated with at the crate's own call sites}; a param maps to None when some
        call site passes another type parameter / the function is public API reachable with any type"""
        root = re.sub(r'::\{closure#\d+\}.*$', '', fn.name)
        if root in self._inst:
            return self._inst[root]
        rf = self.fns.get(root)
        gens = list(rf.d.get('generics', [])) if rf else []
        res = {g: set() for g in gens}
        self._inst[root] = res
        if not gens:
            return res
        public = rf is not None and (rf.vis == 'Public' or rf.trait is not None)
        for caller in self.real_fns():
            cgens = set(caller.d.get('generics', []))
            sites = []
            for _, t in caller.calls():
                c = t['callee']
                if c.get('def') == root or c.get('resolved') == root:
                    sites.append(c.get('gargs', []))
                # the function handed over as a value (`.map_err(helper)`): its type arguments are fixed there
                for a in t['args']:
                    if a.get('k') == 'const' and a.get('fn_def') == root:
                        sites.append(a.get('fn_gargs') or [])
            for gargs_ in sites:
                targs = [strip_lt(x) for x in gargs_ if not x.startswith("'")]
                if len(targs) != len(gens):
                    for g in gens:
                        res[g] = None
                    continue
                for g, a in zip(gens, targs):
                    if res[g] is None:
                        continue
                    if a in cgens or a.lstrip('&') in cgens:
                        sub = self.instantiations(caller).get(a.lstrip('&'))
                        if sub is None:
                            res[g] = None
                        else:
                            res[g] |= sub
                    else:
                        res[g].add(a)
        if public:
            for g in gens:
                res[g] = None
        return res

    def call_targets(self, fn, t):
        """local functions a call terminator may enter (directly, or through a std/serde trampoline)"""
        ck = (fn.name, id(t))
        if ck in self._ct:
            return self._ct[ck]
        out = self._call_targets(fn, t)
        self._ct[ck] = out
        return out

    def _call_targets(self, fn, t):
        c = t['callee']
        out = set()
        for a in t['args']:
            if a.get('k') == 'const' and a.get('fn_def') in self.fns:
                out.add(a['fn_def'])
        if 'def' not in c:
            return out
        r = c.get('resolved')
        if r and r in self.fns:
            out.add(r)
            return out
        d = c['def']
        g = [strip_lt(x) for x in c.get('gargs', [])]
        gens = set(fn.d.get('generics', []))
        tr = c.get('trait') or ''
        item = d.split('::')[-1]

        def is_param(x):
            return x in gens or x.lstrip('&').replace('mut ', '') in gens or x.startswith('impl ') or x.startswith('<')

        # cross-trait trampolines (table enumerated from the repository's own external generic callees)
        tramp = []
        if d in ('std::convert::Into::into',) and len(g) >= 2:
            tramp.append(('std::convert::From', g[1], 'from', g[0]))
        elif d == 'std::convert::TryInto::try_into' and len(g) >= 2:
            tramp.append(('std::convert::TryFrom', g[1], 'try_from', g[0]))
        elif d in ('core::str::<impl str>::parse', 'std::str::<impl str>::parse') and g:
            tramp.append(('std::str::FromStr', g[0], 'from_str', None))
        elif d == 'std::string::ToString::to_string' and g:
            tramp.append(('std::fmt::Display', g[0], 'fmt', None))
        elif re.match(r"^(core|std)::fmt::rt::Argument::<'_>::new_", d) and g:
            kind = d.rsplit('new_', 1)[1]
            trn = {'display': 'Display', 'debug': 'Debug', 'lower_exp': 'LowerExp', 'upper_exp': 'UpperExp'}.get(kind)
            if trn:
                tramp.append(('std::fmt::' + trn, g[-1], 'fmt', None))
        elif d == 'serde_crate::Serializer::collect_str' and len(g) >= 2:
            tramp.append(('std::fmt::Display', g[1], 'fmt', None))
        elif d.startswith('serde_crate::Deserializer::deserialize_') and len(g) >= 3:
            tramp.append(('serde_crate::de::Visitor', g[2], None, None))
        elif d in ('serde_crate::de::MapAccess::next_value', 'serde_crate::de::SeqAccess::next_element') and len(g) >= 3:
            tramp.append(('serde_crate::Deserialize', g[2], 'deserialize', None))
        elif d == 'num_traits::One::is_one' and g:
            tramp.append(('std::cmp::PartialEq', g[0], 'eq', None))
            tramp.append(('num_traits::One', g[0], 'one', None))
        elif d in ('std::iter::Iterator::sum', 'std::iter::Iterator::product') and len(g) >= 2:
            tramp.append(('std::iter::Sum' if d.endswith('sum') else 'std::iter::Product', g[1], None, None))
        for trn, selfty, it, targ in tramp:
            st = None if is_param(selfty) else selfty.lstrip('&').replace('mut ', '')
            ta = None if (targ is None or is_param(targ)) else targ
            sts = [st]
            bare = selfty.lstrip('&').replace('mut ', '')
            if st is None and bare in gens:
                inst = self.instantiations(fn).get(bare)
                if inst:       # every instantiation of this type parameter inside the crate is known
                    sts = sorted(x.lstrip('&').replace('mut ', '') for x in inst)
            for st_ in sts:
                for h in self.find_impls(trn, st_, it, ta):
                    out.add(h.name)
        # same-trait: required or default method on a local Self type / on a type parameter
        if tr and g:
            selfty = g[0]
            inst = None
            if selfty.lstrip('&') in gens:
                inst = self.instantiations(fn).get(selfty.lstrip('&'))
            if inst is not None:
                # every instantiation of this type parameter inside the crate is known
                for cty in sorted(inst):
                    for h in self.find_impls(tr, cty.lstrip('&'), item):
                        out.add(h.name)
            elif is_param(selfty):
                cands = self.find_impls(tr, None, item)
                # constrain by the first trait argument when it is concrete
                targ = g[1] if len(g) > 1 and not is_param(g[1]) else None
                if targ is not None:
                    c2 = self.find_impls(tr, None, item, targ)
                    cands = c2
                for h in cands:
                    out.add(h.name)
            else:
                st = selfty.lstrip('&').replace('mut ', '')
                cands = self.find_impls(tr, st, item)
                if not cands:
                    # default method of the trait: may call any method of the local impl
                    cands = self.find_impls(tr, st, None)
                for h in cands:
                    out.add(h.name)
        return out

    def callees(self, fn):
        """set of local function names this body may call (closures attached to their parent)"""
        out = set()
        for _, t in fn.calls():
            out |= self.call_targets(fn, t)
        for _, st in fn.stmts():
            rv = st['rv']
            ops = []
            if rv['r'] in ('use', 'cast'):
                ops = [rv['op']]
            elif rv['r'] == 'agg':
                ops = rv['ops']
            for o in ops:
                if o.get('k') == 'const' and o.get('fn_def') in self.fns:
                    out.add(o['fn_def'])
        for cn in self.closures_of(fn.name):
            out.add(cn)
        return out

    def callgraph(self):
        if self._cg is None:
            self._cg = {f.name: self.callees(f) for f in self.real_fns()}
        return self._cg

    def reach(self, entries):
        cg = self.callgraph()
        seen = set()
        st = [e if isinstance(e, str) else e.name for e in entries]
        while st:
            n = st.pop()
            if n in seen or n not in cg:
                continue
            seen.add(n)
            st.extend(cg[n])
        return seen

    def reach_paths(self, entries):
        """dict name -> call path (list of names) from some entry"""
        cg = self.callgraph()
        path = {}
        dq = collections.deque()
        for e in entries:
            n = e if isinstance(e, str) else e.name
            if n in cg and n not in path:
                path[n] = [n]
                dq.append(n)
        while dq:
            n = dq.popleft()
            for m in sorted(cg[n]):
                if m not in path and m in cg:
                    path[m] = path[n] + [m]
                    dq.append(m)
        return path

    def callers(self, name):
        cg = self.callgraph()
        return sorted(n for n, cs in cg.items() if name in cs)
