"""Fact base loader: functions, CFG helpers, dominators, call graph (engine E2 core)."""
import json, os, re, collections

INT_TYPES = ('u8', 'u16', 'u32', 'u64', 'u128', 'usize', 'i8', 'i16', 'i32', 'i64', 'i128', 'isize')
INT_RE = re.compile(r'\b(u8|u16|u32|u64|u128|i8|i16|i32|i64|i128|usize|isize)\b')
FLOAT_RE = re.compile(r'\b(f32|f64)\b')
LIFETIME_RE = re.compile(r"'[a-z_][a-z0-9_]*\s*")


def strip_lt(ty):
    """remove lifetimes from a printed type"""
    return LIFETIME_RE.sub('', ty).replace('<>', '')


def arm_key(name):
    """macro-arm key: integer/float widths abstracted, lifetimes and module prefix of impl paths removed"""
    k = strip_lt(name)
    k = re.sub(r'^[a-z_:]+::<impl', '<impl', k)
    k = INT_RE.sub('{int}', k)
    k = FLOAT_RE.sub('{float}', k)
    return k


def stable_key(name):
    k = strip_lt(name)
    k = re.sub(r'^[a-z_:]+::<impl', '<impl', k)
    return k


class Fn:
    def __init__(self, d):
        self.d = d
        self.name = d['name']
        self.blocks = {b['id']: b for b in d['blocks']}
        self.locals = d['locals']
        self.argc = d['argc']
        self.kind = d['kind']
        self.trait = d.get('impl_trait_def')
        self.trait_full = d.get('impl_trait')
        self.self_ty = strip_lt(d.get('impl_self', '')) if d.get('impl_self') else None
        self.item = d.get('item')
        self.span = d['span']
        self.file = d['span']['file']
        self.line = d['span']['line']
        self.macros = d.get('macros', [])
        self.vis = d.get('vis')
        self.dbg = {int(k): v for k, v in d.get('dbg', {}).items()}
        self.is_promoted = '::promoted[' in self.name
        self.is_closure = self.kind == 'Closure'
        self.key = stable_key(self.name)
        self.arm = arm_key(self.name)
        self._preds = None
        self._dom = None

    def __repr__(self):
        return '<Fn %s>' % self.name

    def ty(self, i):
        return strip_lt(self.locals[i])

    def argtys(self):
        return [self.ty(i) for i in range(1, self.argc + 1)]

    def where(self, line=None):
        return '%s:%d' % (self.file, line if line is not None else self.line)

    # ----- CFG
    def succ(self, bid):
        t = self.blocks[bid]['term']
        k = t['t']
        if k == 'goto':
            return [t['to']]
        if k == 'switch':
            return [x[1] for x in t['targets']] + [t['otherwise']]
        if k in ('drop', 'assert'):
            return [t['to']]
        if k == 'call':
            return [t['to']] if t['to'] is not None else []
        return []

    def live_blocks(self):
        """non-cleanup blocks reachable from entry"""
        seen = set()
        st = [0]
        while st:
            b = st.pop()
            if b in seen or self.blocks[b]['cleanup']:
                continue
            seen.add(b)
            st.extend(self.succ(b))
        return seen

    def preds(self):
        if self._preds is None:
            p = collections.defaultdict(list)
            for b in self.live_blocks():
                for s in self.succ(b):
                    p[s].append(b)
            self._preds = p
        return self._preds

    def dominators(self):
        """dict block -> set of dominating blocks (incl. itself), over live blocks"""
        if self._dom is None:
            live = self.live_blocks()
            order = sorted(live)
            dom = {b: set(live) for b in live}
            dom[0] = {0}
            preds = self.preds()
            changed = True
            while changed:
                changed = False
                for b in order:
                    if b == 0:
                        continue
                    ps = [p for p in preds.get(b, []) if p in live]
                    new = set.intersection(*(dom[p] for p in ps)) if ps else set()
                    new = new | {b}
                    if new != dom[b]:
                        dom[b] = new
                        changed = True
            self._dom = dom
        return self._dom

    def returns(self):
        return [b for b in self.live_blocks() if self.blocks[b]['term']['t'] == 'return']

    def calls(self):
        """yield (block id, terminator) for every call in live non-cleanup blocks"""
        for b in sorted(self.live_blocks()):
            t = self.blocks[b]['term']
            if t['t'] == 'call':
                yield b, t

    def stmts(self):
        for b in sorted(self.live_blocks()):
            for st in self.blocks[b]['st']:
                if st['s'] == 'assign':
                    yield b, st

    def has_loop(self):
        live = self.live_blocks()
        color = {}
        stack = [(0, iter(self.succ(0)))]
        color[0] = 1
        while stack:
            b, it = stack[-1]
            adv = False
            for s in it:
                if s not in live:
                    continue
                if color.get(s) == 1:
                    return True
                if s not in color:
                    color[s] = 1
                    stack.append((s, iter(self.succ(s))))
                    adv = True
                    break
            if not adv:
                color[b] = 2
                stack.pop()
        return False


def cdef(t):
    """statically named callee def path (no generic args), '' for indirect calls"""
    return t['callee'].get('def', '')


def cres(t):
    """resolved instance def path if resolution succeeded, else the static def path"""
    c = t['callee']
    return c.get('resolved') or c.get('def', '')


def ctrait(t):
    return t['callee'].get('trait', '')


def op_local(o):
    """local index of a bare-local operand, else None"""
    if o['k'] in ('copy', 'move') and not o['pl']['p']:
        return o['pl']['l']
    return None


def op_base(o):
    if o['k'] in ('copy', 'move'):
        return o['pl']['l']
    return None


def fields_of(pl):
    return [p['n'] for p in pl['p'] if isinstance(p, dict) and 'f' in p]


def fmt_place(pl, fn=None):
    l = pl['l']
    s = '_%d' % l
    if fn is not None and l in fn.dbg:
        s = fn.dbg[l]
    for p in pl['p']:
        if p == '*':
            s = '(*%s)' % s
        elif 'f' in p:
            s = '%s.%s' % (s, p['n'])
        elif 'dc' in p:
            s = '(%s as %s)' % (s, p['dc'])
        else:
            s = '%s[..]' % s
    return s


def fmt_op(o, fn=None):
    if o['k'] in ('copy', 'move'):
        return fmt_place(o['pl'], fn)
    if o['k'] == 'const':
        if 'named' in o:
            return o['named']
        return o.get('s', '?')
    return '?'


class Facts:
    def __init__(self, fdir, crate='bigdecimal'):
        path = os.path.join(fdir, crate + '.json')
        with open(path) as fh:
            self.raw = json.load(fh)
        self.crate = crate
        self.out_dir = self.raw.get('out_dir', '')
        self.fns = {}
        for b in self.raw['bodies']:
            self.fns[b['name']] = Fn(b)
        self.consts = {c['name']: c for c in self.raw.get('consts', [])}
        self._closures = collections.defaultdict(list)
        for n in self.fns:
            m = re.match(r'^(.*?)::\{closure#\d+\}', n)
            if m and '::promoted[' not in n:
                self._closures[m.group(1)].append(n)
        self._cg = None
        self._by_trait = collections.defaultdict(list)
        for f in self.fns.values():
            if f.trait and not f.is_promoted and not f.is_closure:
                self._by_trait[f.trait].append(f)

    def real_fns(self):
        return [f for f in self.fns.values() if not f.is_promoted]

    def find(self, pat):
        r = re.compile(pat)
        return sorted((f for f in self.real_fns() if r.search(f.name)), key=lambda f: f.name)

    def one(self, pat):
        l = self.find(pat)
        return l[0] if len(l) == 1 else None

    def impls(self, trait, self_pat=None):
        out = [f for f in self._by_trait.get(trait, [])]
        if self_pat is not None:
            r = re.compile(self_pat)
            out = [f for f in out if r.search(f.self_ty or '')]
        return sorted(out, key=lambda f: f.name)

    def closures_of(self, name):
        return list(self._closures.get(name, []))

    def promoted(self, fn, i):
        return self.fns.get('%s::promoted[%d]' % (fn.name, i))

    def promoted_value(self, fn, i):
        """value description of promoted constant: ('int', v) | ('variant', adt, name) | ('array',[ints]) | None"""
        p = self.promoted(fn, i)
        if p is None:
            return None
        for b in p.blocks.values():
            for st in b['st']:
                if st['s'] != 'assign':
                    continue
                rv = st['rv']
                if rv['r'] == 'use' and rv['op']['k'] == 'const':
                    o = rv['op']
                    if 'int' in o:
                        return ('int', int(o['int']))
                    return ('lit', o.get('s'))
                if rv['r'] == 'agg':
                    k = rv['kind']
                    if k['a'] == 'adt':
                        return ('variant', k['adt'], k['variant'])
                    if k['a'] == 'array':
                        return ('array', [int(o['int']) if 'int' in o else None for o in rv['ops']])
        return None

    # ----- call graph
    def callees(self, fn):
        """set of local function names this body may call (closures attached to parent;
        unresolved trait calls expanded to every local impl method of that trait/item)"""
        out = set()
        for _, t in fn.calls():
            c = t['callee']
            if 'def' not in c:
                continue
            r = c.get('resolved')
            if r and r in self.fns:
                out.add(r)
            elif not r or (c.get('trait') and r == c['def'] and c.get('local') is False and False):
                tr = c.get('trait')
                if tr:
                    item = c['def'].split('::')[-1]
                    for g in self._by_trait.get(tr, []):
                        if g.item == item:
                            out.add(g.name)
            # a resolved-to-trait-default (non local) is external
        for cn in self.closures_of(fn.name):
            out.add(cn)
        return out

    def callgraph(self):
        if self._cg is None:
            self._cg = {f.name: self.callees(f) for f in self.real_fns()}
        return self._cg

    def reach(self, entries):
        cg = self.callgraph()
        seen = set()
        st = [e if isinstance(e, str) else e.name for e in entries]
        while st:
            n = st.pop()
            if n in seen or n not in cg:
                continue
            seen.add(n)
            st.extend(cg[n])
        return seen

    def reach_paths(self, entries):
        """dict name -> call path (list of names) from some entry"""
        cg = self.callgraph()
        path = {}
        dq = collections.deque()
        for e in entries:
            n = e if isinstance(e, str) else e.name
            if n in cg and n not in path:
                path[n] = [n]
                dq.append(n)
        while dq:
            n = dq.popleft()
            for m in sorted(cg[n]):
                if m not in path and m in cg:
                    path[m] = path[n] + [m]
                    dq.append(m)
        return path

    def callers(self, name):
        cg = self.callgraph()
        return sorted(n for n, cs in cg.items() if name in cs)
