#!/usr/bin/env python3
"""Confirm an independently written defect and record it under /verif/seeded/<id>/.

usage: seeded.py add <dir with patch.diff demo.rs meta.json> <id>     (confirm + run all checks + store)
       seeded.py run [<id> ...]                                        (re-run the checks against stored ones)
       seeded.py reconfirm <id> [<rebased patch>|-] [note]             (confirm a stored one again on the current tree)
Confirmation (in a scratch copy of /repo outside /repo and /verif, removed afterwards):
  clean tree: tests/demo.rs passes; patched tree: builds, the existing lib+doc suite passes, demo fails.
"""
import json, os, re, shutil, subprocess, sys, tempfile

HERE = os.path.dirname(os.path.abspath(__file__))
VERIF = os.path.dirname(HERE)
REPO = os.environ.get('VERIF_SRC_REPO', '/repo')
TARGET = os.environ.get('SEEDED_TARGET', '/tmp/seeded-target')
PROPS = ['C%02d' % i for i in range(1, 21) if i != 13]


def sh(cmd, cwd, env=None, timeout=1800):
    p = subprocess.run(cmd, cwd=cwd, env=env, stdout=subprocess.PIPE, stderr=subprocess.STDOUT, text=True, timeout=timeout)
    return p.returncode, p.stdout


def scratch():
    tmp = tempfile.mkdtemp(prefix='seeded-')
    dst = os.path.join(tmp, 'repo')
    subprocess.check_call(['rsync', '-a', '--exclude', 'target', '--exclude', '.git', '--exclude', 'MUTANT', '--exclude', 'tests/demo.rs', REPO + '/', dst + '/'])
    touch(dst)
    return tmp, dst


def touch(dst):
    """fresh mtimes: the shared cargo target directory must never mistake a copied (old-dated) source for one it already built"""
    subprocess.call(['find', dst, '-name', '*.rs', '-exec', 'touch', '{}', '+'])


def run_checks(dst, tmp, props=PROPS):
    env = dict(os.environ, VERIF_REPO=dst, VERIF_EVIDENCE_DIR=os.path.join(tmp, 'evidence'))
    caught = {}
    for pid in props:
        rc, out = sh([sys.executable, os.path.join(HERE, 'main.py'), pid, '--tier', 'quick'], VERIF, env)
        keys = [l.strip()[len('violation: '):].split('  ')[0] for l in out.splitlines() if l.strip().startswith('violation: ')]
        if 'VIOLATION property=%s' % pid in out:
            caught[pid] = keys[:4]
    return caught


def confirm(src, features=None, demo_env=None):
    tmp, dst = scratch()
    env = dict(os.environ, CARGO_TARGET_DIR=TARGET, CARGO_NET_OFFLINE='true')
    denv = dict(env)
    if demo_env:
        denv.update({k: str(v) for k, v in demo_env.items()})
        denv['CARGO_TARGET_DIR'] = TARGET + '-env'
    feat = (['--features', features] if features else [])
    log = []
    try:
        os.makedirs(os.path.join(dst, 'tests'), exist_ok=True)
        shutil.copy(os.path.join(src, 'demo.rs'), os.path.join(dst, 'tests', 'demo.rs'))
        rc, out = sh(['cargo', 'test', '--offline', '--test', 'demo'] + feat, dst, denv)
        log.append('clean tree: cargo test --test demo %s-> exit %d' % (('[env %s] ' % demo_env) if demo_env else '', rc))
        if rc != 0:
            return False, log + ['demo does not pass on the clean tree', out[-800:]], None
        rc, out = sh(['patch', '-p1', '--no-backup-if-mismatch', '-s', '-i', os.path.abspath(os.path.join(src, 'patch.diff'))], dst)
        if rc != 0:
            return False, log + ['patch does not apply: ' + out[-300:]], None
        os.rename(os.path.join(dst, 'tests', 'demo.rs'), os.path.join(tmp, 'demo.rs'))
        touch(dst)
        rc, out = sh(['cargo', 'test', '--offline', '--no-fail-fast'] + feat, dst, env)
        res = re.findall(r'test result: (\w+)\. (\d+) passed; (\d+) failed', out)
        log.append('patched tree: cargo test (existing suite) -> exit %d %s' % (rc, res))
        if rc != 0:
            return False, log + ['existing suite fails with the patch', out[-800:]], None
        shutil.copy(os.path.join(tmp, 'demo.rs'), os.path.join(dst, 'tests', 'demo.rs'))
        rc, out = sh(['cargo', 'test', '--offline', '--test', 'demo'] + feat, dst, denv)
        log.append('patched tree: cargo test --test demo -> exit %d' % rc)
        if rc == 0:
            return False, log + ['demo passes with the patch: the change does not manifest'], None
        os.remove(os.path.join(dst, 'tests', 'demo.rs'))
        caught = run_checks(dst, tmp)
        return True, log, caught
    finally:
        shutil.rmtree(tmp, ignore_errors=True)


def add(src, sid):
    meta = {}
    try:
        meta = json.load(open(os.path.join(src, 'meta.json')))
    except Exception as e:
        meta = {'note': 'meta.json unreadable: %s' % e}
    feats = meta.get('features')
    ok, log, caught = confirm(src, feats, meta.get('env'))
    print('\n'.join(log))
    if not ok:
        print('NOT CONFIRMED: %s' % sid)
        return 1
    out = os.path.join(VERIF, 'seeded', sid)
    os.makedirs(out, exist_ok=True)
    shutil.copy(os.path.join(src, 'patch.diff'), os.path.join(out, 'patch.diff'))
    shutil.copy(os.path.join(src, 'demo.rs'), os.path.join(out, 'demo.rs'))
    prop = meta.get('property') or sid.split('-')[0]
    rec = {
        'id': sid,
        'property': prop,
        'summary': meta.get('summary'),
        'needs_to_manifest': meta.get('needs'),
        'author': 'independent sub-agent given only the property text and a scratch worktree',
        'authors_log': meta.get('ran'),
        'confirmed_by_me': log,
        'checks_run': PROPS,
        'caught_by': caught,
        'caught_by_own_property_check': prop in caught,
    }
    with open(os.path.join(out, 'meta.json'), 'w') as fh:
        json.dump(rec, fh, indent=1)
    print('CONFIRMED %s (property %s); caught by: %s' % (sid, prop, {k: v[:1] for k, v in caught.items()} or 'NOTHING'))
    return 0


def rerun(ids, jobs=1):
    base = os.path.join(VERIF, 'seeded')
    ids = ids or sorted(os.listdir(base))
    if jobs > 1:
        import concurrent.futures
        with concurrent.futures.ThreadPoolExecutor(max_workers=jobs) as ex:
            list(ex.map(lambda sid: rerun([sid]), ids))
        return
    for sid in ids:
        d = os.path.join(base, sid)
        if not os.path.exists(os.path.join(d, 'patch.diff')):
            continue
        tmp, dst = scratch()
        try:
            rc, out = sh(['patch', '-p1', '--no-backup-if-mismatch', '-s', '-i', os.path.join(d, 'patch.diff')], dst)
            if rc != 0:
                print('%-12s patch no longer applies' % sid)
                continue
            meta = json.load(open(os.path.join(d, 'meta.json')))
            caught = run_checks(dst, tmp)
            meta['caught_by'] = caught
            meta['caught_by_own_property_check'] = meta['property'] in caught
            json.dump(meta, open(os.path.join(d, 'meta.json'), 'w'), indent=1)
            print('%-12s property=%s caught_by=%s' % (sid, meta['property'], sorted(caught) or 'NOTHING'))
        finally:
            shutil.rmtree(tmp, ignore_errors=True)


def reconfirm(sid, new_patch=None, note=None):
    """confirm a stored change again against the current /repo (after a fix: commit moved the base), optionally with
    its patch rebased; the author's description is kept"""
    d = os.path.join(VERIF, 'seeded', sid)
    meta = json.load(open(os.path.join(d, 'meta.json')))
    src = tempfile.mkdtemp(prefix='reconf-')
    try:
        shutil.copy(new_patch or os.path.join(d, 'patch.diff'), os.path.join(src, 'patch.diff'))
        shutil.copy(os.path.join(d, 'demo.rs'), os.path.join(src, 'demo.rs'))
        ok, log, caught = confirm(src, meta.get('features'), meta.get('env'))
        print('\n'.join(log))
        if not ok:
            print('NOT CONFIRMED: %s' % sid)
            return 1
        if new_patch:
            shutil.copy(new_patch, os.path.join(d, 'patch.diff'))
        meta['confirmed_by_me'] = log
        if note:
            meta.setdefault('rebased', []).append(note)
        meta['caught_by'] = caught
        meta['caught_by_own_property_check'] = meta['property'] in caught
        json.dump(meta, open(os.path.join(d, 'meta.json'), 'w'), indent=1)
        print('CONFIRMED %s; caught by: %s' % (sid, {k: v[:1] for k, v in caught.items()} or 'NOTHING'))
        return 0
    finally:
        shutil.rmtree(src, ignore_errors=True)


if __name__ == '__main__':
    if len(sys.argv) >= 3 and sys.argv[1] == 'reconfirm':
        sys.exit(reconfirm(sys.argv[2], sys.argv[3] if len(sys.argv) > 3 and sys.argv[3] != '-' else None, sys.argv[4] if len(sys.argv) > 4 else None))
    elif len(sys.argv) >= 4 and sys.argv[1] == 'add':
        sys.exit(add(sys.argv[2], sys.argv[3]))
    elif len(sys.argv) >= 2 and sys.argv[1] == 'run':
        args = sys.argv[2:]
        jobs = 1
        if '--jobs' in args:
            i = args.index('--jobs')
            jobs = int(args[i + 1])
            args = args[:i] + args[i + 2:]
        rerun(args, jobs)
    else:
        print(__doc__)
