"""What MANIFEST.json claims per property (consumed by gen_manifest.py)."""
TRUST = 'Trusted: rustc nightly MIR construction/trait resolution for the same source the stable build compiles; num-bigint/num-traits/core contracts listed in the evidence file.'
CLAIMS = {
 'C08': {
  'technique': 'static analysis: MIR must-pass-through (zero-divisor guard) dataflow over every Div/DivAssign impl',
  'text': 'Partial, structural: decides for every Div/DivAssign overload (all macro-generated forms) that no CFG path returns while the divisor may be zero. Does not decide correct rounding of the quotient.',
  'note': TRUST + ' Decides the zero-divisor clause only.',
 },
}
_PENDING = 'check not built yet in this commit (implementation in progress, see DESIGN.md section 8)'
NOT_APPLICABLE = {('C%02d' % i): _PENDING for i in range(1, 21) if ('C%02d' % i) not in CLAIMS}
NOT_APPLICABLE['C13'] = ('exp(): positivity and last-digit accuracy of a Taylor-series loop are properties of computed numbers; no structural clause is a necessary '
                         'condition of the property (the configured result precision is checked under C20). Static analysis does not apply.')
