"""What MANIFEST.json claims per property (consumed by gen_manifest.py)."""
TRUST = 'Trusted: rustc nightly MIR construction/trait resolution for the same source the stable build compiles; num-bigint/num-traits/core contracts listed in the evidence file.'
CLAIMS = {
 'C08': {
  'technique': 'static analysis: MIR must-pass-through (zero-divisor guard) dataflow over every Div/DivAssign impl',
  'text': 'Partial, structural: decides for every Div/DivAssign overload (all macro-generated forms) that no CFG path returns while the divisor may be zero. Does not decide correct rounding of the quotient.',
  'note': TRUST + ' Decides the zero-divisor clause only.',
 },
 'C02': {
  'technique': 'static analysis: MIR panic-site enumeration over the call graph of the comparison impls (debug-profile facts) with interval/dominance discharge and a reviewed-site table; decision-table extraction from the CFG of Ord::cmp / the equality prologue',
  'text': 'Partial, structural: decides "no comparison of finite decimals panics or depends on build profile" by enumerating every may-panic site (overflow/bounds asserts, debug_assert failures, unwrap/expect, slicing) reachable from PartialEq/PartialOrd/Ord on BigDecimal/BigDecimalRef; each is discharged by interval reasoning or matches a reviewed entry whose guarding condition is re-checked. ORDER-TABLE: the decision table of <BigDecimalRef as Ord>::cmp is extracted from its CFG (14 cells over scale order x difference-fits-u64 x sign + the sign prologue): the right digit comparison with the right orientation, reversed exactly for negative operands, no magnitude ordering returned without the sign correction; checked_diff meets its contract cell by cell; check_equality_bigdecimal_ref\'s prologue (zero/zero, differing signs, equal scales, overflowing gap) and the orientation (larger-scale digits vs smaller-scale digits x 10^diff) of every oriented helper call are checked. SCAN-GAP: in the digit loops no element pulled with next() is skipped while its iterator is consumed further. Does not decide the arithmetic of the digit-level strategies inside compare_scaled_biguints and the equality loops.',
  'note': TRUST + ' Reviewed entries (tables/reviewed_panic_sites.json) carry human arguments; helper summaries count_decimal_digits_uint = digit count.',
 },
 'C03': {
  'technique': 'static analysis: MIR panic-site enumeration on Hash::hash (debug-profile facts)',
  'text': 'Partial claim: hashing does not panic (every may-panic site reachable from Hash::hash discharged or reviewed under the property\'s own bound |scale| <= 10^5), plus three necessary conditions of agreement with ==: no raw representation field (int_val, scale) is fed to the Hasher and both are read (HASH-FIELDS); on every zero path the hashed datum is the plain digit string whatever the scale (HASH-ZERO); every path feeds the state by the same sequence of Hasher calls, so hashers that mix each write separately cannot split equal values (HASH-SHAPE). That the hashed bytes of equal non-zero values coincide is NOT decided.',
  'note': TRUST,
 },
 'C05': {
  'technique': 'static analysis: MIR panic-site enumeration over the parser call graph with interval/dominance discharge and reviewed UTF-8-boundary sites',
  'text': 'Partial, structural: decides "no input string makes the parser panic" (all may-panic sites reachable from from_str_radix/from_str/parse_bytes discharged or reviewed with re-checked guards). R-TABLE: every Ok(..) return of from_str_radix lies on the radix == 10 edge and the scale is computed from the parsed exponent through checked operations and widening casts only. GATEWAY (who-may-call): from_str and parse_bytes reach an integer/float text parser only through from_str_radix, so neither the radix check nor the decimal grammar can be bypassed. HEAD-OF-NUMERAL: the delegated integer parser can see a sign only at the head of the numeral (the ".+5" class, repaired). The accepted grammar and the denoted value are NOT decided.',
  'note': TRUST + ' str::find returns a char-boundary index; BigInt::from_str_radix panics only for radix outside 2..=36.',
 },
 'C20': {
  'technique': 'static analysis: interprocedural provenance (taint) of the build-time constants over MIR, including build.rs; decision is per consumer, independent of the constants\' values',
  'text': 'Partial, structural: decides which generated constant reaches which consumer - build.rs maps each documented RUST_BIGDECIMAL_* variable to exactly one generated const; Context::default/RoundingMode::default return only those consts; sqrt/cbrt/inverse pass a Context derived only from them; round(n) uses the default mode; every Div kernel hands DEFAULT_PRECISION to impl_division whose loop consumes it; exp\'s result precision is DEFAULT_PRECISION; Display passes the two thresholds in order, the dispatcher compares them, no other literal threshold orders a scale-derived value, the padding limit is compared; formatting rounds with the default mode and the number\'s sign. Because the rules do not depend on the constants\' values one analysis covers all configurations (thorough re-extracts under two other environments to confirm). Numeric agreement of default and explicit-context operations is NOT decided.',
  'note': TRUST + ' Provenance is flow-insensitive per local and treats unlisted std callees as opaque sources.',
 },
 'C06': {
  'technique': 'static analysis: decision-table extraction from the CFG of the digit-pair primitive, exhaustive comparison with the documented mode definitions; writer/reader cross-check of the lazy tail flag; provenance of the default mode',
  'text': 'Partial, structural: (1) the complete decision table of RoundingMode::round_pair is read off its CFG and equals the documented definition for every one of the 4200 (mode, sign, digit pair, tail flag) inputs - exhaustive over the abstract cells, the function is never executed; (2) needs_trailing_zeros never claims the tail is irrelevant where round_pair depends on it; (3) round(n) rounds with the configured default mode; (4) with_scale, set_scale, take_and_scale, to_owned_with_scale, with_scale_round and round(n) label every returned decimal with exactly the requested scale (loops widened), and the non-rounding ones are exact when extending; (5) with_scale_round hands the receiver\'s sign to round_pair; only the table-checked functions branch on a RoundingMode. NOT decided: carry propagation and the position arithmetic of with_scale_round.',
  'note': TRUST + ' Oracle: the RoundingMode documentation (IEEE-754 / java.math.RoundingMode semantics).',
 },
 'C14': {
  'technique': 'static analysis: constant evaluation of source literal tables against 5^k; FpCategory decision tables from the CFG; who-may-call rule over the resolved call graph; known-bits/bit-provenance dataflow of the IEEE-754 field extraction',
  'text': 'Partial, structural: the hard-coded multi-word constants equal 5^149 and 5^1074 (the scale literals they are used with); NaN/Infinite map to Err, Subnormal to the subnormal routine, Normal/Zero to the normal routine for f32 and f64 (exhaustive over FpCategory); the unchecked converters are reachable only through those classifiers and every TryFrom/FromPrimitive float entry goes through them. BITFIELD (known-bits dataflow with provenance over the values derived from to_bits()): for binary32 and binary64 the mantissa is bits 0..M-1 plus the implicit bit, the exponent is bits M..M+E-1 minus (bias+M), the sign is decided by the top bit alone (clear -> Plus), the subnormal magnitude is the representation with exactly the sign bit cleared, the +-0 test looks at every bit but the sign. NOT decided: the power-of-two/five scaling after the split, all of to_f64.',
  'note': TRUST + ' BigUint::from_slice assembles little-endian u32 words.',
 },
 'C15': {
  'technique': 'static analysis: sign-dispatch decision tables from the CFG; structural forwarder and projection checks on path outcome terms; forbidden-callee reachability over the resolved call graph',
  'text': 'Partial, structural: to_u64/to_u128 map negative decimals to None and zero to Some(0), to_i64/to_i128 map zero to Some(0), and every other (sign, scale==0?) cell ends in a checked integer conversion of the digits or of the value truncated to scale 0 (24 cells, exhaustive over the dispatch atoms); the owned ToPrimitive methods return the same-named method of self.to_ref(); all 20 From<int>/From<&int>, From<BigInt>, From<(T,i64)>, FromPrimitive::from_i*/u*, ToBigInt are exact projections with scale literal 0; no flooring/euclidean division is reachable from the conversions or the truncating rescale. The MIN boundary of to_i64/to_i128 is a checked 3-cell table (d < 2^(W-1) -> -(d as iW); == -> MIN; > -> None; no wrapping arithmetic). NOT decided: is_integer.',
  'note': TRUST + ' num-bigint `/` truncates toward zero; BigInt/BigUint::to_<int> returns None exactly on overflow.',
 },
 'C10': {
  'technique': 'static analysis: provenance of the Context fields at the final rounding sink (backward dependence from the return place), sign-dispatch tables from the CFG, def-use rule on the radicand of the integer root',
  'text': 'Partial, structural: impl_sqrt and the five entry points hand ctx.precision/ctx.rounding to the rounding routine whose result is returned; negative input yields None, zero yields zero, and impl_sqrt is reached only under the non-negative arm (copy-sign/abs variants exempt by specification); no re-signing after a context-mode rounding. R-STICKY reports that the radicand is never consulted after the floor root - a recorded known finding (inexact roots with all-zero guard digits are rounded as exact). The digits of the root (including the parity defect named in the property) are NOT decided.',
  'note': TRUST + ' One known finding is listed in known_findings.json (exact key).',
 },
 'C11': {
  'technique': 'static analysis: provenance of Context fields and of the rounding sign, lazy-tail-flag table cross-check, def-use rule on the radicand',
  'text': 'Partial, structural: cbrt_with_context -> impl_cbrt_int_scale -> impl_cbrt_uint_scale pass ctx.precision and ctx.rounding unchanged to the final InsigData rounding; the rounding data carries n.sign() (never a literal) and the result is re-signed with that very sign, so Floor/Ceiling see the signed value; needs_trailing_zeros (lazy flag) is consistent with round_pair for all 70 (mode, digit) cells. Scale bookkeeping: on all 9 paths of impl_cbrt_uint_scale (three residues of the scale mod 3, with/without padding, zero) dim(nth_root(n*10^shift,3)) minus the trimmed digits provably equals the scale of the constructed result. R-STICKY: known finding (radicand exactness dropped). The digits of the root are NOT decided.',
  'note': TRUST + ' One known finding is listed in known_findings.json (exact key).',
 },
 'C12': {
  'technique': 'static analysis: provenance of Context fields at the final sink; exact (sign, mode) mirror table extracted from the CFG of inverse_with_context',
  'text': 'Partial, structural: the final with_precision_round in impl_inverse_uint_scale receives ctx.precision/ctx.rounding; because the implementation rounds |x| and re-signs, the extracted 21-cell (sign, mode) table must hand Ceiling for (Minus, Floor), Floor for (Minus, Ceiling) and the unchanged context otherwise - which is exactly the negation symmetry clause of the property. Convergence, termination and accuracy at small precisions are NOT decided.',
  'note': TRUST,
 },
 'C17': {
  'technique': 'static analysis of the serde-json feature configuration: forbidden-callee reachability (no float), panic-site enumeration, sibling cross-check of the scale limit via provenance, structural forwarder check of Serialize',
  'text': 'Partial, structural (feature configuration serde-json, which the pinned test run never compiles; thorough adds string-only): no float conversion/parse/cast is reachable from visit_str, visit_map or the two JSON-number adapters, so digits are read digit for digit; every may-panic site on those paths is discharged or reviewed; both JSON-number adapters compare the deserialised scale with the generated SERDE_SCALE_LIMIT; Serialize is collect_str(self) and the adapters serialise Number::from_str(Display text). VISITOR-EXACT: in every visit_<integer|float> method the handed-over value reaches only the exact From<int>/TryFrom<float> converters (no lossy cast, arithmetic or text rendering on the way). Round-trip equality and the "00" zero are NOT decided.',
  'note': TRUST + ' serde callbacks are modelled by a trampoline table (deserialize_any -> every Visitor method, next_value::<BigDecimal> -> Deserialize).',
 },
 'C04': {
  'technique': 'static analysis: provenance of the Display thresholds; literal-confinement (alphabet) rule over every output sink in the rendering call graph, including parsed format templates',
  'text': 'Partial, structural: (1) default Display switches notation on the two generated thresholds (passed in order, both compared, no other literal threshold on a scale-derived value); (1b) after an in-place right shift of the digit bytes the zero fill stops before the moved digits (MOVE-THEN-CLEAR); (2) every string/char/byte literal and every literal piece of a format template that reaches an output sink on the call graph of Display, {:e}, {:E}, scientific, engineering and plain notation lies in the parser\'s alphabet {0-9 . e E + - _} - a necessary condition of re-parseability. Round-trip equality, digit/scale preservation and the decimal-point arithmetic are NOT decided.',
  'note': TRUST + ' fmt::Arguments template encoding as documented in core::fmt for this toolchain.',
 },
 'C16': {
  'technique': 'static analysis: provenance of rounding mode and sign at the formatting rounding sites; interprocedural taint from Formatter flag getters to the numeral bytes (non-interference)',
  'text': 'Partial, structural: all rounding data built on the formatting paths takes the generated DEFAULT_ROUNDING_MODE and the sign of the formatted number; pad_integral\'s is_nonnegative derives from that sign; FMT_MAX_INTEGER_PADDING feeds a comparison and the amount compared with it is exactly the amount the buffer grows by (BOUNDED-FILL); byte containers are used consistently as ASCII or as digit values (UNITS); and no value obtained from Formatter::{width, fill, align, sign_plus, sign_minus, sign_aware_zero_pad, flags, alternate} flows - directly or through a callee parameter - into the bytes written or into pad_integral, which is a sufficient condition for "flags never alter the digits". That the ASCII-digit rounding agrees numerically with the library rounding is NOT decided.',
  'note': TRUST + ' Formatter::pad_integral only pads around the buffer it is given.',
 },
 'C07': {
  'technique': 'static analysis: provenance of Context fields at the final rounding sink; own-body panic-site enumeration of the precision-to-scale conversion',
  'text': 'Partial, structural: Context::{round_decimal, round_decimal_ref, add_refs, add_refs_into} and BigDecimalRef::round_with_context deliver the result of a rounding routine that receives ctx.precision and ctx.rounding; with_precision_round forwards its mode unchanged to with_scale_round and converts precision to scale through checked arithmetic only (the single may-panic site is the documented expect, no integer `as` cast). The rounding increment of with_prec (and of impl_division) is computed from a magnitude or under an established sign (R-SIGN iii), with_prec\'s tie rule cannot come from the configurable default mode (FIXED-TIE), and add_refs_into rounds exactly a + b. The digit arithmetic of with_prec and digit counting are NOT decided.',
  'note': TRUST,
 },
 'C18': {
  'technique': 'static analysis: structural projection check - path outcome terms of constructors/accessors/views normalised (helpers inlined) and compared with a projection specification',
  'text': 'Partial, structural: 24 constructors, accessors and views (new, from_bigint, from_biguint, sign, fractional_digit_count, as/into_bigint_and_exponent/scale, digits -> count of the magnitude, to_ref, abs, BigDecimalRef::{to_owned, sign, fractional_digit_count, is_zero, count_digits, as_parts, abs, neg}, the four From<..> for BigDecimalRef) are single-path pure projections equal to their specification. Extending the scale multiplies by the exact power of ten (R-SCALE); ten_to_the_uint/ten_to_the_u64/ten_to_the return 10^k on every loop-free branch; NORMAL-FORM: normalized() strips k trailing zero digits and lowers the scale by that same k (counted from the least-significant end with == 0, radix 10 both ways), zero -> zero(). digits()\' counting loop and the chunked branch of ten_to_the_uint are NOT decided.',
  'note': TRUST + ' Specification in tables/projection_spec.json.',
 },
 'C01': {
  'technique': 'static analysis: scale-dimension typing (units-of-measure style abstract interpretation over MIR with polynomial value relation) of every arithmetic overload, helper and derived operation',
  'text': 'Partial but broad, structural: all ~373 Add/Sub/Mul/Neg/*Assign impl functions (every macro-generated overload), the 7 addition helpers, double/half/square/cube/abs/Signed::abs, both Sum impls and the rescale primitives are type-checked path by path for symbolic operands of arbitrary value and scale: integer +/- only at provably equal scale dimensions, powers of ten and rescaling only upward (direction obligations proven from the path\'s cmp/max facts, helper preconditions lifted to and proven at their call sites), no lossy integer operation feeds an exact result, every constructed decimal is well-formed, and the returned value equals a (op) b as a polynomial normal form under the path\'s value facts (zero/one shortcuts). NOT decided: that ten_to_the*(k)=10^k and count/normalise helpers meet their summaries; num-bigint arithmetic; termination.',
  'note': TRUST + ' Assume-guarantee between overloads (each assumed to meet its spec while another is checked): sound for partial correctness.',
 },
 'C09': {
  'technique': 'static analysis: scale-dimension typing of the four hand-written Rem variants and RemAssign; zero-divisor must-pass-through',
  'text': 'Partial, structural: each of the four Rem forms aligns both operands upward to max(scale) (direction obligations proven), applies % to (a, b) in that order at provably equal dimensions and constructs the result at that scale; RemAssign forwards in the right order; a zero divisor reaches num-bigint\'s panicking % on every path. num-bigint\'s truncated-% sign convention is trusted, not decided.',
  'note': TRUST,
 },
 'C19': {
  'technique': 'static analysis: the inductive step of the program-level property via scale-parametric dimension typing; by-value predicate check',
  'text': 'Partial, structural: the quantifier over programs is discharged by induction on program length from per-operation exactness for ARBITRARY operand representations: R-SCALE\'s proofs are parametric in the operands\' scales and digits, all compound-assignment bodies are covered, and every zero/one shortcut path is verified under the value fact (x:=0, x:=1) whatever the scale; is_zero looks only at the unscaled integer and is_one is by-value equality. The comparison/hash/normalisation clause re-establishes the ORDER-TABLE, SCAN-GAP, HASH-* and NORMAL-FORM necessary conditions of C02/C03/C18. The digit-level comparison arithmetic and the hashed bytes themselves are NOT decided.',
  'note': TRUST,
 },
}
_PENDING = 'check not built yet in this commit (implementation in progress, see DESIGN.md section 8)'
NOT_APPLICABLE = {('C%02d' % i): _PENDING for i in range(1, 21) if ('C%02d' % i) not in CLAIMS}
NOT_APPLICABLE['C13'] = ('exp(): positivity and last-digit accuracy of a Taylor-series loop are properties of computed numbers; no structural clause is a necessary '
                         'condition of the property (the configured result precision is checked under C20). Static analysis does not apply.')
