"""Helpers that did not exist in the reference tree are analysed inlined into their callers.

"Extract function" is the commonest larger refactoring: a block of a routine moves into a new private helper.  Rules that
describe the routine (its guards, its paths, its reviewed sites) would then see a call to an unknown function where the
code used to be.  Before the fact base is indexed, every crate-internal function whose path is unknown to the reference table
(tables/fn_fingerprints.json) and was not recognised as a rename (alias.py) is spliced into each of its call sites at MIR
level: its locals and blocks are appended to the caller (renumbered), parameters are assigned from the arguments, `return`
becomes an assignment of the return place to the call's destination followed by a jump to the call's successor, promoted
constants are copied under the caller's name.  The helper's own body is then dropped from the fact base (unless it is still
referenced: recursion, function pointers).  Nothing else changes: what is analysed is the code as written, minus the call
boundary.  Works bottom-up over helpers that call helpers; recursive helpers are left alone."""
import copy, json, re


def _eligible(b):
    n = b['name']
    return b['kind'] in ('Fn', 'AssocFn') and '::promoted[' not in n and '{closure' not in n


def _calls(body):
    for bl in body['blocks']:
        t = bl['term']
        if t.get('t') == 'call':
            c = t.get('callee') or {}
            yield bl, t, (c.get('resolved') or c.get('def') or '')


def _plain(n):
    prev = None
    while prev != n:
        prev = n
        n = re.sub(r'<[^<>]*>', '', n)
    return n


def _shift(o, dl, db, promo_map):
    """renumber locals (places, index projections) and promoted indices in a copied MIR fragment"""
    if isinstance(o, dict):
        if 'l' in o and 'p' in o and isinstance(o['l'], int):
            o['l'] += dl
            for e in o['p']:
                if isinstance(e, dict) and 'idx' in e and isinstance(e['idx'], int):
                    e['idx'] += dl
        if o.get('k') == 'const' and 'promoted' in o and o['promoted'] in promo_map:
            new_i, new_name = promo_map[o['promoted']]
            o['promoted'] = new_i
            o['s'] = 'const ' + new_name
        for k, v in o.items():
            if k in ('l', 'p') and 'l' in o and 'p' in o:
                continue
            _shift(v, dl, db, promo_map)
    elif isinstance(o, list):
        for v in o:
            _shift(v, dl, db, promo_map)


def _retarget(t, db):
    if 'to' in t and isinstance(t['to'], int):
        t['to'] += db
    if t.get('t') == 'switch':
        t['targets'] = [[v, tg + db] for v, tg in t['targets']]
        t['otherwise'] += db


def inline_call(caller, bl, call, helper, bodies, counter):
    dl = len(caller['locals'])
    db = max(b['id'] for b in caller['blocks']) + 1
    # promoted constants of the helper get a copy under the caller's name
    promo_map = {}
    for name, pb in list(bodies.items()):
        m = re.match(r'^%s::promoted\[(\d+)\]$' % re.escape(helper['name']), name)
        if m:
            old = int(m.group(1))
            new_i = 100000 + counter[0] * 100 + old
            new_name = '%s::promoted[%d]' % (caller['name'], new_i)
            cp = copy.deepcopy(pb)
            cp['name'] = new_name
            bodies[new_name] = cp
            promo_map[old] = (new_i, new_name)
    counter[0] += 1
    hb = copy.deepcopy(helper['blocks'])
    hlocals = list(helper['locals'])
    # generic parameters of the helper are replaced by the call's concrete type arguments
    gen = [g if isinstance(g, str) else (g.get('name') if isinstance(g, dict) else None) for g in (helper.get('generics') or [])]
    gargs = (call.get('callee') or {}).get('gargs') or []
    gmap = {g: a for g, a in zip(gen, gargs) if isinstance(g, str) and isinstance(a, str) and re.match(r'^[A-Z][A-Za-z0-9_]*$', g) and g != a}
    if gmap and len(gen) == len(gargs):
        pat = re.compile(r'(?<![A-Za-z0-9_:])(%s)(?![A-Za-z0-9_])' % '|'.join(re.escape(g) for g in gmap))

        def sub_ty(o):
            if isinstance(o, dict):
                for k, v in list(o.items()):
                    if isinstance(v, str) and k in ('ty', 'to', 'static', 'def', 'resolved', 's', 'impl_self'):
                        o[k] = pat.sub(lambda m: gmap[m.group(1)], v)
                    elif k == 'gargs' and isinstance(v, list):
                        o[k] = [pat.sub(lambda m: gmap[m.group(1)], x) if isinstance(x, str) else x for x in v]
                    else:
                        sub_ty(v)
            elif isinstance(o, list):
                for v in o:
                    sub_ty(v)
        sub_ty(hb)
        hlocals = [pat.sub(lambda m: gmap[m.group(1)], x) for x in hlocals]
    for b in hb:
        b['id'] += db
        _shift(b['st'], dl, db, promo_map)
        t = b['term']
        _shift({k: v for k, v in t.items() if k not in ('to', 'targets', 'otherwise')}, dl, db, promo_map)
        _retarget(t, db)
    caller['locals'] = caller['locals'] + hlocals
    for k, v in (helper.get('dbg') or {}).items():
        caller.setdefault('dbg', {})[str(int(k) + dl)] = v
    glue = db + len(hb)
    line = (call.get('loc') or {}).get('line', caller['span']['line'])
    # parameters := arguments
    for i, a in enumerate(call['args']):
        bl['st'].append({'s': 'assign', 'lhs': {'l': dl + 1 + i, 'p': [], 'ty': hlocals[1 + i]}, 'rv': {'r': 'use', 'op': a}, 'line': line})
    succ = call.get('to')
    for b in hb:
        if b['term'].get('t') == 'return':
            b['term'] = {'t': 'goto', 'to': glue} if succ is not None else {'t': 'unreachable'}
    bl['term'] = {'t': 'goto', 'to': db}
    caller['blocks'].extend(hb)
    if succ is not None:
        caller['blocks'].append({'id': glue, 'cleanup': False,
                                 'st': [{'s': 'assign', 'lhs': call['dest'], 'rv': {'r': 'use', 'op': {'k': 'move', 'pl': {'l': dl, 'p': [], 'ty': hlocals[0]}}}, 'line': line}],
                                 'term': {'t': 'goto', 'to': succ}})
    for m in helper.get('macros') or []:
        if m not in caller.setdefault('macros', []):
            caller['macros'].append(m)


def _local_of(op):
    if isinstance(op, dict) and op.get('k') in ('move', 'copy') and isinstance(op.get('pl'), dict) and not op['pl'].get('p'):
        return op['pl']['l']
    return None


def thread_try(body, max_dups=40):
    """after a splice, `helper(..)?` has become: build Ok(..) / Err(..) in the helper's arms, join, call Try::branch on the
    joined value, switch on Continue / Break.  The join hides from path rules which arm leads where.  Each arm whose value
    is a literal Ok / Err (Some / None) gets its own copy of the join..branch..switch blocks with the switch replaced by the
    jump the variant determines (jump threading); statements and the call itself are kept, so nothing else changes."""
    blocks = {b['id']: b for b in body['blocks']}
    nxt = [max(blocks) + 1]
    dups = 0
    preds = {}
    for b in body['blocks']:
        t = b['term']
        if t.get('t') == 'goto':
            preds.setdefault(t['to'], []).append(b['id'])
    for B in list(body['blocks']):
        t = B['term']
        if t.get('t') != 'call' or t.get('to') is None or len(t.get('args') or []) != 1:
            continue
        c = t.get('callee') or {}
        if not re.search(r'Try>?::branch$', (c.get('resolved') or '')) and not re.search(r'Try>?::branch$', (c.get('def') or '')):
            continue
        x = _local_of(t['args'][0])
        dest = t.get('dest') or {}
        C = blocks.get(t['to'])
        if x is None or dest.get('p') or C is None or C['term'].get('t') != 'switch':
            continue
        d = _local_of(C['term']['on'])
        is_discr = any(st.get('s') == 'assign' and not st['lhs'].get('p') and st['lhs']['l'] == d and st['rv'].get('r') == 'discr'
                       and st['rv']['pl'].get('l') == dest.get('l') and not st['rv']['pl'].get('p') for st in C['st'])
        tg = {str(v): g for v, g in C['term']['targets']}
        if d is None or not is_discr or '0' not in tg or ('1' not in tg and C['term'].get('otherwise') is None):
            continue
        brk = tg.get('1', C['term'].get('otherwise'))
        # backwards along trivial gotos from B, following the copied local
        found = []          # (source block id, chain of block ids from its successor to B, variant)

        def back(bid, want, chain, depth):
            blk = blocks[bid]
            w = want
            for st in reversed(blk['st'] if bid != B['id'] else blk['st']):
                if st.get('s') != 'assign' or st['lhs'].get('p') or st['lhs']['l'] != w:
                    if st.get('s') == 'assign' and st['lhs']['l'] == w:
                        return          # written through a projection: give up on this path
                    continue
                rv = st['rv']
                if rv.get('r') == 'use' and _local_of(rv.get('op')) is not None:
                    w = _local_of(rv['op'])
                    continue
                if rv.get('r') == 'agg' and rv['kind'].get('a') == 'adt' and rv['kind'].get('variant') in ('Ok', 'Err', 'Some', 'None') \
                        and re.search(r'(^|::)(Result|Option)$', rv['kind'].get('adt') or ''):
                    if chain:
                        found.append((bid, list(chain), rv['kind']['variant']))
                    return
                return
            if depth >= 6:
                return
            for pb in preds.get(bid, []):
                if pb in chain or pb == bid:
                    continue
                back(pb, w, [bid] + chain, depth + 1)
        back(B['id'], x, [], 0)
        for src, chain, variant in found:
            if dups >= max_dups or blocks[src]['term'].get('t') != 'goto' or blocks[src]['term']['to'] != chain[0]:
                continue
            target = tg['0'] if variant in ('Ok', 'Some') else brk
            ids = {}
            for cid in chain + [C['id']]:
                ids[cid] = nxt[0]
                nxt[0] += 1
            for cid in chain + [C['id']]:
                nb = copy.deepcopy(blocks[cid])
                nb['id'] = ids[cid]
                tt = nb['term']
                if cid == C['id']:
                    nb['term'] = {'t': 'goto', 'to': target}
                elif tt.get('t') in ('goto', 'call') and tt.get('to') in ids:
                    tt['to'] = ids[tt['to']]
                body['blocks'].append(nb)
                blocks[nb['id']] = nb
            blocks[src]['term']['to'] = ids[chain[0]]
            dups += 1
    return dups


def inline_new_helpers(raw, ref_names, max_blocks=600):
    """-> list of helper paths that were inlined"""
    bodies = {b['name']: b for b in raw['bodies']}
    order = [b['name'] for b in raw['bodies']]
    new = {n for n, b in bodies.items() if _eligible(b) and n not in ref_names and _plain(n) not in ref_names}
    if not new:
        return []
    # functions referenced other than by a direct call (function pointers) keep their bodies
    txt_refs = set()

    def scan(o):
        if isinstance(o, dict):
            if o.get('k') == 'const' and o.get('fn_def'):
                txt_refs.add(_plain(o['fn_def']))
            for v in o.values():
                scan(v)
        elif isinstance(o, list):
            for v in o:
                scan(v)
    scan(raw['bodies'])
    plain_new = {}
    for n in new:
        plain_new[_plain(n)] = n
    done = []
    spliced = set()
    touched = set()
    counter = [0]
    for _round in range(6):
        progressed = False
        # a helper is ready when it calls no other pending helper (bottom-up) and is not recursive
        ready = set()
        for n in list(new):
            callees = {plain_new.get(_plain(c)) for _, _, c in _calls(bodies[n])} - {None}
            if n in callees:
                new.discard(n)          # recursive: leave it alone
                continue
            if not (callees & new):
                ready.add(n)
        if not ready:
            break
        for cn in list(order):
            caller = bodies.get(cn)
            if caller is None or cn in ready:
                continue
            guard = 0
            changed = True
            while changed and guard < 50:
                changed = False
                guard += 1
                for bl, t, c in list(_calls(caller)):
                    hn = plain_new.get(_plain(c))
                    if hn in ready and len(caller['blocks']) + len(bodies[hn]['blocks']) <= max_blocks:
                        inline_call(caller, bl, t, bodies[hn], bodies, counter)
                        spliced.add(hn)
                        touched.add(cn)
                        changed = True
                        progressed = True
                        break
        for n in ready:
            new.discard(n)
            still_called = any(plain_new.get(_plain(c)) == n for b in bodies.values() if b['name'] != n for _, _, c in _calls(b))
            # only a helper that really was spliced somewhere disappears; trait methods stay (they are entered through
            # dynamic / generic dispatch that leaves no direct call in the crate)
            if n in spliced and not bodies[n].get('impl_trait') and not bodies[n].get('impl_trait_def') and not still_called and _plain(n) not in txt_refs:
                done.append(n)
                del bodies[n]
                for k in [k for k in bodies if k.startswith(n + '::promoted[')]:
                    del bodies[k]
        if not progressed:
            break
    for cn in touched:
        if cn in bodies:
            thread_try(bodies[cn])
    raw['bodies'] = [bodies[n] for n in order if n in bodies] + [b for n, b in bodies.items() if n not in order]
    return done
