"""ORDER-TABLE: the decision table of `<BigDecimalRef as Ord>::cmp`, extracted from its CFG.

For operands of the same non-zero sign the ordering of the values is the ordering M of the magnitudes
for positive operands and its reverse for negative ones.  Every return path of `cmp` is reduced to
(base, number of `.reverse()` mod 2) and the path predicates to a cell (scale order, difference fits,
sign).  With the helpers' contracts
   compare_scaled_biguints(a, b, k)  =  a <=> b*10^k          (its doc contract; digits NOT decided here)
   checked_diff(x, y)                =  (x <=> y, |x - y| if it fits u64)      (checked below, 3 cells)
each base has a known relation to M:
   compare(self.digits, other.digits, diff) under scale(self) >= scale(other)   is  M
   compare(other.digits, self.digits, diff) under scale(self) <  scale(other)   is  reverse(M)
   the scale ordering itself (difference overflows u64)                           is  reverse(M)
and the total number of reversals must be even for positive and odd for negative operands.
A path that returns a magnitude ordering without having tested the sign cannot be right for both
signs.  This decides the shape of the table - which comparison, which orientation, which sign
correction - not the digit comparison inside compare_scaled_biguints.
"""
import re
from rules import table as TB
from rules.table import Undecided

SIGNX = r'(?:arg([12])\.sign|sign\(arg([12])\))'


def _sign_atom(s, cond):
    """-> set of signs ('Minus','Plus') of the (same-sign, non-zero) operands under which the atom holds, or None"""
    m = re.match(r'^(Eq|Ne)\(%s,Sign::(Minus|Plus)\)$' % SIGNX, s) or None
    if m:
        op, lit = m.group(1), m.group(4)
        if cond[0] == 'notin' and 0 in cond[1]:
            truth_val = True
        elif cond == ('eq', 0):
            truth_val = False
        elif cond == ('eq', 1):
            truth_val = True
        else:
            return None
        holds_for_lit = truth_val if op == 'Eq' else (not truth_val)
        other = 'Plus' if lit == 'Minus' else 'Minus'
        return {lit} if holds_for_lit else {other}
    m = re.match(r'^discr\(%s\)$' % SIGNX, s)
    if m:
        names = {0: 'Minus', 1: 'NoSign', 2: 'Plus'}
        if cond[0] == 'eq':
            return {names.get(cond[1])} & {'Minus', 'Plus'}
        return {'Minus', 'Plus'} - {names.get(c) for c in cond[1]}
    m = re.match(r'^is_(negative|positive)\(arg[12]\)$', s)
    if m and (cond == ('eq', 0) or (cond[0] == 'notin' and 0 in cond[1])):
        t = cond != ('eq', 0)
        pos = (m.group(1) == 'positive')
        return {'Plus'} if t == pos else {'Minus'}
    return None


def _strip_reverse(s):
    n = 0
    while True:
        m = re.match(r'^reverse\((.*)\)$', s)
        if not m:
            return s, n
        s = m.group(1)
        n += 1


def checked_diff_contract(rep, F, rule='ORDER-TABLE'):
    fn = None
    for k, f in F.fns.items():
        if re.search(r'(^|::)checked_diff$', k):
            fn = f
    if fn is None:
        rep.violation(rule, 'checked_diff:missing', 'anchor function checked_diff not found (fail closed)')
        return 0
    n = 0
    try:
        paths = TB.PathEnum(F, fn, max_paths=16).run()
    except Undecided as e:
        rep.undecided_anchor(rule, fn.key + ':contract', str(e), fn.where())
        return 0
    want = {255: ('Less', ('arg2', 'arg1')), 0: ('Equal', None), 1: ('Greater', ('arg1', 'arg2'))}
    for atoms, out in paths:
        cell = None
        for a in atoms:
            if TB.show(TB.strip_refs(a[0])) == 'discr(cmp(arg1,arg2))' and a[1][0] == 'eq':
                cell = a[1][1]
        s = TB.show(TB.strip_refs(out))
        key = '%s:contract[%s]' % (fn.key, {255: 'Less', 0: 'Equal', 1: 'Greater'}.get(cell, '?'))
        if cell not in want:
            rep.undecided(rule, key, 'path not keyed by a.cmp(b): %s' % [TB.show(a[0]) for a in atoms], fn.where())
            continue
        n += 1
        nm, order = want[cell]
        m = re.match(r'^\(Ordering::(\w+),(.*)\)$', s)
        if not m:
            rep.undecided(rule, key, 'unrecognised result shape %s' % s[:100], fn.where())
            continue
        if m.group(1) != nm:
            rep.violation(rule, key, 'checked_diff reports Ordering::%s where a.cmp(b) is %s' % (m.group(1), nm), fn.where())
            continue
        rest = m.group(2)
        if order is None:
            if rest == 'Option::Some(0)':
                rep.ok(rule, key, 'equal scales: (Equal, Some(0))', fn.where())
            else:
                rep.violation(rule, key, 'equal operands must give Some(0); gives %s' % rest[:60], fn.where())
            continue
        m2 = re.search(r'\((arg[12]),(arg[12])\)\)$', rest)
        if not m2:
            rep.undecided(rule, key, 'difference not computed by the subtracting closure: %s' % rest[:80], fn.where())
            continue
        if (m2.group(1), m2.group(2)) == order:
            rep.ok(rule, key, 'a.cmp(b)=%s: difference is larger - smaller (%s - %s)' % (nm, order[0], order[1]), fn.where())
        else:
            rep.violation(rule, key, 'a.cmp(b)=%s but the difference is computed as %s - %s (always fails checked_sub / wrong magnitude)' % (nm, m2.group(1), m2.group(2)), fn.where())
    # the subtracting closure: checked_sub(x, y) then to_u64, operands in order
    for k, f in F.fns.items():
        if re.search(r'checked_diff::\{closure#0\}$', k):
            try:
                ps = TB.PathEnum(F, f, max_paths=4).run()
            except Undecided as e:
                rep.undecided(rule, f.key + ':sub', str(e), f.where())
                continue
            s = TB.show(TB.strip_refs(ps[0][1])) if len(ps) == 1 else ''
            n += 1
            if re.match(r'^and_then\(checked_sub\(arg2,arg3\),', s):
                rep.ok(rule, f.key + ':sub', 'closure computes checked_sub(x, y) in argument order, then narrows', f.where())
            elif re.match(r'^and_then\(checked_sub\(arg3,arg2\),', s):
                rep.violation(rule, f.key + ':sub', 'closure subtracts in the wrong order: %s' % s[:80], f.where())
            else:
                rep.undecided(rule, f.key + ':sub', 'unrecognised closure body %s' % s[:80], f.where())
    return n


def cmp_table(rep, F, rule='ORDER-TABLE'):
    fn = None
    for k, f in F.fns.items():
        if k.endswith('::cmp') and 'Ord for BigDecimalRef' in k and 'PartialOrd' not in k:
            fn = f
    if fn is None:
        rep.violation(rule, 'Ord for BigDecimalRef::cmp:missing', 'anchor function not found (fail closed)')
        return 0
    try:
        paths = TB.PathEnum(F, fn, max_paths=128).run()
    except Undecided as e:
        rep.undecided_anchor(rule, fn.key + ':order-table', str(e), fn.where())
        return 0
    n = 0
    seen = set()
    for atoms, out in paths:
        signs = {'Minus', 'Plus'}
        same_nonzero = 0
        scale_ord = None
        fits = None
        unknown = []
        infeasible = False
        for a in atoms:
            s = TB.show(TB.strip_refs(a[0]))
            c = a[1]
            if re.match(r'^Ne\(cmp\(sign\(arg1\),sign\(arg2\)\),Ordering::Equal\)$', s):
                if c == ('eq', 0):
                    same_nonzero |= 1
                else:
                    same_nonzero = -1
                continue
            if re.match(r'^discr\(cmp\(sign\(arg1\),sign\(arg2\)\)\)$', s):
                # `match self.sign().cmp(&other.sign())`: Equal arm = same sign
                if c == ('eq', 0):
                    same_nonzero |= 1
                elif c[0] == 'eq' or (c[0] == 'notin' and 0 in c[1]):
                    same_nonzero = -1
                continue
            if re.match(r'^Eq\(sign\(arg[12]\),Sign::NoSign\)$', s):
                if c == ('eq', 0):
                    same_nonzero |= 2
                else:
                    same_nonzero = -2 if same_nonzero >= 0 else same_nonzero
                continue
            m = re.match(r'^discr\(checked_diff\(arg1\.scale,arg2\.scale\)\.([01])\)$', s)
            if m:
                if m.group(1) == '0':
                    if c[0] == 'eq':
                        scale_ord = {255: 'Less', 0: 'Equal', 1: 'Greater'}.get(c[1])
                    elif set(c[1]) >= {255, 0, 1}:
                        infeasible = True
                else:
                    if c[0] == 'eq':
                        fits = (c[1] == 1)
                continue
            md = re.match(r'^discr\(%s\)$' % SIGNX, s)
            if md:
                # a `match` on a sign: the NoSign arm is the both-zero row (the signs are already known to be equal), any
                # other arm establishes a non-zero operand
                if c == ('eq', 1):
                    if same_nonzero > 0 and (same_nonzero & 2):
                        infeasible = True        # a NoSign arm after the operands were established to be non-zero
                    else:
                        same_nonzero = -2 if same_nonzero >= 0 else same_nonzero
                    continue
                if (c[0] == 'eq' and c[1] in (0, 2)) or (c[0] == 'notin' and 1 in c[1]):
                    if same_nonzero == -2:
                        infeasible = True        # a non-zero arm after the both-zero row was entered
                    else:
                        same_nonzero |= 2
            sa = _sign_atom(s, c)
            if sa is not None:
                signs &= sa
                continue
            unknown.append(s)
        if infeasible:
            continue
        o = TB.show(TB.strip_refs(out))
        base, rev = _strip_reverse(o)
        cell = 'scale=%s,fits=%s,sign=%s' % (scale_ord, fits, '|'.join(sorted(signs)))
        key = '%s:order-table[%s]' % (fn.key, cell)
        if key in seen:
            key += '#dup'
        seen.add(key)
        if same_nonzero == -1:
            n += 1
            key = fn.key + ':order-table[signs differ]'
            if o == 'cmp(sign(arg1),sign(arg2))':
                rep.ok(rule, key, 'different signs: the order of the signs (Minus < NoSign < Plus)', fn.where())
            else:
                rep.violation(rule, key, 'operands of different sign must compare as their signs; returns %s' % o[:80], fn.where())
            continue
        if same_nonzero == -2:
            n += 1
            key = fn.key + ':order-table[both zero]'
            if o == 'Ordering::Equal':
                rep.ok(rule, key, 'both zero: Equal', fn.where())
            else:
                rep.violation(rule, key, 'two zeros must compare Equal; returns %s' % o[:80], fn.where())
            continue
        if same_nonzero != 3 or unknown:
            rep.undecided_anchor(rule, key, 'path predicates outside the table: %s' % (unknown or 'sign prologue not recognised'), fn.where())
            continue
        n += 1
        # relation of the base to M (magnitude order of self vs other): +0 same, +1 reversed
        mcmp = re.match(r'^compare_scaled_biguints\(arg([12])\.digits,arg([12])\.digits,downcast\(checked_diff\(arg1\.scale,arg2\.scale\)\.1\)\.0\)$', base)
        if mcmp:
            a, b = mcmp.group(1), mcmp.group(2)
            if fits is None:
                rep.undecided(rule, key, 'whether the scale difference fits u64 is not visible on this path', fn.where())
                continue
            if fits is not True:
                rep.violation(rule, key, 'digit comparison used although the scale difference does not fit u64 on this path: %s' % o[:80], fn.where())
                continue
            if (a, b) == ('1', '2') and scale_ord in ('Greater', 'Equal'):
                rel = 0
            elif (a, b) == ('2', '1') and scale_ord == 'Less':
                rel = 1
            else:
                rep.violation(rule, key, 'compare_scaled_biguints(a, b, k) decides a <=> b*10^k: with scale(self) %s scale(other) the operands must be (%s); found (arg%s.digits, arg%s.digits)'
                              % ({'Less': '<', 'Equal': '=', 'Greater': '>'}.get(scale_ord, '?'), 'other, self' if scale_ord == 'Less' else 'self, other', a, b), fn.where())
                continue
        elif base == 'checked_diff(arg1.scale,arg2.scale).0':
            if fits is None:
                rep.undecided(rule, key, 'whether the scale difference fits u64 is not visible on this path', fn.where())
                continue
            if fits is not False:
                rep.violation(rule, key, 'the scale ordering alone decides although the difference fits (digits ignored): %s' % o[:80], fn.where())
                continue
            rel = 1            # larger scale = smaller magnitude
        else:
            rep.undecided_anchor(rule, key, 'unrecognised comparison base %s' % base[:100], fn.where())
            continue
        total = (rel + rev) % 2
        bad = [sg for sg in sorted(signs) if total != (1 if sg == 'Minus' else 0)]
        if bad:
            if len(signs) == 2:
                why = 'the magnitude ordering is returned without a sign test: wrong for %s operands' % ' and '.join(x.lower() + ('' if x != 'Minus' else ' (negative)') for x in bad)
            else:
                why = 'for %s operands the magnitude order must be %s; this path applies %d reversal(s) to a base that is %s' % (
                    bad[0], 'reversed' if bad[0] == 'Minus' else 'kept', rev, 'reverse(M)' if rel else 'M')
            rep.violation(rule, key, '%s [returns %s]' % (why, o[:90]), fn.where())
        else:
            rep.ok(rule, key, '%s with %d reversal(s) = %s' % ('reverse(M)' if rel else 'M', rev, 'reverse(M)' if total else 'M'), fn.where())
    return n


# ---------------------------------------------------------------- equality
def _roles(s):
    """role-bearing positions in a term string -> list of (role, operand-number, what)"""
    out = []
    for m in re.finditer(r'highest_bit_lessthan_scaled\(arg([12])\.digits,arg([12])\.digits,', s):
        out.append(('U', m.group(1), 'highest_bit_lessthan_scaled 1st operand'))
        out.append(('S', m.group(2), 'highest_bit_lessthan_scaled 2nd operand'))
    for m in re.finditer(r'mul\(arg([12])\.digits,ten_to_the', s):
        out.append(('S', m.group(1), 'operand multiplied by the power of ten'))
    for m in re.finditer(r'split_at\(to_radix_le\(arg([12])\.digits,10\)', s):
        out.append(('U', m.group(1), 'operand whose low digits are split off'))
    for m in re.finditer(r'^Gt\(unwrap\(to_usize\([^()]*(?:\([^()]*(?:\([^()]*\))*[^()]*\))*[^()]*\)\),len\(to_radix_le\(arg([12])\.digits,10\)\)\)$', s):
        out.append(('U', m.group(1), 'operand whose digit count bounds the zero count'))
    return out


def eq_table(rep, F, rule='ORDER-TABLE'):
    """prologue and orientation table of check_equality_bigdecimal_ref (loop bodies cut: digit-level paths not decided)"""
    fn = None
    for k, f in F.fns.items():
        if re.search(r'(^|::)check_equality_bigdecimal_ref$', k):
            fn = f
    if fn is None:
        rep.violation(rule, 'check_equality_bigdecimal_ref:missing', 'anchor function not found (fail closed)')
        return 0
    try:
        paths = TB.PathEnum(F, fn, max_paths=4000, cut_loops=True).run()
    except Undecided as e:
        rep.undecided_anchor(rule, fn.key + ':eq-table', str(e), fn.where())
        return 0
    cells = {}

    def put(cell, status, why):
        cur = cells.get(cell)
        if cur is None or (status == 'violation' and cur[0] != 'violation') or (status == 'undecided' and cur[0] == 'ok'):
            cells[cell] = (status, why)

    for atoms, out in paths:
        o = TB.show(TB.strip_refs(out))
        strs = [(TB.show(TB.strip_refs(a[0])), a[1]) for a in atoms]
        s1 = s2 = None            # is NoSign?
        differ = None
        scale_ord = None
        fits = None
        infeasible = False
        digit_level = o.startswith("('loop'")
        for s, c in strs:
            m = re.match(r'^discr\(sign\(arg([12])\)\)$', s)
            if m:
                z = (c == ('eq', 1)) if c[0] == 'eq' else (False if 1 in c[1] else None)
                if m.group(1) == '1':
                    s1 = z
                else:
                    s2 = z
                continue
            if re.match(r'^Ne\(sign\(arg[12]\),sign\(arg[12]\)\)$', s):
                differ = (c != ('eq', 0))
                continue
            m = re.match(r'^discr\(checked_diff\(arg1\.scale,arg2\.scale\)\.([01])\)$', s)
            if m:
                if m.group(1) == '0':
                    if c[0] == 'eq':
                        scale_ord = {255: 'Less', 0: 'Equal', 1: 'Greater'}.get(c[1])
                    elif set(c[1]) >= {255, 0, 1}:
                        infeasible = True
                elif c[0] == 'eq':
                    fits = (c[1] == 1)
                elif 1 in c[1]:
                    fits = False
                continue
            if 'next(' in s or 'checked_mul' in s or 'checked_add' in s:
                digit_level = True
        if infeasible:
            continue
        if s1 and s2:
            put('both zero', 'ok' if o == '1' else 'violation', 'two zeros are equal' if o == '1' else 'two zeros must be equal; returns %s' % o[:60])
            continue
        if differ:
            put('signs differ', 'ok' if o == '0' else 'violation', 'different signs are unequal' if o == '0' else 'operands of different sign must be unequal; returns %s' % o[:60])
            continue
        if differ is None:
            put('prologue', 'undecided', 'sign prologue not recognised: %s' % [s for s, _ in strs][:3])
            continue
        if scale_ord == 'Equal':
            good = o in ('Eq(arg1.digits,arg2.digits)', 'Eq(arg2.digits,arg1.digits)')
            put('scale=Equal', 'ok' if good else 'violation', 'equal scales: digits compared directly' if good else 'equal scales must compare the digits directly; returns %s' % o[:80])
            continue
        if scale_ord in ('Less', 'Greater') and fits is False:
            put('scale=%s,fits=False' % scale_ord, 'ok' if o == '0' else 'violation',
                'scale gap beyond u64: unequal' if o == '0' else 'a scale gap that does not fit u64 must give false; returns %s' % o[:60])
            continue
        if scale_ord in ('Less', 'Greater') and fits:
            U = '1' if scale_ord == 'Greater' else '2'       # the operand with the larger scale carries the extra low digits
            S = '2' if U == '1' else '1'
            bad = None
            nroles = 0
            for s in [x for x, _ in strs] + [o]:
                for role, opnd, what in _roles(s):
                    nroles += 1
                    want = U if role == 'U' else S
                    if opnd != want:
                        bad = 'scale(lhs) %s scale(rhs): the %s must be %s.digits, found arg%s.digits' % ('>' if scale_ord == 'Greater' else '<', what, 'lhs' if want == '1' else 'rhs', opnd)
            cell = 'scale=%s,fits=True:orientation' % scale_ord
            if bad:
                put(cell, 'violation', bad)
            elif nroles:
                put(cell, 'ok', 'every oriented helper sees (larger-scale digits, smaller-scale digits x 10^diff) in that order')
            if not digit_level and o == '1':
                put('scale=%s,fits=True:true-without-digits' % scale_ord, 'violation', 'returns true for different scales without any digit comparison')
            continue
        put('other', 'undecided', 'path outside the table: %s' % [s for s, _ in strs][:4])
    n = 0
    for cell, (status, why) in sorted(cells.items()):
        key = '%s:eq-table[%s]' % (fn.key, cell)
        n += 1
        if status == 'ok':
            rep.ok(rule, key, why, fn.where())
        elif status == 'violation':
            rep.violation(rule, key, why, fn.where())
        else:
            rep.undecided(rule, key, why, fn.where())
    return n
