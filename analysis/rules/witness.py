"""Type-level witnesses: compile_fail doc tests (rustc's own type checker is the decision procedure).
The witness crate is copied to a scratch directory (path dependency rewritten to the repository
under analysis), built with `cargo +nightly test --doc --offline`; only compilation happens: the
compiling twins are `no_run`."""
import os, re, shutil, subprocess, tempfile
import extract

VERIF = os.path.dirname(os.path.dirname(os.path.dirname(os.path.abspath(__file__))))


def run(rep, wanted, rule='WITNESS'):
    """wanted: regex on witness names (e.g. r'^W[12]')"""
    tmp = tempfile.mkdtemp(prefix='witness-')
    try:
        dst = os.path.join(tmp, 'w')
        shutil.copytree(os.path.join(VERIF, 'witness'), dst, ignore=shutil.ignore_patterns('target'))
        ct = os.path.join(dst, 'Cargo.toml')
        with open(ct) as fh:
            txt = fh.read()
        with open(ct, 'w') as fh:
            fh.write(txt.replace('path = "/repo"', 'path = "%s"' % extract.REPO))
        lock = os.path.join(extract.REPO, 'Cargo.lock')
        if os.path.exists(lock):
            shutil.copy(lock, os.path.join(dst, 'Cargo.lock'))
        env = dict(os.environ, CARGO_TARGET_DIR=os.path.join(tmp, 'target'), CARGO_NET_OFFLINE='true')
        p = subprocess.run(['cargo', '+nightly', 'test', '--doc', '--offline'], cwd=dst, env=env, stdout=subprocess.PIPE, stderr=subprocess.STDOUT, text=True)
        out = p.stdout
        seen = {}
        for m in re.finditer(r'^test src/lib\.rs - (\w+) \(line \d+\) - (compile fail|compile) \.\.\. (\w+)', out, re.M):
            seen.setdefault(m.group(1), {})[m.group(2)] = m.group(3)
        n = 0
        for name, res in sorted(seen.items()):
            if not re.search(wanted, name):
                continue
            n += 1
            cf, tw = res.get('compile fail'), res.get('compile')
            if cf == 'ok' and tw == 'ok':
                rep.ok(rule, name, 'the violating program is rejected by rustc with the expected error code and its twin (differing only in the offending line) compiles')
            elif tw != 'ok':
                rep.violation(rule, name, 'the compiling twin of this witness no longer compiles (%s): the API the witness speaks about changed' % tw)
            else:
                rep.violation(rule, name, 'a program that must not type-check is now accepted (or fails for a different reason): %s' % cf)
        if n == 0:
            rep.violation(rule, 'witness-crate', 'no witness result parsed (cargo exit %d): %s' % (p.returncode, out[-400:]))
        return n
    finally:
        shutil.rmtree(tmp, ignore_errors=True)
