"""NUMERAL-SHAPE: symbolic interpretation of what the exponent-notation writers put on the output tape.

Each return path of a writer is a sequence of writes: pieces of the digit string S (whole, or the two halves of a
split_at), literal zeros, at most one '.', and the formatted exponent E.  Nothing is executed: lengths are linear terms
over the symbols L = len(S), scale, the split position, ... and the numeral written denotes
        int(S) * 10^z * 10^(E - m)         z = zeros appended, m = digit characters after the point
which must be the decimal's value int(S) * 10^(-scale):   z + E - m + scale == 0   as a linear identity (modulo the
equalities the path's own tests establish, e.g. `rest.is_empty()`), with the pieces covering S exactly once, in order.
This decides the decimal-point / exponent bookkeeping of the writers for every digit count and scale; it does not
decide to_str_radix or the integer formatting of the exponent."""
import re
from fractions import Fraction
from rules import table as TB
from facts import cres
from rules.table import Undecided


def _is(t, k):
    return isinstance(t, tuple) and t and t[0] == k


def _callp(t, pat):
    return _is(t, 'call') and re.search(pat, TB._plain(t[1])) is not None


def norm(t):
    """drop borrows, as_str / deref / as_bytes views and value-preserving casts"""
    while True:
        t = TB.strip_refs(t)
        if _is(t, 'cast'):
            t = t[1]
        elif _is(t, 'ovf'):
            t = t[1]
        elif _callp(t, r'String::as_str$|Deref::deref$|str::as_bytes$|String::as_bytes$|AsRef::as_ref$|String::as_mut_str$|borrow::Borrow::borrow$'):
            t = t[2][0]
        else:
            return t


def add(a, b, k=1):
    r = dict(a)
    for x, c in b.items():
        r[x] = r.get(x, 0) + k * c
        if r[x] == 0:
            del r[x]
    return r


def lin(t):
    """linear form {atom: coef} (atom 1 = constant) of an integer-valued term"""
    t = norm(t)
    if _is(t, 'const') and isinstance(t[1], int):
        return {1: t[1]} if t[1] else {}
    if _is(t, 'bin') and t[1] in ('Add', 'Sub'):
        return add(lin(t[2]), lin(t[3]), 1 if t[1] == 'Add' else -1)
    if _is(t, 'un') and t[1] == 'Neg':
        return add({}, lin(t[2]), -1)
    if _callp(t, r'ops::Neg::neg$'):
        return add({}, lin(t[2][0]), -1)
    if _callp(t, r'::len$'):
        return length(t[2][0])
    if _callp(t, r'NonZero(::<.*>)?::get$'):
        return lin(t[2][0])
    if _is(t, 'field') and t[2] == '0' and _is(norm(t[1]), 'downcast'):
        inner = norm(norm(t[1])[1])
        if _callp(inner, r'checked_sub$'):
            return add(lin(inner[2][0]), lin(inner[2][1]), -1)
        if _callp(inner, r'checked_add$'):
            return add(lin(inner[2][0]), lin(inner[2][1]), 1)
    return {t: 1}


def length(s):
    """linear form of the length of a string/slice term"""
    s = norm(s)
    if _is(s, 'field') and _callp(norm(s[1]), r'split_at$'):
        sp = norm(s[1])
        k = lin(sp[2][1])
        return k if s[2] == '0' else add(length(sp[2][0]), k, -1)
    if _callp(s, r'Index::index$|IndexMut::index_mut$') and len(s[2]) == 2:
        r = norm(s[2][1])
        if _is(r, 'adt') and r[2] == 'RangeTo':
            return lin(r[3][0])
        if _is(r, 'adt') and r[2] == 'RangeFrom':
            return add(length(s[2][0]), lin(r[3][0]), -1)
        if _is(r, 'adt') and r[2] == 'Range':
            return add(lin(r[3][1]), lin(r[3][0]), -1)
    if _is(s, 'lit'):
        m = re.match(r'^const b?"(.*)"$', s[1] or '')
        if m:
            return {1: len(m.group(1))} if m.group(1) else {}
    if _callp(s, r'String::from_utf8$|Result::unwrap$|Result::expect$|String::into_bytes$|String::from_utf8_unchecked$'):
        return length(s[2][0])
    if _is(s, 'mutated'):
        callee = TB._plain(s[2])
        if callee.endswith('String::insert') or callee.endswith('String::push') or callee.endswith('Vec::push'):
            return add(length(s[1]), {1: 1})
        if (callee.endswith('String::insert_str') or callee.endswith('String::push_str')) and s[3] and lit_text(s[3][-1]) is not None:
            return add(length(s[1]), {1: len(lit_text(s[3][-1]))})
        if re.search(r'Extend.*::extend$|String::extend$', callee) and s[3]:
            it = norm(s[3][0])
            if _callp(it, r'Iterator::take$'):
                return add(length(s[1]), lin(it[2][1]))
    return {('len', s): 1}


def span(s):
    """(root string, start, end) of a slice of a digit string, as linear forms"""
    s = norm(s)
    if _is(s, 'field') and _callp(norm(s[1]), r'split_at$'):
        sp = norm(s[1])
        root, a, b = span(sp[2][0])
        k = add(a, lin(sp[2][1]))
        return (root, a, k) if s[2] == '0' else (root, k, b)
    if _callp(s, r'Index::index$') and len(s[2]) == 2:
        r = norm(s[2][1])
        if _is(r, 'adt') and r[2] in ('RangeFull', 'RangeTo', 'RangeFrom', 'Range'):
            root, a, b = span(s[2][0])
            if r[2] == 'RangeFull':
                return (root, a, b)
            if r[2] == 'RangeTo':
                return (root, a, add(a, lin(r[3][0])))
            if r[2] == 'RangeFrom':
                return (root, add(a, lin(r[3][0])), b)
            return (root, add(a, lin(r[3][0])), add(a, lin(r[3][1])))
    return (s, {}, length(s))


def multiple_of(R, facts):
    """is the linear form R zero modulo the equalities `facts` (each a linear form == 0)?  Gaussian elimination."""
    rows = [dict(f) for f in facts if f]
    R = dict(R)
    while R:
        piv = None
        for x in R:
            for i, f in enumerate(rows):
                if x in f:
                    piv = (x, i)
                    break
            if piv:
                break
        if not piv:
            return False
        x, i = piv
        f = rows.pop(i)
        c = Fraction(R[x]) / Fraction(f[x])
        R = {k: v for k, v in add(R, f, -c).items() if v != 0}
        rows = [{k: v for k, v in add(g, f, -Fraction(g.get(x, 0)) / Fraction(f[x])).items() if v != 0} if x in g else g for g in rows]
    return True


def show_lin(l):
    if not l:
        return '0'
    out = []
    for k, c in sorted(l.items(), key=lambda kv: str(kv[0])):
        name = '' if k == 1 else (TB.show(k[1])[:30].join(['len(', ')']) if isinstance(k, tuple) and k and k[0] == 'len' else TB.show(k)[:40])
        out.append(('%+g' % float(c)) + ('*' + name if name else ''))
    return ' '.join(out)


def lit_text(t):
    t = norm(t)
    if _is(t, 'lit'):
        m = re.match(r'^const b?"(.*)"$', t[1] or '')
        if m:
            return m.group(1)
    if _is(t, 'const') and isinstance(t[1], int) and 0 < t[1] < 128:
        return chr(t[1])
    return None


def consistent(atoms):
    """a path that takes both outcomes of the same test is infeasible"""
    seen = {}
    for a, c in atoms:
        k = norm(a)
        truth = not (c == ('eq', 0))
        if c[0] == 'eq' and c[1] not in (0, 1):
            continue
        if k in seen and seen[k] != truth:
            return False
        seen[k] = truth
    return True


def path_facts(atoms):
    facts = []
    for a, c in atoms:
        a0 = norm(a)
        truth = not (c == ('eq', 0))
        if _callp(a0, r'::is_empty$') and truth and c[0] in ('notin', 'eq'):
            facts.append(length(a0[2][0]))
        if _is(a0, 'bin') and a0[1] in ('Eq', 'Ne') and (truth == (a0[1] == 'Eq')):
            for x, y in ((a0[2], a0[3]), (a0[3], a0[2])):
                if lit_text(y) == '' and _is(norm(y), 'lit'):
                    facts.append(length(x))            # s == "" : the string is empty
    return facts


def scale_facts(atoms, scale_term):
    """path tests that pin the scale: `scale == 0` taken / `scale != 0` not taken -> [lin(scale)]"""
    out = []
    st = norm(scale_term)
    for a, c in atoms:
        a0 = norm(a)
        if a0 == st and c == ('eq', 0):
            out.append(lin(scale_term))
        if _is(a0, 'bin') and a0[1] in ('Eq', 'Ne'):
            truth = not (c == ('eq', 0))
            for x, y in ((a0[2], a0[3]), (a0[3], a0[2])):
                if norm(x) == st and norm(y) == ('const', 0) and truth == (a0[1] == 'Eq'):
                    out.append(lin(scale_term))
    return out


def writer_tape(rep, F, fn, scale_term, rule='NUMERAL-SHAPE', scale_preserving=False):
    """fn(n: &BigDecimal, w: &mut W): interpret every successful path's writes"""
    try:
        pe = TB.PathEnum(F, fn, max_paths=600, cut_loops=True)
        paths = pe.run()
    except Undecided as e:
        rep.undecided_anchor(rule, fn.key + ':point-and-exponent', str(e), fn.where())
        return 0
    n = 0
    verdicts = {}
    for (atoms, out), eff in zip(paths, pe.effects):
        # only paths on which every write succeeded
        if any(_callp(norm(a), r'Try::branch$') is False and False for a, c in atoms):
            pass
        failed = False
        for a, c in atoms:
            a0 = norm(a)
            if _is(a0, 'discr') and _callp(norm(a0[1]), r'Try::branch$') and c != ('eq', 0):
                failed = True
        if failed or not consistent(atoms):
            continue
        facts = path_facts(atoms)
        root = None
        pos = {}            # next expected start within the root
        kbefore, after, zeros = {}, {}, {}
        seen_point = False
        E = None
        zero_lit = False
        problems = []
        unknown = []
        pending_E = None
        for callee, args in eff:
            c = TB._plain(callee)
            if re.search(r'fmt::rt::Argument.*::new_display$|Argument::new_display$', c) and args:
                pending_E = lin(args[0])
                continue
            if re.search(r'Write::write_fmt$', c):
                if pending_E is not None:
                    E = pending_E
                continue
            if not re.search(r'Write::write_str$|Write::write_char$|String::push_str$|String::push$', c) or len(args) < 2:
                continue
            piece = args[1]
            txt = lit_text(piece)
            if txt is not None and not (_callp(norm(piece), r'Index::index$')):
                if txt in ('-', '+'):
                    continue
                if txt == '.':
                    if seen_point:
                        problems.append('two decimal points')
                    seen_point = True
                    continue
                if re.match(r'^0e[+]?0$', txt):
                    zero_lit = True
                    continue
                unknown.append('literal %r written' % txt)
                continue
            p0 = norm(piece)
            if _callp(p0, r'Index::index$') and lit_text(p0[2][0]) is not None and set(lit_text(p0[2][0])) == {'0'}:
                ln = length(p0)
                zeros = add(zeros, ln)
                if seen_point:
                    after = add(after, ln)
                else:
                    kbefore = add(kbefore, ln)
                continue
            r, a, b = span(piece)
            if root is None:
                root = r
                if a:
                    problems.append('the first digit piece does not start at the head of the digit string')
            elif r != root:
                unknown.append('pieces of two different strings are written')
                continue
            elif add(a, pos, -1):
                problems.append('digit pieces are not contiguous (a digit is dropped or repeated)')
            if zeros:
                problems.append('digits written after padding zeros')
            pos = b
            ln = add(b, a, -1)
            if seen_point:
                after = add(after, ln)
            else:
                kbefore = add(kbefore, ln)
        if unknown:
            verdicts.setdefault('other', []).append(('undecided', unknown[0]))
            continue
        if zero_lit and root is None:
            # the literal numeral "0e0" has no fraction digit and exponent 0: it denotes scale 0
            if scale_preserving and lin(scale_term) and not multiple_of(lin(scale_term), facts + scale_facts(atoms, scale_term)):
                verdicts.setdefault('zero', []).append(('violation', 'zero is written as the literal "0e0" whatever its scale: the text parses back with scale 0, so the digits and scale of 0.00 or 0e5 are not preserved (the {:e} form writes 0e-2 / 0e5)'))
            else:
                verdicts.setdefault('zero', []).append(('ok', 'zero is written as the literal 0e0' + (' only where the scale is 0' if scale_preserving else ' (this notation does not promise the scale)')))
            continue
        if root is None:
            continue
        n += 1
        L = length(root)
        if add(pos, L, -1) and not multiple_of(add(pos, L, -1), facts):
            problems.append('the pieces written do not cover the whole digit string (ends at %s of %s)' % (show_lin(pos), show_lin(L)))
        if E is None:
            problems.append('no exponent written')
        cell = 'point' if seen_point else 'no-point'
        if zeros:
            cell += '+zeros'
        if problems:
            verdicts.setdefault(cell, []).append(('violation', problems[0]))
            continue
        R = add(add(add(zeros, E), after, -1), lin(scale_term))
        if not R or multiple_of(R, facts):
            verdicts.setdefault(cell, []).append(('ok', 'zeros + exponent - digits after the point + scale = 0'))
        else:
            verdicts.setdefault(cell, []).append(('violation', 'the numeral written denotes int(S)*10^(%s) instead of int(S)*10^(-scale): residual %s is not zero under the path\'s tests' % (show_lin(add(add(zeros, E), after, -1)), show_lin(R))))
    cnt = 0
    for cell, vs in sorted(verdicts.items()):
        key = '%s:point-and-exponent[%s]' % (fn.key, cell)
        cnt += 1
        bad = [v for v in vs if v[0] == 'violation']
        und = [v for v in vs if v[0] == 'undecided']
        if bad:
            rep.violation(rule, key, bad[0][1], fn.where())
        elif und:
            rep.undecided(rule, key, und[0][1], fn.where())
        else:
            rep.ok(rule, key, '%d path(s): %s' % (len(vs), vs[0][1]), fn.where())
    return cnt


# ---------------------------------------------------------------- string-building formatters
STRING_EDIT = re.compile(r'String::(insert|insert_str|push|push_str|extend)$|Extend.*::extend$|Write::write_fmt$|Write::write_str$')


def unmut(t):
    """the string before the numeral was assembled in it: in-place String edits are peeled off, a rounding of the
    digit bytes is not"""
    t = norm(t)
    while _is(t, 'mutated') and STRING_EDIT.search(TB._plain(t[2])):
        t = norm(t[1])
    return t


def view(t):
    """strip String<->Vec<u8> conversions: same characters"""
    while True:
        t = norm(t)
        if _callp(t, r'String::from_utf8$|Result::unwrap$|Result::expect$|String::into_bytes$|String::from_utf8_unchecked$|str::to_string$|ToString::to_string$|convert::From::from$|convert::Into::into$'):
            t = t[2][0]
        else:
            return t


def lin2(t):
    """lin() with lengths taken through String/Vec views"""
    l = lin(t)
    out = {}
    for k, c in l.items():
        if isinstance(k, tuple) and k and k[0] == 'len':
            k = ('len', view(k[1]))
        out[k] = out.get(k, 0) + c
    return {k: v for k, v in out.items() if v}


def digits_root(t):
    """the digit bytes a buffer was built from (after a possible rounding), and the parameter they came from"""
    d = view(unmut(t))
    prev = None
    while prev != d:
        prev = d
        d = view(unmut(d))
    base = d
    while _is(base, 'mutated'):
        base = view(norm(base[1]))
    return d, base


def string_tape(rep, F, fn, digits_param, spec_exp, rule='NUMERAL-SHAPE', delta_calls=r'round_ascii_digits$'):
    """fn builds the numeral in a String and hands it to pad_integral.  `digits_param`: parameter holding the ASCII
    digits; `spec_exp(lin)`: linear form of the power of ten the digits are to be scaled by (before rounding)."""
    # `digits_param` may also be a predicate on the term the buffer was built from (a layer merged into a caller that
    # computes the digit string itself has no digit parameter)
    is_digits = digits_param if callable(digits_param) else (lambda t: t == TB.T('param', digits_param))
    try:
        pe = TB.PathEnum(F, fn, max_paths=800, cut_loops=True)
        paths = pe.run()
    except Undecided as e:
        rep.undecided_anchor(rule, fn.key + ':point-and-exponent', str(e), fn.where())
        return 0
    verdicts = {}
    for (atoms, out), eff in zip(paths, pe.effects):
        if not any(TB._plain(c).endswith('Formatter::pad_integral') for c, a in eff) or not consistent(atoms):
            continue
        facts = []
        for a, c in atoms:
            a0 = norm(a)
            if _is(a0, 'bin') and a0[1] == 'Gt' and c == ('eq', 0) and norm(a0[3]) == ('const', 1) and _callp(norm(a0[2]), r'::len$'):
                facts.append(add(lin2(a0[2]), {1: 1}, -1))        # len <= 1 and digit strings are non-empty: len == 1
            if _is(a0, 'bin') and ((a0[1] == 'Gt' and c == ('eq', 0)) or (a0[1] == 'Eq' and c != ('eq', 0))) and norm(a0[3]) == ('const', 0):
                lx = lin2(a0[2])
                if any(isinstance(k_, tuple) and k_ and k_[0] == 'len' for k_ in lx):
                    facts.append(lx)                              # a usize quantity that is not > 0 is 0
        problems = []
        point_at = None
        zeros = {}
        E = None
        digits_term = None
        dfinal = None
        unknown_edit = None
        deltas = []
        disp = []
        for callee, args in eff:
            c = TB._plain(callee)
            if re.search(r'Vec::(truncate|drain|pop|split_off|clear|remove|retain)$', c) and args and not deltas:
                base = norm(args[0])
                while _is(base, 'mutated'):
                    base = norm(base[1])
                if is_digits(base):
                    problems.append('digits are removed from the digit vector (%s) before the rounding routine sees them: the discarded tail can no longer influence the rounding' % c.split('::')[-1])
            if re.search(delta_calls, c):
                deltas.append(TB.T('call', callee, tuple(args)))
            elif re.search(r'Argument.*::new_display$', c) and args:
                disp.append(args[0])
            elif (c.endswith('String::insert') or c.endswith('String::insert_str')) and len(args) == 3:
                if lit_text(args[2]) == '.':
                    if point_at is not None:
                        problems.append('two decimal points')
                    point_at = lin2(args[1])
                    if zeros:
                        problems.append('point inserted after zeros were appended')
                else:
                    problems.append('unexpected character inserted')
            elif re.search(r'Extend.*::extend$|String::extend$', c) and len(args) == 2:
                it = norm(args[1])
                if _callp(it, r'Iterator::take$') and _callp(norm(it[2][0]), r'iter::repeat$') and lit_text(norm(it[2][0])[2][0]) == '0':
                    zeros = add(zeros, lin2(it[2][1]))
                else:
                    problems.append('unexpected extension of the buffer')
            elif c.endswith('Write::write_fmt'):
                ints = [d for d in disp if not (_is(norm(d), 'param'))]
                if ints:
                    E = lin2(ints[-1])
            elif c.endswith('Formatter::pad_integral') and len(args) >= 4:
                dfinal, digits_term = digits_root(args[3])
            elif re.search(r'^std::string::String::(?!new$|from_utf8|len$|as_str$|as_bytes$|capacity$|reserve|with_capacity|is_empty$|into_bytes$)\w+$', c) and args and _is(norm(args[0]), 'mutated') is not None and re.search(r'String::(remove|truncate|pop|clear|replace_range|drain|retain|insert_str|push_str|push)$', c):
                unknown_edit = c
        if unknown_edit:
            verdicts.setdefault('other', []).append(('undecided', 'the buffer is edited by %s, which the tape interpretation does not model' % unknown_edit.split('::')[-1]))
            continue
        if not is_digits(digits_term):
            verdicts.setdefault('other', []).append(('undecided', 'buffer handed to pad_integral is not built from the digit parameter: %s' % TB.show(digits_term)[:60]))
            continue
        # length of the digit string at the time the numeral is assembled (after rounding, if any)
        Ls = [k for k in (E or {}) if isinstance(k, tuple) and k and k[0] == 'len']
        cell = ('point' if point_at is not None else 'no-point') + ('+zeros' if zeros else '') + ('+rounded' if deltas else '')
        if E is None:
            verdicts.setdefault(cell, []).append(('violation', 'no exponent written'))
            continue
        if problems:
            verdicts.setdefault(cell, []).append(('violation', problems[0]))
            continue
        spec = spec_exp
        for d in deltas:
            spec = add(spec, lin2(d))
        if point_at is not None:
            after = add(add({('len', dfinal): 1}, zeros), point_at, -1)
        else:
            after = {}
        R = add(add(add(zeros, E), after, -1), spec, -1)
        if not R or multiple_of(R, facts):
            verdicts.setdefault(cell, []).append(('ok', 'zeros + exponent - digits after the point = the digits\' power of ten'))
        else:
            verdicts.setdefault(cell, []).append(('violation', 'the numeral denotes digits*10^(%s) but the digits are scaled by 10^(%s): residual %s' % (show_lin(add(add(zeros, E), after, -1)), show_lin(spec), show_lin(R))))
    cnt = 0
    for cell, vs in sorted(verdicts.items()):
        key = '%s:point-and-exponent[%s]' % (fn.key, cell)
        cnt += 1
        bad = [v for v in vs if v[0] == 'violation']
        und = [v for v in vs if v[0] == 'undecided']
        if bad:
            rep.violation(rule, key, bad[0][1], fn.where())
        elif und:
            rep.undecided(rule, key, und[0][1], fn.where())
        else:
            rep.ok(rule, key, '%d path(s): %s' % (len(vs), vs[0][1]), fn.where())
    return cnt


# ---------------------------------------------------------------- call-site agreement between the formatting layers
def _digits_of(t):
    """X if t is to_str_radix(X.digits, 10) (through String/Vec views) else None"""
    t = view(t)
    if _callp(t, r'to_str_radix$|ToString::to_string$') and t[2]:
        if len(t[2]) == 2 and norm(t[2][1]) != ('const', 10):
            return None
        d = norm(t[2][0])
        if _is(d, 'field') and d[2] == 'digits':
            return norm(d[1])
        if _callp(d, r'BigInt::magnitude$') and _is(norm(d[2][0]), 'field') and norm(d[2][0])[2] == 'int_val':
            return norm(norm(d[2][0])[1])
    return None


def param_roles(fn):
    """parameters of a formatting layer by what they carry (found by type, so their order is free)"""
    roles = {}
    for i, ty in enumerate(fn.argtys(), 1):
        t = ty.replace('mut ', '').strip()
        if re.search(r'^(std::string::)?String$|^(std::vec::)?Vec<u8>$', t) and 'digits' not in roles:
            roles['digits'] = i
        elif re.search(r'BigDecimalRef', t) and 'this' not in roles:
            roles['this'] = i
        elif re.search(r'(^|::)Sign$', t) and 'sign' not in roles:
            roles['sign'] = i
        elif t == 'i64' and 'scale' not in roles:
            roles['scale'] = i
        elif t == 'i128' and 'exp' not in roles:
            roles['exp'] = i
    return roles


def lazy_ctor_args(F, callee, args):
    """(rounding data, insignificant digit, tail closure) handed to InsigData::from_digit_and_lazy_trailing_zeros, found by the
    callee's parameter types so that their order is free"""
    g = None
    for k_, f_ in F.fns.items():
        if k_.endswith('from_digit_and_lazy_trailing_zeros') and not f_.is_closure:
            g = f_
    if g is None or len(args) != 3:
        return tuple(args) if len(args) == 3 else None
    tys = g.argtys()
    di = [i for i, t in enumerate(tys) if t.lstrip('&') == 'u8']
    ri = [i for i, t in enumerate(tys) if re.search(r'NonDigitRoundingData$', t.lstrip('&'))]
    if len(di) != 1 or len(ri) != 1:
        return tuple(args)
    ci = [i for i in range(3) if i not in (di[0], ri[0])][0]
    return (args[ri[0]], args[di[0]], args[ci])


def call_specs(rep, F, rule='NUMERAL-SHAPE'):
    """every layer hands the next one the same number: the digit string is to_str_radix(this.digits, 10) of the very
    decimal passed along, the explicit exponent is -this.scale, the sign is this.sign"""
    n = 0
    want = {
        'format_exponential': lambda a: [('digit string', _digits_of(a[2]) == norm(a[0]))],
        'format_full_scale': lambda a: [('digit string', _digits_of(a[2]) == norm(a[0]))],
    }
    dl = F.fns.get('impl_fmt::format_dotless_exponential')
    if dl is not None:
        r_ = param_roles(dl)
        if 'digits' in r_ and 'this' in r_:
            want['format_dotless_exponential'] = lambda a, r_=r_: [('digit string', _digits_of(a[r_['digits'] - 1]) == norm(a[r_['this'] - 1]))]
        elif 'digits' in r_ and 'sign' in r_ and 'scale' in r_:
            want['format_dotless_exponential'] = lambda a, r_=r_: [('digit string', _digits_of(a[r_['digits'] - 1]) is not None),
                                                                   ('sign', norm(a[r_['sign'] - 1]) == ('field', _digits_of(a[r_['digits'] - 1]), 'sign')),
                                                                   ('scale', norm(a[r_['scale'] - 1]) == ('field', _digits_of(a[r_['digits'] - 1]), 'scale'))]
    for k, fn in sorted(F.fns.items()):
        if fn.is_closure or not any(re.search(r'impl_fmt::format_(exponential|full_scale|dotless_exponential|exponential_bigendian_ascii_digits)$', (t['callee'].get('resolved') or '')) for b, t in fn.calls()):
            continue
        try:
            pe = TB.PathEnum(F, fn, max_paths=400, cut_loops=True)
            paths = pe.run()
        except Undecided as e:
            rep.undecided(rule, fn.key + ':hands-on-the-same-number', str(e), fn.where())
            continue
        seen = {}
        for (atoms, out), eff in zip(paths, pe.effects):
            for callee, args in eff:
                nm = TB._plain(callee).split('::')[-1]
                if nm in want and TB._plain(callee).startswith('impl_fmt::'):
                    for what, ok in want[nm](args):
                        seen.setdefault((nm, what), set()).add(bool(ok))
                elif nm == 'format_exponential_bigendian_ascii_digits' and len(args) >= 3:
                    this = TB.T('param', 1)
                    seen.setdefault((nm, 'digits'), set()).add(view(args[0]) == TB.T('param', 3))
                    seen.setdefault((nm, 'sign'), set()).add(norm(args[1]) == ('field', this, 'sign'))
                    seen.setdefault((nm, 'exponent = -scale'), set()).add(add(lin2(args[2]), lin(('field', this, 'scale'))) == {})
        # the paths above leave every loop after zero iterations; a loop that changes the length of the digit string (or
        # steps the exponent) before they are handed on is not covered by them and drops / invents digits
        from rules.iterexit import _sccs
        from facts import cres as _cres
        for b0, t0 in fn.calls():
            if not re.search(r'impl_fmt::format_exponential_bigendian_ascii_digits$', _cres(t0) or '') or len(t0['args']) < 3:
                continue
            carriers = {}
            for idx, role in ((0, 'digits'), (2, 'exponent')):
                o = t0['args'][idx]
                if o.get('k') in ('copy', 'move'):
                    work = [o['pl']['l']]
                    while work:
                        l = work.pop()
                        if l in carriers:
                            continue
                        carriers[l] = role
                        for _, st in fn.stmts():
                            if st['lhs']['l'] == l and not st['lhs']['p'] and st['rv']['r'] in ('use', 'cast') and st['rv']['op'].get('k') in ('copy', 'move') and not st['rv']['op']['pl']['p']:
                                work.append(st['rv']['op']['pl']['l'])
            refs = {}
            for _, st in fn.stmts():
                if st['rv']['r'] == 'ref' and st['rv'].get('mut') and st['rv']['pl']['l'] in carriers and not st['lhs']['p']:
                    refs[st['lhs']['l']] = st['rv']['pl']['l']
            for comp in _sccs(fn):
                for bb in sorted(comp):
                    blk = fn.blocks[bb]
                    for st in blk['st']:
                        if st['s'] == 'assign' and carriers.get(st['lhs']['l']) == 'exponent' and not st['lhs']['p']:
                            seen.setdefault((nm_sink(t0), 'exponent = -scale'), set()).add(False)
                    tt = blk['term']
                    if tt['t'] == 'call' and re.search(r'Vec::<.*>::(pop|push|truncate|remove|insert|drain|resize|clear)$|Vec::(pop|push|truncate|remove|insert|drain|resize|clear)$', _cres(tt) or ''):
                        a0 = tt['args'][0] if tt['args'] else None
                        if a0 and a0.get('k') in ('copy', 'move') and not a0['pl']['p'] and carriers.get(refs.get(a0['pl']['l'])) == 'digits':
                            seen.setdefault((nm_sink(t0), 'digits'), set()).add(False)
        for (nm, what), oks in sorted(seen.items()):
            n += 1
            key = '%s->%s:%s' % (fn.key, nm, what.split(' ')[0])
            if oks == {True}:
                rep.ok(rule, key, '%s handed on unchanged' % what, fn.where())
            else:
                rep.violation(rule, key, 'the %s handed to %s is not that of the decimal being formatted' % (what, nm), fn.where())
    return n


def nm_sink(t):
    from facts import cres
    return TB._plain(cres(t) or '').split('::')[-1]


def check(rep, F, rule='NUMERAL-SHAPE'):
    n = 0
    scale_of_arg1 = TB.T('field', TB.T('param', 1), 'scale')
    for nm in ('impl_fmt::write_scientific_notation', 'impl_fmt::write_engineering_notation'):
        fn = F.fns.get(nm)
        if fn is None:
            rep.violation(rule, nm + ':missing', 'anchor function not found (fail closed)')
            continue
        rep.add_functions([fn.name])
        n += writer_tape(rep, F, fn, scale_of_arg1, rule, scale_preserving=nm.endswith('write_scientific_notation'))
    fn = F.fns.get('impl_fmt::format_exponential_bigendian_ascii_digits')
    outer = F.fns.get('impl_fmt::format_exponential')
    if fn is None and outer is not None and 'digits' in param_roles(outer) and 'this' in param_roles(outer):
        # the digit-level routine merged into its only caller: the same obligations on the merged body, whose digit string
        # is the caller's String parameter and whose exponent is -this.scale
        r_ = param_roles(outer)
        rep.add_functions([outer.name])
        n += string_tape(rep, F, outer, r_['digits'], add({}, lin(TB.T('field', TB.T('param', r_['this']), 'scale')), -1), rule)
    elif fn is None:
        rep.violation(rule, 'format_exponential_bigendian_ascii_digits:missing', 'anchor function not found (fail closed)')
    else:
        rep.add_functions([fn.name])
        r_ = param_roles(fn)
        n += string_tape(rep, F, fn, r_.get('digits', 1), lin(TB.T('param', r_.get('exp', 3))), rule)
    fn = F.fns.get('impl_fmt::format_dotless_exponential')
    outer = F.fns.get('impl_fmt::dynamically_format_decimal')
    if fn is None and outer is not None and 'this' in param_roles(outer) and any(TB._plain(cres(t) or '').endswith('Formatter::pad_integral') for b, t in outer.calls()):
        # the dot-less layer merged into its only caller, which computes the digit string itself: the same obligations on
        # the merged body's pad_integral paths - the buffer is to_str_radix(this.digits, 10), the exponent is -this.scale
        r_ = param_roles(outer)
        this_ = TB.T('param', r_['this'])
        rep.add_functions([outer.name])
        n += string_tape(rep, F, outer, lambda t: _digits_of(t) == norm(this_), add({}, lin(TB.T('field', this_, 'scale')), -1), rule)
    elif fn is None:
        rep.violation(rule, 'format_dotless_exponential:missing', 'anchor function not found (fail closed)')
    else:
        rep.add_functions([fn.name])
        r_ = param_roles(fn)
        if 'digits' in r_ and 'scale' in r_:
            n += string_tape(rep, F, fn, r_['digits'], add({}, lin(TB.T('param', r_['scale'])), -1), rule)
        elif 'digits' in r_ and 'this' in r_:
            n += string_tape(rep, F, fn, r_['digits'], add({}, lin(TB.T('field', TB.T('param', r_['this']), 'scale')), -1), rule)
        else:
            rep.undecided(rule, fn.key + ':point-and-exponent', 'parameters of the dot-less exponent form not recognised by type', fn.where())
    n += call_specs(rep, F, rule)
    n += pad_nonzero(rep, F, rule)
    return n


def pad_nonzero(rep, F, rule='NUMERAL-SHAPE'):
    """Plain notation of an integer-valued decimal (scale <= 0) appends -scale zeros through
    zero_right_pad_integer_ascii_digits(digits, &mut exp, precision).  The only value that may be handed over with the
    constant exponent 0 instead of -scale is zero itself (no digits to shift): on every path that passes the constant,
    the comparisons made on the operand's sign must leave NoSign as the only possibility (or an is_zero test must have
    succeeded, or the scale is known to be 0); on every other path the exponent must be -scale.  A guard that lets a
    non-zero sign through to the constant prints  -72e4  as  -72."""
    n = 0
    SIGNS = {'Minus': 0, 'NoSign': 1, 'Plus': 2}
    for fn in F.real_fns():
        if fn.is_closure or not any(re.search(r'zero_right_pad_integer_ascii_digits$', (t['callee'].get('resolved') or '')) for b, t in fn.calls()):
            continue
        roles = param_roles(fn)
        if 'this' not in roles:
            continue
        key = fn.key + ':zeros-for-every-nonzero-integer'
        try:
            pe = TB.PathEnum(F, fn, max_paths=400, cut_loops=True)
            paths = pe.run()
        except Undecided as e:
            rep.undecided(rule, key, str(e), fn.where())
            continue
        n += 1
        this = 'arg%d' % roles['this']
        scale_l = lin(TB.T('field', TB.T('param', roles['this']), 'scale'))
        bad = und = None
        ok = 0
        for (atoms, out), eff in zip(paths, pe.effects):
            calls = [args for c, args in eff if TB._plain(c).endswith('zero_right_pad_integer_ascii_digits')]
            if not calls or not consistent(atoms):
                continue
            possible = set(SIGNS.values())
            zero = False
            for a, c in atoms:
                s0 = TB.show(TB.strip_refs(a))
                truth = not (c == ('eq', 0))
                m = re.match(r'^discr\((%s\.sign|sign\(%s\))\)$' % (this, this), s0)
                if m:
                    possible &= ({c[1]} if c[0] == 'eq' else (possible - set(c[1])))
                    continue
                m = re.match(r'^(Eq|Ne)\((?:%s\.sign|sign\(%s\)),(?:\w+::)*Sign::(\w+)\)$' % (this, this), s0) or re.match(r'^(Eq|Ne)\((?:\w+::)*Sign::(\w+),(?:%s\.sign|sign\(%s\))\)$' % (this, this), s0)
                if m and m.group(2) in SIGNS:
                    eq = truth if m.group(1) == 'Eq' else (not truth)
                    possible &= ({SIGNS[m.group(2)]} if eq else (possible - {SIGNS[m.group(2)]}))
                    continue
                if re.match(r'^is_zero\(%s(\.digits|\.int_val)?\)$' % this, s0) and truth:
                    zero = True
                a0 = norm(a)
                if _is(a0, 'bin') and a0[1] in ('Eq', 'Ne') and (a0[1] == 'Eq') == truth:
                    d = add(lin(a0[2]), lin(a0[3]), -1)
                    if d == scale_l or add(d, scale_l) == {}:
                        zero = True                        # scale == 0: nothing to pad
            for args in calls:
                e = TB.strip_refs(args[1])
                if e == TB.T('const', 0):
                    if zero or possible <= {SIGNS['NoSign']}:
                        ok += 1
                    else:
                        bad = 'the padding routine receives the constant exponent 0 on a path where the sign may still be %s: a non-zero integer-valued decimal loses its -scale trailing zeros' % '/'.join(k for k, v in sorted(SIGNS.items()) if v in possible and k != 'NoSign')
                else:
                    le = lin2(e)
                    if add(le, scale_l) == {}:
                        ok += 1
                    elif any(isinstance(k, tuple) for k in le):
                        und = 'exponent handed to the padding routine not recognised: %s' % TB.show(e)[:60]
                    else:
                        bad = 'the exponent handed to the padding routine is not -scale'
        if bad:
            rep.violation(rule, key, bad, fn.where())
        elif und:
            rep.undecided(rule, key, und, fn.where())
        else:
            rep.ok(rule, key, '%d padding call(s): exponent -scale, or the constant 0 for the value zero only' % ok, fn.where())
    return n
