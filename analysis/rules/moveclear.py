"""MOVE-THEN-CLEAR: the zero-fill after an in-place right shift of the digit bytes must stop before the moved digits.

The formatters shift the k digit bytes right with `v.copy_within(..k, d)` and then write '0' over the vacated
prefix `v[..e]`.  The destination region is [d, d+k); the clear is harmless exactly when e <= d.  Accepted forms
(read off the two sibling sites, both confirmed by reading): e = min(_, d) or e = d.  A clear of `..k` (the length
moved) with no comparison between k and d on the path overwrites the leading moved digits whenever the regions
overlap (k > d): a bounded-write violation visible in the shape of the code."""
import re
from facts import cdef
from rules import table as TB
from rules.table import Undecided


def _is(t, k):
    return isinstance(t, tuple) and t and t[0] == k


def _range_end(t):
    """end of a RangeTo / Range(0, end) term"""
    t = TB.strip_refs(t)
    if _is(t, 'adt') and t[2] in ('RangeTo', 'Range') and t[3]:
        if t[2] == 'RangeTo':
            return TB.strip_refs(t[3][0])
        if len(t[3]) == 2 and TB.strip_refs(t[3][0]) == ('const', 0):
            return TB.strip_refs(t[3][1])
    return None


def _mentions(t, sub):
    return any(x == sub for x in TB.subterms(t))


def check(rep, F, names, rule='MOVE-THEN-CLEAR'):
    n = 0
    for nme in sorted(names):
        fn = F.fns[nme]
        if fn.is_closure or not any(re.search(r'copy_within$', TB._plain(cdef(t) or '')) for b, t in fn.calls()):
            continue
        try:
            pe = TB.PathEnum(F, fn, max_paths=600, cut_loops=True)
            paths = pe.run()
        except Undecided as e:
            rep.undecided(rule, fn.key + ':clear-stops-before-moved-digits', str(e), fn.where())
            continue
        verdict = None
        pairs = set()
        for (atoms, out), eff in zip(paths, pe.effects):
            move = None
            for callee, args in eff:
                c = TB._plain(callee)
                if c.endswith('copy_within') and len(args) >= 3:
                    move = (_range_end(args[1]), TB.strip_refs(args[2]))
                elif re.search(r'fill_slice$|slice::fill$', c) and move and move[0] is not None:
                    tgt = TB.strip_refs(args[0])
                    if not (_is(tgt, 'call') and re.search(r'IndexMut::index_mut$|Index::index$', TB._plain(tgt[1])) and len(tgt[2]) == 2):
                        continue
                    e = _range_end(tgt[2][1])
                    if e is None:
                        continue
                    k, d = move
                    sig = (TB.show(e)[:80], TB.show(d)[:80])
                    if sig in pairs:
                        continue
                    pairs.add(sig)
                    ok = (e == d) or (_is(e, 'call') and re.search(r'cmp::(Ord::)?min$|::min$', TB._plain(e[1])) and any(TB.strip_refs(x) == d for x in e[2]))
                    if ok:
                        verdict = verdict or ('ok', 'clear ends at min(.., destination start)')
                    else:
                        related = any(_is(TB.strip_refs(a[0]), 'bin') and _mentions(a[0], k) and _mentions(a[0], d) for a in atoms)
                        if e == k and not related:
                            verdict = ('violation', 'after copy_within(..k, d) the clear covers ..k (the length moved) instead of ..min(k, d): when the regions overlap (k > d) it overwrites the leading moved digits; k = %s, d = %s' % (TB.show(k)[:60], TB.show(d)[:80]))
                        elif verdict is None or verdict[0] == 'ok':
                            verdict = ('undecided', 'clear bound %s not of an accepted form' % TB.show(e)[:80])
        if verdict is None:
            continue
        n += 1
        key = fn.key + ':clear-stops-before-moved-digits'
        if verdict[0] == 'ok':
            rep.ok(rule, key, verdict[1], fn.where())
        elif verdict[0] == 'violation':
            rep.violation(rule, key, verdict[1], fn.where())
        else:
            rep.undecided(rule, key, verdict[1], fn.where())
    return n
