"""ASCII-ROUND: positions in round_ascii_digits, the rounding routine of the formatter (C16).

round_ascii_digits(D, n, rounder) keeps the first n big-endian ASCII digits of D.  As positional identities:
   the insignificant digit is the first of D[n ..] (a missing one counts as '0'), offset by b'0';
   the tail flag is "every byte of D[n+1 ..] == b'0'";
   the digit being rounded is D[n-1], offset by b'0', and the decision is round_digit of exactly these three;
   D is truncated to n-1 digits and, when no carry is needed, the rounded digit is pushed back offset by b'0';
   the count returned on that path is len(D[n ..]) - the digits removed, which callers add to the exponent.
These are read from the path terms (no byte is ever processed); the carry through trailing nines is not decided."""
import re
from rules import table as TB, numeral as N
from rules.table import Undecided


def _is(t, k):
    return isinstance(t, tuple) and t and t[0] == k


def check(rep, F, rule='ASCII-ROUND'):
    fn = F.fns.get('impl_fmt::round_ascii_digits')
    if fn is None:
        rep.violation(rule, 'round_ascii_digits:missing', 'anchor function not found (fail closed)')
        return 0
    rep.add_functions([fn.name])
    try:
        pe = TB.PathEnum(F, fn, max_paths=200, cut_loops=True)
        paths = pe.run()
    except Undecided as e:
        rep.undecided_anchor(rule, fn.key + ':positions', str(e), fn.where())
        return 0
    # the digit buffer is the `&mut Vec<u8>` parameter, wherever it stands in the parameter list
    dpar = [i for i, ty in enumerate(fn.argtys(), 1) if re.search(r'Vec<u8>', ty)]
    D = TB.T('param', dpar[0] if len(dpar) == 1 else 1)
    n = None
    res = {}

    def put(cell, ok, good, bad, recognised=True):
        """ok False with recognised False = the shape is not the one this rule reads: undecided, not a violation"""
        status = True if ok else (False if recognised else None)
        cur = res.get(cell)
        rank = {True: 0, None: 1, False: 2}
        if cur is None or rank[status] > rank[cur[0]]:
            res[cell] = (status, good if ok else bad)

    def split_half(t, which):
        """t == split_at(D, n).<which> ?  returns n's linear form or None"""
        t = N.norm(t)
        if _is(t, 'field') and t[2] == which and N._callp(N.norm(t[1]), r'split_at$') and N.norm(N.norm(t[1])[2][0]) == D:
            return N.lin(N.norm(t[1])[2][1])
        return None

    for (atoms, out), eff in zip(paths, pe.effects):
        insig = sig = None
        for callee, args in eff:
            c = TB._plain(callee)
            if c.endswith('from_digit_and_lazy_trailing_zeros') and len(args) == 3:
                args = N.lazy_ctor_args(F, c, args)
                d = N.norm(args[1])
                ok = False
                if _is(d, 'bin') and d[1] == 'Sub' and N.norm(d[3]) == ('const', 48):
                    x = N.norm(d[2])
                    if _is(x, 'field') and x[2] == '0' and N._callp(N.norm(x[1]), r'Option::unwrap_or$'):
                        sf = N.norm(N.norm(x[1])[2][0])
                        if N._callp(sf, r'split_first$'):
                            k = split_half(sf[2][0], '1')
                            if k is not None:
                                n = k
                                ok = True
                                dflt = N.norm(N.norm(x[1])[2][1])
                                if not (_is(dflt, 'tuple') and N.norm(dflt[1][0]) == ('const', 48)):
                                    put('insignificant-digit-default', False, '', 'a missing insignificant digit must count as b\'0\'')
                put('insignificant-digit', ok, 'first byte of D[n ..] minus b\'0\'', 'the insignificant digit must be the first byte of D[n ..] minus b\'0\'; found %s' % TB.show(d)[:90], recognised=(_is(d, 'bin') or _is(d, 'field') or _is(d, 'index') or _is(d, 'const')))
                clo = N.norm(args[2])
                okc = False
                inner = None
                if _is(clo, 'closure') and clo[1] in F.fns and clo[2]:
                    cap = N.norm(clo[2][0])
                    capok = _is(cap, 'field') and cap[2] == '1' and N._callp(N.norm(cap[1]), r'Option::unwrap_or$') and N._callp(N.norm(N.norm(cap[1])[2][0]), r'split_first$')
                    try:
                        body = TB.PathEnum(F, F.fns[clo[1]], max_paths=4).run()
                        inner = None
                        if len(body) == 1 and N._callp(N.norm(body[0][1]), r'Iterator::all$'):
                            ic = N.norm(body[0][1])[2][1]
                            if _is(ic, 'closure') and ic[1] in F.fns:
                                ib = TB.PathEnum(F, F.fns[ic[1]], max_paths=4).run()
                                inner = TB.show(TB.strip_refs(ib[0][1])) if len(ib) == 1 else None
                        okc = capok and inner in ('Eq(arg2,48)', 'Eq(48,arg2)')
                    except Undecided:
                        pass
                put('tail-flag', okc, 'every byte after the insignificant digit == b\'0\'', 'the tail flag must be "every byte of D[n+1 ..] == b\'0\'"', recognised=(_is(clo, 'closure') and clo[1] in F.fns and bool(clo[2]) and inner is not None))
                insig = True
            elif c.endswith('InsigData::round_digit') and len(args) == 2:
                d = N.norm(args[1])
                ok = False
                if _is(d, 'bin') and d[1] == 'Sub' and N.norm(d[3]) == ('const', 48):
                    x = N.norm(d[2])
                    if _is(x, 'index') and len(x) == 3:
                        k = split_half(x[1], '0')
                        if k is not None and (N.add(N.add(N.lin(x[2]), k, -1), {1: 1}) == {}):
                            ok = True
                        elif N.norm(x[1]) == D and n is not None and N.add(N.add(N.lin(x[2]), n, -1), {1: 1}) == {}:
                            ok = True
                put('rounded-digit', ok, 'D[n-1] minus b\'0\'', 'the digit handed to round_digit must be D[n-1] minus b\'0\'; found %s' % TB.show(d)[:90], recognised=(_is(d, 'bin') and _is(N.norm(d[2]), 'index')) or _is(d, 'index') or _is(d, 'const'))
                sig = True
            elif c.endswith('Vec::truncate') and len(args) == 2 and N.norm(args[0]) == D and n is not None and 'trunc' not in res:
                ok = N.add(N.add(N.lin(args[1]), n, -1), {1: 1}) == {}
                put('truncate', ok, 'D truncated to n-1 digits before the rounded digit is written', 'D must be truncated to n-1 digits; truncated to %s' % N.show_lin(N.lin(args[1])))
                res['trunc'] = (True, '')
            elif c.endswith('Vec::push') and len(args) == 2 and N.norm(args[0]) == D:
                v = N.norm(args[1])
                if _is(v, 'bin') and v[1] == 'Add' and N._callp(N.norm(v[2]), r'round_digit$'):
                    put('push', N.norm(v[3]) == ('const', 48), 'rounded digit pushed back plus b\'0\'', 'the rounded digit must be pushed back offset by b\'0\'')
        res.pop('trunc', None)
        # simple path: no carry
        simple = any(N._callp(N.norm(N.norm(a)[2]) if _is(N.norm(a), 'bin') else None, r'round_digit$') and N.norm(a)[1] == 'Lt' and c != ('eq', 0) for a, c in atoms if _is(N.norm(a), 'bin'))
        if simple and n is not None:
            want = N.add(N.length(D), n, -1)
            got = N.lin(out)
            put('removed-count', N.add(got, want, -1) == {}, 'returns len(D) - n, the digits removed', 'without a carry the count returned must be len(D) - n (the digits removed); it is %s' % N.show_lin(got))
    cnt = 0
    for cell, (ok, why) in sorted(res.items()):
        cnt += 1
        key = '%s:positions[%s]' % (fn.key, cell)
        if ok is True:
            rep.ok(rule, key, why, fn.where())
        elif ok is None:
            rep.undecided(rule, key, 'shape not recognised: ' + why, fn.where())
        else:
            rep.violation(rule, key, why, fn.where())
    return cnt
