"""ROOT-SHAPE: structural obligations of the integer-root kernels (C10 sqrt, C11 cbrt), read from path terms.

impl_sqrt(n, scale, ctx) takes the integer root of R = n * 10^E and labels the digits with a scale.  Necessary for the digits
of the decimal root:

  PARITY      scale + E is even on every path.  sqrt(n * 10^-scale) = sqrt(n * 10^E) * 10^-((scale+E)/2) only then; with an odd sum
              the integer root carries the digits of sqrt(10 x).  Decided in the parity abstraction (values mod 2): + and - are xor,
              a product with an even literal is 0, is_odd(x) is x, value-preserving conversions keep the parity (wrapping at 2^64/2^128
              does too), an unsigned saturating_sub(a, b) is a - b or 0 - both cases must come out even.
  STICKY      the integer S handed to BigDecimal::new is the floor root r itself only on paths that establish r*r == R; on the paths
              where r*r != R it is r * 10 + d with a non-zero decimal digit d (the inexactness is kept below the guard digits).
  COUNTED     the digits counted for the scale (count_decimal_digits_uint(&X) after the root) are those of the very integer S that
              is constructed: X == S on every path.

impl_cbrt_uint_scale: EXACT-FLAG  the lazily evaluated "discarded part is zero" flag can be true only on paths that establish
              root^3 == radicand, root being nth_root(radicand, 3) of that same radicand.

Unrecognised shapes are undecided; a violation is reported only when the terms positively show the wrong quantity."""
import re
from rules import table as TB
from rules.table import Undecided, T

FREE = re.compile(r'count_decimal_digits_uint$|NonZero::get$|Context::precision$|BigDecimal::digits$')
CONV = re.compile(r'convert::(From::from|Into::into|TryFrom::try_from|TryInto::try_into)$|Option::unwrap$|Option::expect$|Result::unwrap$|Result::expect$|ToPrimitive::to_[a-z0-9]+$|FromPrimitive::from_[a-z0-9]+$|NumCast::from$|clone::Clone::clone$')


def _is(t, k):
    return isinstance(t, tuple) and bool(t) and t[0] == k


def _name(t):
    return TB._plain(t[1])


SATSUB = re.compile(r'<impl u(8|16|32|64|128|size)>::saturating_sub$')


def satsubs(t):
    """the distinct unsigned saturating_sub terms inside t"""
    return sorted({s for s in TB.subterms(t) if _is(s, 'call') and SATSUB.search(s[1]) and len(s[2]) == 2}, key=str)


def parity_facts(atoms):
    """what the branch conditions of a path say about parities: [(term, bit)] meaning term = bit (mod 2)"""
    out = []
    for term, (rel, val) in atoms:
        t = TB.deref(term)
        truth = None
        if rel == 'eq' and val in (0, 1):
            truth = val
        elif rel == 'notin' and tuple(val) == (0,):
            truth = 1
        elif rel == 'notin' and tuple(val) == (1,):
            truth = 0
        if truth is None:
            continue
        neg = False
        while _is(t, 'un') and t[1] == 'Not':
            t, neg = TB.deref(t[2]), not neg
        if neg:
            truth ^= 1
        if _is(t, 'call') and len(t[2]) == 1 and re.search(r'Integer::is_odd$', _name(t)):
            out.append((t[2][0], truth))
        elif _is(t, 'call') and len(t[2]) == 1 and re.search(r'Integer::is_even$', _name(t)):
            out.append((t[2][0], truth ^ 1))
        elif _is(t, 'bin') and t[1] in ('Eq', 'Ne') and _is(TB.deref(t[3]), 'const') and TB.deref(t[3])[1] in (0, 1):
            x = TB.deref(t[2])
            if (_is(x, 'bin') and ((x[1] == 'Rem' and TB.deref(x[3]) == ('const', 2)) or (x[1] == 'BitAnd' and TB.deref(x[3]) == ('const', 1)))):
                c = TB.deref(t[3])[1]
                holds = truth if t[1] == 'Eq' else truth ^ 1
                out.append((x[2], c if holds else c ^ 1))
    return out


def parity_cases(terms, facts=()):
    """xor of the parities of `terms`, once per consistent choice (a - b / clamped to 0) for every distinct saturating_sub,
    reduced by the parity facts of the path (GF(2) elimination by trying the xor of every subset of facts):
    -> [(case description, bit, atoms)]"""
    import itertools
    subs = []
    for t in list(terms) + [f[0] for f in facts]:
        for s in satsubs(t):
            if s not in subs:
                subs.append(s)
    out = []
    for choice in itertools.product((False, True), repeat=len(subs)):
        case = dict(zip(subs, choice))
        bit, atoms = 0, frozenset()
        for t in terms:
            alts = parity(t, case)
            bit ^= alts[0][0]
            atoms ^= alts[0][1]
        eqs = []
        for ft, fb in facts[:6]:
            a = parity(ft, case)[0]
            eqs.append((a[0] ^ fb, a[1]))       # (const ^ fb) + atoms = 0
        best = (bit, atoms)
        for k in range(1, len(eqs) + 1):
            for sub in itertools.combinations(eqs, k):
                b2, a2 = bit, atoms
                for eb, ea in sub:
                    b2 ^= eb
                    a2 ^= ea
                if len(a2) < len(best[1]):
                    best = (b2, a2)
        out.append((case, best[0], best[1]))
    return out


def parity(t, case=None):
    """-> [(bit, frozenset(atoms))]: the value of t mod 2 as xor of a constant and symbolic atoms; `case` says for each
    saturating_sub term whether it is clamped"""
    case = case if case is not None else {}
    t = TB.deref(t)
    if _is(t, 'const') and isinstance(t[1], int):
        return [(t[1] & 1, frozenset())]
    if _is(t, 'cast'):
        return parity(t[1], case)
    if _is(t, 'bin'):
        op, a, b = t[1], t[2], t[3]
        if op in ('Add', 'Sub', 'AddWithOverflow', 'SubWithOverflow', 'BitXor'):
            return [(x[0] ^ y[0], x[1] ^ y[1]) for x in parity(a, case) for y in parity(b, case)]
        if op in ('Mul', 'MulWithOverflow'):
            return _mul(a, b, t, case)
        if op == 'Rem' and TB.deref(b) == ('const', 2):
            return parity(a, case)
        if op == 'BitAnd' and (TB.deref(b) == ('const', 1) or TB.deref(a) == ('const', 1)):
            return parity(a if TB.deref(b) == ('const', 1) else b, case)
        if op == 'Shl' and _is(TB.deref(b), 'const') and TB.deref(b)[1] >= 1:
            return [(0, frozenset())]
        return [(0, frozenset([t]))]
    if _is(t, 'field') and t[2] == '0' and _is(TB.deref(t[1]), 'bin') and TB.deref(t[1])[1].endswith('WithOverflow'):
        return parity(TB.deref(t[1]), case)
    if _is(t, 'call'):
        nm, args = _name(t), t[2]
        if CONV.search(nm) and len(args) >= 1:
            return parity(args[0], case)
        if re.search(r'ops::(Add|Sub)::(add|sub)$|::wrapping_(add|sub)$|::checked_(add|sub)$', nm) and len(args) == 2:
            return [(x[0] ^ y[0], x[1] ^ y[1]) for x in parity(args[0], case) for y in parity(args[1], case)]
        if re.search(r'ops::Mul::mul$|::wrapping_mul$', nm) and len(args) == 2:
            return _mul(args[0], args[1], t, case)
        if re.search(r'Integer::is_odd$', nm) and len(args) == 1:
            return parity(args[0], case)
        if re.search(r'Integer::is_even$', nm) and len(args) == 1:
            return [(x[0] ^ 1, x[1]) for x in parity(args[0], case)]
        if SATSUB.search(t[1]) and len(args) == 2 and t in case:
            if case[t]:
                return [(0, frozenset())]
            return [(x[0] ^ y[0], x[1] ^ y[1]) for x in parity(args[0], case) for y in parity(args[1], case)]
        if re.search(r'::rem_euclid$|ops::Rem::rem$|Integer::mod_floor$', nm) and len(args) == 2 and TB.deref(args[1]) == ('const', 2):
            return parity(args[0], case)
        if re.search(r'ops::Neg::neg$', nm) and len(args) == 1:
            return parity(args[0], case)
    if _is(t, 'un') and t[1] == 'Neg':
        return parity(t[2], case)
    return [(0, frozenset([t]))]


def _mul(a, b, t, case):
    pa, pb = parity(a, case), parity(b, case)
    out = []
    for x in pa:
        for y in pb:
            if not x[1] and x[0] == 0 or not y[1] and y[0] == 0:
                out.append((0, frozenset()))
            elif not x[1] and x[0] == 1:
                out.append(y)
            elif not y[1] and y[0] == 1:
                out.append(x)
            else:
                out.append((0, frozenset([t])))
    return out


def _free(atom):
    a = TB.deref(atom)
    if a == ('saturated',):
        return True
    if _is(a, 'param'):
        return True
    if _is(a, 'field'):
        return _free(a[1])
    if _is(a, 'call') and FREE.search(_name(a)):
        return True
    return False


def _show_atoms(atoms):
    return ' + '.join(sorted('[saturating_sub clamps to 0]' if a == ('saturated',) else TB.show(a)[:60] for a in atoms))


def _arith(t):
    """big-integer arithmetic in operator form or in place (x += d, x *= c) as ('add'|'mul', x, y); other terms unchanged"""
    t = TB.deref(t)
    if _is(t, 'call') and len(t[2]) == 2:
        m = re.search(r'ops::(Add|Mul)::(add|mul)$', _name(t))
        if m:
            return (m.group(2), _arith(t[2][0]), _arith(t[2][1]))
    if _is(t, 'mutated') and len(t) == 4 and len(t[3]) == 1:
        m = re.search(r'ops::(Add|Mul)Assign::(add|mul)_assign$', TB._plain(t[2]))
        if m:
            return (m.group(2), _arith(t[1]), _arith(t[3][0]))
    return t


def _int_param(fn):
    for i, ty in enumerate(fn.argtys(), 1):
        if re.search(r'BigUint', ty):
            return i
    return None


def _scale_param(fn):
    for i, ty in enumerate(fn.argtys(), 1):
        if ty.strip() == 'i64':
            return i
    return None


def _pow_of_ten_arg(R, n_term):
    """R == n * ten_to_the_uint(E) (either order) -> E"""
    R = TB.deref(R)
    if _is(R, 'call') and re.search(r'ops::Mul::mul$', _name(R)) and len(R[2]) == 2:
        a, b = TB.deref(R[2][0]), TB.deref(R[2][1])
        for x, y in ((a, b), (b, a)):
            if x == n_term and _is(y, 'call') and re.search(r'ten_to_the(_uint|_u64)?$', _name(y)) and y[2]:
                return y[2][0]
    return None


def check_sqrt(rep, F, rule='ROOT-SHAPE'):
    fn = F.fns.get('arithmetic::sqrt::impl_sqrt')
    if fn is None:
        rep.violation(rule, 'impl_sqrt:missing', 'anchor function impl_sqrt not found (fail closed)')
        return 0
    rep.add_functions([fn.name])
    try:
        pe = TB.PathEnum(F, fn, max_paths=64)
        paths = pe.run()
    except Undecided as e:
        rep.undecided_anchor(rule, fn.key + ':root-shape', 'paths not enumerable: %s' % e, fn.where())
        return 0
    ni, si = _int_param(fn), _scale_param(fn)
    if ni is not None and si is None and re.search(r'WithScale<', fn.argtys()[ni - 1]):
        # the operand handed over as one (integer, scale) carrier
        n_term, s_term = T('field', T('param', ni), 'value'), T('field', T('param', ni), 'scale')
    elif ni is None or si is None:
        rep.undecided_anchor(rule, fn.key + ':root-shape', 'parameters (integer, scale) not recognised', fn.where())
        return 0
    else:
        n_term, s_term = T('param', ni), T('param', si)
    res = {}
    rank = {'ok': 0, 'undecided': 1, 'violation': 2}

    def put(cell, status, why):
        cur = res.get(cell)
        if cur is None or rank[status] > rank[cur[0]]:
            res[cell] = (status, why)

    for (atoms, out), eff in zip(paths, pe.effects):
        roots = [(c, a) for c, a in eff if re.search(r'BigUint::sqrt$|Roots::sqrt$', TB._plain(c))]
        if len(roots) != 1:
            put('parity', 'undecided', '%d integer square roots on a path' % len(roots))
            continue
        R = TB.deref(roots[0][1][0])
        r = T('call', roots[0][0], tuple(roots[0][1]))
        # ---- PARITY
        E = _pow_of_ten_arg(R, n_term)
        if E is None:
            put('parity', 'undecided', 'radicand is not n * 10^E: %s' % TB.show(R)[:80])
        else:
            cases = parity_cases([s_term, E], parity_facts(atoms))
            for case, bit, at in cases:
                clamped = [TB.show(k)[:70] for k, v in case.items() if v]
                when = (' when %s clamps to 0' % ' and '.join(clamped)) if clamped else (' when no saturating_sub clamps' if case else '')
                if bit == 0 and not at:
                    put('parity', 'ok', 'scale + E is even in all %d cases (every saturating_sub clamped / not clamped)' % len(cases))
                elif all(_free(a) for a in at):
                    put('parity', 'violation', 'scale + E is not always even%s: it has the parity of %s%s, so for half of those inputs the integer root carries the digits of sqrt(10 x)'
                        % (when, _show_atoms(at) or 'a constant', ' + 1' if bit else ''))
                else:
                    put('parity', 'undecided', 'parity of scale + E depends on %s' % _show_atoms(at))
        # ---- STICKY + COUNTED
        news = [(c, a) for c, a in eff if re.search(r'BigDecimal::new$', TB._plain(c)) and any(s == r for s in TB.subterms(a[0]))]
        if len(news) != 1:
            put('sticky', 'undecided', 'the integer root does not reach exactly one BigDecimal::new on a path')
            continue
        S = TB.deref(news[0][1][0])
        while _is(S, 'call') and CONV.search(_name(S)) and S[2]:
            S = TB.deref(S[2][0])
        # what the path knows about r*r vs R
        known = None
        for term, (rel, val) in atoms:
            t = TB.deref(term)
            cmp_ = None
            if _is(t, 'call') and re.search(r'PartialEq::(eq|ne)$', _name(t)) and len(t[2]) == 2:
                cmp_ = ('Eq' if _name(t).endswith('eq') else 'Ne', TB.deref(t[2][0]), TB.deref(t[2][1]))
            elif _is(t, 'bin') and t[1] in ('Eq', 'Ne'):
                cmp_ = (t[1], TB.deref(t[2]), TB.deref(t[3]))
            if not cmp_:
                continue
            op, a, b = cmp_
            for x, y in ((a, b), (b, a)):
                sq = _is(x, 'call') and ((re.search(r'ops::Mul::mul$', _name(x)) and len(x[2]) == 2 and TB.deref(x[2][0]) == r and TB.deref(x[2][1]) == r)
                                         or (re.search(r'::pow$', _name(x)) and len(x[2]) == 2 and TB.deref(x[2][0]) == r and TB.deref(x[2][1]) == ('const', 2)))
                if sq and y == R:
                    truth = (rel == 'notin' and 0 in val) or (rel == 'eq' and val != 0)
                    known = 'exact' if (op == 'Eq') == truth else 'inexact'
        if S == r:
            if known == 'exact':
                put('sticky', 'ok', 'the bare floor root is used only where r*r == R holds')
            elif known == 'inexact':
                put('sticky', 'violation', 'on the path where r*r != R the bare floor root is rounded: an inexact root whose guard digits are all zero is treated as exact')
            else:
                put('sticky', 'undecided', 'no comparison of r*r with the radicand on the path that rounds the bare floor root')
        else:
            d = None
            A = _arith(S)
            if A[0] == 'add' and _is(A[2], 'const') and A[1][0] == 'mul' and A[1][1] == r and A[1][2] == ('const', 10):
                d = A[2][1]
            if A[0] == 'add' and A[1] == r and _is(A[2], 'const') and known != 'exact':
                put('sticky', 'violation', 'an inexact floor root r is replaced by r + %d: the integer handed to the rounding is then above the true root, so Down/Floor truncate a value that is too large and the half modes see a wrong tail' % A[2][1])
            elif d is None:
                put('sticky', 'undecided', 'the constructed integer is neither r nor r*10 + d: %s' % TB.show(S)[:80])
            elif known == 'exact':
                put('sticky', 'violation', 'a sticky digit is appended on the path where the root is exact (r*r == R): exact roots are no longer returned exactly under directed modes')
            elif not (1 <= d <= 9):
                put('sticky', 'violation', 'the digit appended to an inexact root is %d: it must be a non-zero decimal digit to stand for the dropped remainder' % d)
            elif known == 'inexact':
                put('sticky', 'ok', 'r*10 + %d exactly where r*r != R' % d)
            else:
                put('sticky', 'undecided', 'sticky digit appended without a recognised r*r vs R comparison')
        counts = [(c, a) for c, a in eff if re.search(r'count_decimal_digits_uint$', TB._plain(c)) and any(s == r for s in TB.subterms(a[0]))]
        for c, a in counts:
            X = TB.deref(a[0])
            if X == S:
                put('counted', 'ok', 'the digits counted for the scale are those of the integer constructed')
            else:
                put('counted', 'violation', 'the scale is computed from the digit count of %s but the integer constructed is %s: their lengths differ by the sticky digit'
                    % (TB.show(X)[:50] if X != r else 'the bare root', 'the bare root' if S == r else 'the root with a digit appended'))
        if not counts:
            put('counted', 'undecided', 'no digit count of the root on this path')
    n = 0
    for cell, (status, why) in sorted(res.items()):
        n += 1
        key = '%s:root-shape[%s]' % (fn.key, cell)
        getattr(rep, {'ok': 'ok', 'undecided': 'undecided', 'violation': 'violation'}[status])(rule, key, why, fn.where())
    return n


def check_cbrt(rep, F, rule='ROOT-SHAPE'):
    fn = F.fns.get('arithmetic::cbrt::impl_cbrt_uint_scale')
    if fn is None:
        rep.violation(rule, 'impl_cbrt_uint_scale:missing', 'anchor function not found (fail closed)')
        return 0
    rep.add_functions([fn.name])
    key = fn.key + ':root-shape[exact-flag]'
    try:
        pe = TB.PathEnum(F, fn, max_paths=400)
        paths = pe.run()
    except Undecided as e:
        rep.undecided_anchor(rule, key, 'paths not enumerable: %s' % e, fn.where())
        return 0
    verdicts = set()
    why = {}
    for (atoms, out), eff in zip(paths, pe.effects):
        for c, a in eff:
            if not (TB._plain(c).endswith('from_digit_and_lazy_trailing_zeros') and len(a) == 3):
                continue
            from rules import numeral as _N
            a = _N.lazy_ctor_args(F, c, a)
            clo = TB.deref(a[2])
            if not (_is(clo, 'closure') and clo[1] in F.fns):
                verdicts.add('undecided')
                why['undecided'] = 'the trailing-zero flag is not a local closure'
                continue
            try:
                body = TB.PathEnum(F, F.fns[clo[1]], max_paths=16).run()
            except Undecided as e:
                verdicts.add('undecided')
                why['undecided'] = 'closure not enumerable: %s' % e
                continue
            env = T('tuple', tuple(clo[2]))

            def inst(t):
                return TB.strip_refs(TB.simplify(TB.substitute(t, (env,))))

            def exact_cmp(t):
                """t is (root^3 == radicand) with root = nth_root(radicand, 3): returns 'Eq' / 'Ne' / None"""
                t = inst(t)
                if _is(t, 'bin') and t[1] in ('Eq', 'Ne'):
                    op, a_, b_ = t[1], t[2], t[3]
                elif _is(t, 'call') and re.search(r'PartialEq::(eq|ne)$', _name(t)) and len(t[2]) == 2:
                    op, a_, b_ = ('Eq' if _name(t).endswith('eq') else 'Ne'), t[2][0], t[2][1]
                else:
                    return None
                for x, y in ((a_, b_), (b_, a_)):
                    if _is(x, 'call') and re.search(r'::pow$', _name(x)) and len(x[2]) == 2 and x[2][1] == ('const', 3):
                        rt = x[2][0]
                        if _is(rt, 'call') and re.search(r'nth_root$', _name(rt)) and len(rt[2]) == 2 and rt[2][1] == ('const', 3) and rt[2][0] == y:
                            return op
                return None

            def wrong_power(t):
                """a comparison of root^k with the radicand where k is not the degree of the root"""
                t = inst(t)
                for s_ in TB.subterms(t):
                    if _is(s_, 'call') and re.search(r'::pow$', _name(s_)) and len(s_[2]) == 2 and _is(s_[2][1], 'const') and s_[2][1][1] != 3:
                        rt = s_[2][0]
                        if _is(rt, 'call') and re.search(r'nth_root$', _name(rt)) and len(rt[2]) == 2 and rt[2][1] == ('const', 3):
                            return s_[2][1][1]
                return None

            for batoms, bout in body:
                bo = TB.deref(bout)
                established = False
                for term, (rel, val) in batoms:
                    op = exact_cmp(term)
                    if op:
                        truth = (rel == 'notin' and 0 in val) or (rel == 'eq' and val != 0)
                        if (op == 'Eq') == truth:
                            established = True
                if bo == ('const', 0):
                    continue
                if bo == ('const', 1):
                    if established:
                        verdicts.add('ok')
                    else:
                        verdicts.add('violation')
                        why['violation'] = 'the "discarded part is zero" flag is true on a path that does not establish root^3 == radicand: an inexact root whose trimmed digits are all zero is rounded as exact'
                    continue
                op = exact_cmp(bo)
                wp = wrong_power(bo)
                for term, _c in batoms:
                    wp = wp if wp is not None else wrong_power(term)
                if wp is not None:
                    verdicts.add('violation')
                    why['violation'] = 'the exactness test compares root^%d with the radicand of a cube root' % wp
                elif op == 'Eq' or established:
                    verdicts.add('ok')
                elif op == 'Ne':
                    verdicts.add('violation')
                    why['violation'] = 'the flag is the negation of root^3 == radicand'
                else:
                    # a value that does not mention the radicand cannot know about the exactness of the root
                    mentions_root = any(_is(s, 'call') and re.search(r'::pow$|ops::Mul::mul$|ops::Sub::sub$', _name(s)) for s in TB.subterms(inst(bo)))
                    if mentions_root:
                        verdicts.add('undecided')
                        why['undecided'] = 'flag value not recognised: %s' % TB.show(inst(bo))[:80]
                    else:
                        verdicts.add('violation')
                        why['violation'] = 'the "discarded part is zero" flag (%s) is decided from the trimmed digits of the floor root alone: root^3 is never compared with the radicand, so an inexact root whose trimmed digits are all zero is rounded as exact' % TB.show(inst(bo))[:60]
    nlead = _leading_digit_clause(rep, F, fn, paths, pe.effects, rule)
    if not verdicts:
        rep.undecided_anchor(rule, key, 'no from_digit_and_lazy_trailing_zeros call found on the paths of impl_cbrt_uint_scale', fn.where())
        return 0
    if 'violation' in verdicts:
        rep.violation(rule, key, why['violation'], fn.where())
    elif 'undecided' in verdicts:
        rep.undecided(rule, key, why['undecided'], fn.where())
    else:
        rep.ok(rule, key, 'the trailing-zero flag is true only where nth_root(R,3)^3 == R holds (all %d paths)' % len(paths), fn.where())
    return 1 + nlead


def _leading_digit_clause(rep, F, fn, paths, effects, rule):
    """The first discarded digit handed to the rounding data.  The discarded part is REM = div_rem(root, 10^T).1 < 10^T,
    written as the digit vector D = to_radix_le(REM, 10), so len(D) <= T and the first discarded digit (position T-1) is
    the top digit of D exactly when len(D) == T and is 0 otherwise.  Decided per path from the comparisons of len(D)
    with T on it: the path that takes split_last(D) must imply len(D) == T, the path that passes the constant 0 must
    imply len(D) < T.  Comparisons mentioning len(D) that are not linear in (len(D), T) leave the clause undecided."""
    from rules import numeral as _N
    key = fn.key + ':root-shape[first-discarded-digit]'
    verdict = {}
    for (atoms, out), eff in zip(paths, effects):
        for c, a in eff:
            if not (TB._plain(c).endswith('from_digit_and_lazy_trailing_zeros') and len(a) == 3):
                continue
            a = _N.lazy_ctor_args(F, c, a)
            dg = _N.norm(a[1])
            D = None
            if dg == ('const', 0):
                kind = 'zero'
            elif _is(dg, 'field') and dg[2] == '0' and _N._callp(_N.norm(dg[1]), r'Option::unwrap$') and _N._callp(_N.norm(_N.norm(dg[1])[2][0]), r'split_last$'):
                kind = 'top'
                D = _N.view(_N.norm(_N.norm(dg[1])[2][0])[2][0])
            else:
                continue                                  # another way of reading the digit: not this clause's shape
            xs = set(range(-6, 1))                        # x = len(D) - T, at most 0
            und = None
            seenD = False
            for term, (rel, val) in atoms:
                t0 = _N.norm(term)
                if 'to_radix_le' not in TB.show(t0) or not (_is(t0, 'bin') and t0[1] in ('Lt', 'Le', 'Gt', 'Ge', 'Eq', 'Ne')):
                    continue
                d = _N.add(_N.lin2(t0[2]), _N.lin2(t0[3]), -1)
                lens = [k for k in d if isinstance(k, tuple) and k and k[0] == 'len' and 'to_radix_le' in TB.show(k[1])]
                if len(lens) != 1 or abs(d[lens[0]]) != 1:
                    continue
                dv = _N.view(lens[0][1])
                rem = dv
                while _is(rem, 'ref') or _is(rem, 'call') and re.search(r'to_radix_le$|as_slice$|Deref::deref$', _name(rem)):
                    rem = _N.norm(rem[1] if _is(rem, 'ref') else rem[2][0])
                # rem = div_rem(root, &ten_to_the_uint(T)).1
                T_ = None
                if _is(rem, 'field') and rem[2] == '1' and _N._callp(_N.norm(rem[1]), r'div_rem$'):
                    dv_ = TB.strip_refs(_N.norm(_N.norm(rem[1])[2][1]))
                    if _is(dv_, 'call') and re.search(r'ten_to_the_uint$|ten_to_the$', _name(dv_)) and dv_[2]:
                        T_ = _N.lin2(dv_[2][0])
                if T_ is None:
                    und = 'digit vector is not to_radix_le(div_rem(root, 10^T).1): %s' % TB.show(rem)[:60]
                    continue
                if D is not None and _N.view(D) != dv and TB.strip_refs(_N.view(D)) != TB.strip_refs(dv):
                    continue
                sgn = d[lens[0]]
                rest = _N.add(_N.add(d, {lens[0]: sgn}, -1), T_, sgn)       # d - sgn*(len - T)
                if any(k != 1 for k in rest):
                    und = 'comparison of len(D) with something other than T: %s' % TB.show(t0)[:80]
                    continue
                cst = rest.get(1, 0)
                truth = (rel == 'notin' and 0 in val) or (rel == 'eq' and val != 0)
                import operator as _o
                opf = {'Lt': _o.lt, 'Le': _o.le, 'Gt': _o.gt, 'Ge': _o.ge, 'Eq': _o.eq, 'Ne': _o.ne}[t0[1]]
                xs = {x for x in xs if opf(sgn * x + cst, 0) == truth}
                seenD = True
            if und and not seenD:
                verdict.setdefault('undecided', und)
            elif kind == 'top' and not xs <= {0}:
                verdict.setdefault('violation', 'the top digit of the remainder is taken as the first discarded digit on a path where len(D) - T may be %s: with more leading zeros dropped by to_radix_le the digit at position T-1 is 0, not the top digit' % sorted(xs - {0})[-1])
            elif kind == 'zero' and 0 in xs:
                verdict.setdefault('violation', 'the first discarded digit is taken to be 0 on a path where len(D) == T is possible: the top digit of the remainder is lost')
            else:
                verdict.setdefault('ok', 'split_last(D) only where len(D) == T, constant 0 only where len(D) < T')
    if not verdict:
        return 0
    if 'violation' in verdict:
        rep.violation(rule, key, verdict['violation'], fn.where())
    elif 'undecided' in verdict:
        rep.undecided(rule, key, verdict['undecided'], fn.where())
    else:
        rep.ok(rule, key, verdict['ok'], fn.where())
    return 1
