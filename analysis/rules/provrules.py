"""Sink rules of the R-PROV family (shared by C20, C04, C06, C07, C10-C12, C16)."""
import re, collections, os
from facts import cres, cdef, op_local, strip_lt, fmt_op
from rules import prov as P

OUT = '@OUT'
C_PREC = r'(^|::)DEFAULT_PRECISION@OUT$'
C_MODE = r'(^|::)DEFAULT_ROUNDING_MODE@OUT$'
C_LEAD = r'EXPONENTIAL_FORMAT_LEADING_ZERO_THRESHOLD@OUT$'
C_TRAIL = r'EXPONENTIAL_FORMAT_TRAILING_ZERO_THRESHOLD@OUT$'
C_PAD = r'FMT_MAX_INTEGER_PADDING@OUT$'


def short(srcs, n=8):
    return sorted(srcs)[:n]


def only_consts(srcs, pats, allow_lits=('lit:0', 'lit:1')):
    """(all required constants present?, list of foreign sources)"""
    present = {p: False for p in pats}
    bad = []
    for s in srcs:
        if s.startswith('const:'):
            nm = s[6:]
            hit = False
            for p in pats:
                if re.search(p, nm):
                    present[p] = True
                    hit = True
            if not hit:
                bad.append(s)
        elif s in allow_lits or s.startswith('closure:') or s.startswith('tag:'):
            continue
        else:
            bad.append(s)
    return all(present.values()), bad


def control_sources(F, E, fn, o):
    """sources of the switch discriminant that selects which constant a `matches!`-style boolean
    receives: all definitions of the operand's local are literal assignments and their nearest
    common dominator ends in a SwitchInt"""
    from dataflow import Defs
    l = op_local(o)
    if l is None:
        return set()
    defs = Defs(fn)
    seen = set()
    while l is not None and l not in seen:      # follow plain copies
        seen.add(l)
        ds = defs.defs.get(l, [])
        if len(ds) == 1 and ds[0][0] == 'assign' and ds[0][2]['rv']['r'] == 'use' and ds[0][2]['rv']['op']['k'] in ('copy', 'move') and not ds[0][2]['rv']['op']['pl']['p']:
            l = ds[0][2]['rv']['op']['pl']['l']
        else:
            break
    ds = defs.defs.get(l, [])
    if len(ds) < 2 or not all(d[0] == 'assign' and d[2]['rv']['r'] == 'use' and d[2]['rv']['op']['k'] == 'const' for d in ds):
        return set()
    dom = fn.dominators()
    common = None
    for d in ds:
        dd = dom.get(d[1], set()) - {d[1]}
        common = dd if common is None else (common & dd)
    out = set()
    env = E.local[fn.name]
    # nearest common dominators first: those dominated by all other common dominators
    for c in sorted(common or (), key=lambda b: -len(dom[b])):
        t = fn.blocks[c]['term']
        if t['t'] == 'switch':
            out |= E.read_op(fn, env, t['on']).all()
            break
    return out


def ctx_param_index(fn):
    for i in range(1, fn.argc + 1):
        if re.search(r'(^|[ &:])Context$', fn.ty(i)) or fn.ty(i).endswith('context::Context'):
            return i
    return None


def mode_param_index(fn):
    for i in range(1, fn.argc + 1):
        if fn.ty(i).endswith('RoundingMode'):
            return i
    return None


# ---------------------------------------------------------------- PROV-CTXDEFAULT
def ctx_default(rep, F, E, rule='PROV-CTXDEFAULT'):
    n = 0
    cd = [f for f in F.impls('std::default::Default') if (f.self_ty or '').endswith('Context')]
    rd = [f for f in F.impls('std::default::Default') if (f.self_ty or '').endswith('RoundingMode')]
    for f in cd:
        n += 1
        s = E.summ[f.name]
        for fld, pat in (('precision', C_PREC), ('rounding', C_MODE)):
            srcs = s.f.get(fld)
            if srcs is None:
                rep.undecided(rule, '%s.%s' % (f.key, fld), 'field provenance not separable (constructed through an unmodelled call): %s' % short(s.all()), f.where())
                continue
            ok, bad = only_consts(srcs, [pat])
            if ok and not bad:
                rep.ok(rule, '%s.%s' % (f.key, fld), 'derives only from %s' % short(srcs), f.where())
            else:
                rep.violation(rule, '%s.%s' % (f.key, fld),
                              'Context::default().%s must derive from the build-time constant and nothing else; sources: %s' % (fld, short(srcs)), f.where())
    for f in rd:
        n += 1
        srcs = E.summ[f.name].all()
        ok, bad = only_consts(srcs, [C_MODE])
        if ok and not bad:
            rep.ok(rule, f.key, 'returns %s' % short(srcs), f.where())
        else:
            rep.violation(rule, f.key, 'RoundingMode::default() must return the generated DEFAULT_ROUNDING_MODE; sources: %s' % short(srcs), f.where())
    return n


# ---------------------------------------------------------------- PROV-DEFAULTOPS
DEFAULT_CTX_METHODS = ('sqrt', 'cbrt', 'inverse')


def default_ops(rep, F, E, rule='PROV-DEFAULTOPS'):
    n = 0
    # (1) sqrt / cbrt / inverse: the Context handed on derives from the two generated constants only
    for f in F.real_fns():
        if f.is_closure or f.trait or ctx_param_index(f) is not None:
            continue
        m = re.match(r'^(BigDecimal|BigDecimalRef)::(?:<[^>]*>::)?(\w+)$', strip_lt(f.name))
        if not m or m.group(2) not in DEFAULT_CTX_METHODS:
            continue
        found = False
        for bid, t in f.calls():
            g = F.fns.get(cres(t))
            if g is None:
                continue
            ci = ctx_param_index(g)
            if ci is None or ci > len(t['args']):
                continue
            found = True
            n += 1
            srcs = E.arg_prov(f, t, ci - 1).all()
            ok, bad = only_consts(srcs, [C_PREC, C_MODE])
            key = '%s->%s:ctx' % (f.key, g.key)
            if ok and not bad:
                rep.ok(rule, key, 'context derives from %s' % short(srcs), f.where(t['loc']['line']))
            else:
                rep.violation(rule, key, 'default-context operation passes a Context that does not derive (only) from the generated DEFAULT_PRECISION and DEFAULT_ROUNDING_MODE: sources %s' % short(srcs), f.where(t['loc']['line']))
        if not found:
            rep.undecided(rule, f.key + ':no-context-call', 'default-context method no longer forwards to a context-taking routine; provenance clause not applicable in this shape', f.where())
    # (2) round(n): the mode handed to the rounding routine derives from the default mode constant
    for f in F.real_fns():
        if strip_lt(f.name) not in ('BigDecimal::round',):
            continue
        for bid, t in f.calls():
            g = F.fns.get(cres(t))
            if g is None:
                continue
            mi = mode_param_index(g)
            if mi is None:
                continue
            n += 1
            srcs = E.arg_prov(f, t, mi - 1).all()
            ok, bad = only_consts(srcs, [C_MODE])
            key = '%s->%s:mode' % (f.key, g.key)
            if ok and not bad:
                rep.ok(rule, key, 'mode derives from %s' % short(srcs), f.where(t['loc']['line']))
            else:
                rep.violation(rule, key, 'round(n) must round with the configured default mode: sources %s' % short(srcs), f.where(t['loc']['line']))
    # (3) division kernels: max_precision operand of impl_division is the generated constant
    for f in F.real_fns():
        if f.trait not in ('std::ops::Div', 'std::ops::DivAssign'):
            continue
        for bid, t in f.calls():
            g = F.fns.get(cres(t))
            if g is None or not g.name.endswith('impl_division') or len(t['args']) < 2:
                continue
            n += 1
            # the precision is the u64 parameter of the kernel (the last one), wherever the operands are carried
            pi_ = [i for i, ty in enumerate(g.argtys()) if ty == 'u64']
            srcs = E.arg_prov(f, t, pi_[-1] if pi_ else 3).all()
            ok, bad = only_consts(srcs, [C_PREC], allow_lits=())
            key = '%s->impl_division:max_precision' % f.key
            if ok and not bad:
                rep.ok(rule, key, 'max_precision = %s' % short(srcs), f.where(t['loc']['line']))
            else:
                rep.violation(rule, key, 'division must deliver the configured number of digits: max_precision sources %s' % short(srcs), f.where(t['loc']['line']))
    # (4) impl_division compares its digit count against the max_precision parameter
    for f in F.real_fns():
        if not f.name.endswith('impl_division') or f.is_closure:
            continue
        env = E.local[f.name]
        hit = False
        pi_ = [i for i, ty in enumerate(f.argtys(), 1) if ty == 'u64']
        PP = 'param:%d' % (pi_[-1] if pi_ else 4)
        for bid, st in f.stmts():
            rv = st['rv']
            if rv['r'] == 'bin' and rv['bop'] in ('Lt', 'Le', 'Gt', 'Ge', 'Eq', 'Ne'):
                srcs = E.read_op(f, env, rv['a']).all() | E.read_op(f, env, rv['b']).all()
                if any(s == PP for s in srcs):
                    hit = True
        for bid, t in f.calls():
            if re.search(r'cmp::Partial(Ord|Eq)::|cmp::Ord::', cdef(t)):
                srcs = set().union(*[E.arg_prov(f, t, i).all() for i in range(len(t['args']))])
                if PP in srcs:
                    hit = True
        n += 1
        if hit:
            rep.ok(rule, f.key + ':loop-bound', 'a comparison inside impl_division consumes its max_precision parameter', f.where())
        else:
            rep.violation(rule, f.key + ':loop-bound', 'impl_division never compares anything with its max_precision parameter: the configured precision cannot bound the digit loop', f.where())
    # (5) exp: the result precision (the with_prec whose value is returned) is the generated constant
    for f in F.real_fns():
        if strip_lt(f.name) != 'BigDecimal::exp':
            continue
        wp = [(bid, t) for bid, t in f.calls() if cres(t).endswith('BigDecimal::with_prec')]
        final = []
        for bid, t in wp:
            dl = op_local({'k': 'copy', 'pl': t['dest']})
            if dl == 0:
                final.append((bid, t))
        for bid, t in wp:
            n += 1
            srcs = E.arg_prov(f, t, 1).all()
            is_final = (bid, t) in final
            ok, bad = only_consts(srcs, [C_PREC], allow_lits=() if is_final else None or ('lit:0', 'lit:1', 'lit:2', 'lit:3', 'lit:4', 'lit:5', 'lit:6', 'lit:7', 'lit:8', 'lit:9', 'lit:10'))
            key = '%s->with_prec:%s' % (f.key, 'result' if is_final else 'intermediate')
            if ok and not bad:
                rep.ok(rule, key, 'precision = %s' % short(srcs), f.where(t['loc']['line']))
            elif is_final or not ok:
                rep.violation(rule, key, 'exp must deliver the configured number of digits: with_prec argument sources %s' % short(srcs), f.where(t['loc']['line']))
            else:
                rep.undecided(rule, key, 'intermediate precision has extra sources %s (internal choice, not a sink)' % short(bad), f.where(t['loc']['line']))
        if not final:
            rep.undecided(rule, f.key + ':no-final-with_prec', 'exp no longer ends in with_prec; result-precision clause undecided in this shape', f.where())
    return n


# ---------------------------------------------------------------- PROV-DISPLAY
def display_entries(F):
    return [f for f in F.impls('std::fmt::Display') if re.match(r'^(BigDecimal|BigDecimalRef)', f.self_ty or '')]


def fmt_entries(F):
    out = []
    for tr in ('std::fmt::Display', 'std::fmt::LowerExp', 'std::fmt::UpperExp'):
        out += [f for f in F.impls(tr) if re.match(r'^(BigDecimal|BigDecimalRef)', f.self_ty or '')]
    return out


def scale_taint(F, E, names):
    """top-down: which (function, param index) carry a scale-derived value"""
    return param_taint(F, E, names, lambda s: s == 'tag:scale')


def param_taint(F, E, names, is_source):
    """top-down taint over the call graph restricted to `names`: returns (tainted params per
    function, predicate telling whether a source set is tainted inside a given function)"""
    tainted = collections.defaultdict(set)

    def is_tainted(fn, srcs):
        for s in srcs:
            if is_source(s):
                return True
            m = re.match(r'^param:(\d+)', s)
            if m and int(m.group(1)) in tainted[fn.name]:
                return True
        return False

    changed = True
    while changed:
        changed = False
        for n in sorted(names):
            fn = F.fns[n]
            for bid, t in fn.calls():
                tg = F.call_targets(fn, t)
                if not tg:
                    continue
                for i in range(len(t['args'])):
                    if is_tainted(fn, E.arg_prov(fn, t, i).all()):
                        for g in tg:
                            if g in names and (i + 1) not in tainted[g] and (i + 1) <= F.fns[g].argc:
                                tainted[g].add(i + 1)
                                changed = True
    return tainted, is_tainted


def display_rules(rep, F, E, rule='PROV-DISPLAY'):
    n = 0
    ents = display_entries(F)
    # (a) both Display impls hand the two generated thresholds, in order, to the dispatcher
    for f in ents:
        for bid, t in f.calls():
            g = F.fns.get(cres(t))
            if g is None or g.argc < 4 or not all(g.ty(i) == 'usize' for i in (g.argc - 1, g.argc)):
                continue
            n += 1
            lead = E.arg_prov(f, t, g.argc - 2).all()
            trail = E.arg_prov(f, t, g.argc - 1).all()
            ok1, bad1 = only_consts(lead, [C_LEAD], allow_lits=())
            ok2, bad2 = only_consts(trail, [C_TRAIL], allow_lits=())
            key = '%s->%s:thresholds' % (f.key, g.key)
            if ok1 and ok2 and not bad1 and not bad2:
                rep.ok(rule, key, 'leading=%s trailing=%s' % (short(lead), short(trail)), f.where(t['loc']['line']))
            else:
                rep.violation(rule, key, 'Display must pass the generated (leading, trailing) zero thresholds in that order: leading sources %s, trailing sources %s' % (short(lead), short(trail)), f.where(t['loc']['line']))
            # (b) the dispatcher compares each threshold parameter
            env = E.local[g.name]
            used = {g.argc - 1: False, g.argc: False}
            for b2, st in g.stmts():
                rv = st['rv']
                if rv['r'] == 'bin' and rv['bop'] in ('Lt', 'Le', 'Gt', 'Ge'):
                    srcs = E.read_op(g, env, rv['a']).all() | E.read_op(g, env, rv['b']).all()
                    for pi in used:
                        if 'param:%d' % pi in srcs:
                            used[pi] = True
            for pi, u in used.items():
                n += 1
                key2 = '%s:param%d-compared' % (g.key, pi)
                if u:
                    rep.ok(rule, key2, 'threshold parameter %d feeds an ordering comparison' % pi, g.where())
                else:
                    rep.violation(rule, key2, 'the notation dispatcher never compares its threshold parameter %d: the configured threshold cannot select the notation' % pi, g.where())
    names = F.reach(ents)
    rep.add_functions(names)
    # (c) no other threshold: scale-derived value ordered against an integer literal other than 0/1
    tainted, is_tainted = scale_taint(F, E, names)
    hits = 0
    cmp_seen = 0
    for nme in sorted(names):
        fn = F.fns[nme]
        env = E.local[nme]
        ordn = collections.Counter()
        for bid, st in fn.stmts():
            rv = st['rv']
            if rv['r'] != 'bin' or rv['bop'] not in ('Lt', 'Le', 'Gt', 'Ge'):
                continue
            cmp_seen += 1
            for x, y in ((rv['a'], rv['b']), (rv['b'], rv['a'])):
                if y['k'] == 'const' and 'int' in y and 'named' not in y and y['int'] not in ('0', '1'):
                    if is_tainted(fn, E.read_op(fn, env, x).all()):
                        k = '%s|%s-lit' % (fn.key, rv['bop'])
                        o = ordn[k]
                        ordn[k] += 1
                        hits += 1
                        rep.violation(rule, '%s#%d' % (k, o),
                                      'hard-coded notation threshold: a scale-derived value is ordered against the literal %s (%s %s); only the generated thresholds may decide Display notation'
                                      % (y['int'], fmt_op(x, fn), rv['bop']), fn.where(st['line']))
    n += 1
    if hits == 0:
        rep.ok(rule, 'display-callgraph:no-literal-threshold', '%d ordering comparisons in %d functions reachable from Display: none orders a scale-derived value against a literal other than 0/1' % (cmp_seen, len(names)))
    # (d) the padding limit constant reaches an ordering comparison on the formatting paths
    allfmt = F.reach(fmt_entries(F))
    pad_used = False
    for nme in sorted(allfmt):
        fn = F.fns[nme]
        env = E.local[nme]
        for bid, st in fn.stmts():
            rv = st['rv']
            if rv['r'] == 'bin' and rv['bop'] in ('Lt', 'Le', 'Gt', 'Ge'):
                srcs = E.read_op(fn, env, rv['a']).all() | E.read_op(fn, env, rv['b']).all()
                if any(re.search(C_PAD, s[6:]) for s in srcs if s.startswith('const:')):
                    pad_used = True
    n += 1
    if pad_used:
        rep.ok(rule, 'fmt-callgraph:padding-limit-compared', 'FMT_MAX_INTEGER_PADDING feeds an ordering comparison on the formatting paths')
    else:
        rep.violation(rule, 'fmt-callgraph:padding-limit-compared', 'FMT_MAX_INTEGER_PADDING is never compared on the formatting paths: the configured padding limit is not honoured')
    return n, len(names)


# ---------------------------------------------------------------- PROV-FMTROUND
def fmt_round(rep, F, E, rule='PROV-FMTROUND'):
    """every rounding-data construction reachable from the formatting traits takes the configured
    default mode, and its sign derives from the formatted number's sign"""
    n = 0
    names = F.reach(fmt_entries(F))
    rep.add_functions(names)
    for nme in sorted(names):
        fn = F.fns[nme]
        env = E.local[nme]
        ordn = collections.Counter()
        # direct aggregate constructions of the rounding-data record
        for bid, st in fn.stmts():
            rv = st['rv']
            if rv['r'] == 'agg' and rv['kind'].get('a') == 'adt' and rv['kind']['adt'].endswith('NonDigitRoundingData'):
                fields = rv['kind']['fields']
                mode = E.read_op(fn, env, rv['ops'][fields.index('mode')]).all()
                sign = E.read_op(fn, env, rv['ops'][fields.index('sign')]).all()
                n += 1
                k = '%s|NonDigitRoundingData' % fn.key
                o = ordn[k]
                ordn[k] += 1
                ok, bad = only_consts(mode, [C_MODE], allow_lits=())
                sign_ok = any(s.startswith('param:') for s in sign) and not any(s.startswith('variant:') for s in sign)
                if ok and not bad and sign_ok:
                    rep.ok(rule, '%s#%d' % (k, o), 'mode=%s sign=%s' % (short(mode), short(sign)), fn.where(st['line']))
                else:
                    rep.violation(rule, '%s#%d' % (k, o), 'formatting must round with the configured default mode and the number\'s own sign: mode sources %s, sign sources %s' % (short(mode), short(sign)), fn.where(st['line']))
        # constructors of rounding data that take the sign as an argument
        for bid, t in fn.calls():
            g = F.fns.get(cres(t))
            if g is None or not (g.locals[0].endswith('NonDigitRoundingData') or g.locals[0].endswith('InsigData')):
                continue
            si = [i for i in range(1, g.argc + 1) if g.ty(i).endswith('Sign')]
            if not si:
                continue
            srcs = E.arg_prov(fn, t, si[0] - 1).all()
            n += 1
            k = '%s->%s:sign' % (fn.key, g.key)
            o = ordn[k]
            ordn[k] += 1
            if any(s.startswith('variant:') for s in srcs) or not any(s.startswith('param:') or '.sign' in s or 'sign' in s for s in srcs):
                rep.violation(rule, '%s#%d' % (k, o), 'rounding data on a formatting path is built with a sign that does not come from the formatted number: %s' % short(srcs), fn.where(t['loc']['line']))
            else:
                rep.ok(rule, '%s#%d' % (k, o), 'sign sources %s' % short(srcs), fn.where(t['loc']['line']))
        # rounding sinks called with an explicit mode argument
        for bid, t in fn.calls():
            g = F.fns.get(cres(t))
            if g is None:
                continue
            mi = mode_param_index(g)
            if mi is None or g.name.endswith('default_with_sign'):
                continue
            srcs = E.arg_prov(fn, t, mi - 1).all()
            n += 1
            k = '%s->%s:mode' % (fn.key, g.key)
            o = ordn[k]
            ordn[k] += 1
            ok, bad = only_consts(srcs, [C_MODE], allow_lits=())
            # a function that itself received the mode as a parameter just forwards it
            fwd = all(s.startswith('param:') for s in srcs) and srcs
            if (ok and not bad) or fwd:
                rep.ok(rule, '%s#%d' % (k, o), 'mode sources %s' % short(srcs), fn.where(t['loc']['line']))
            else:
                rep.violation(rule, '%s#%d' % (k, o), 'a rounding routine on the formatting path is called with a mode that is not the configured default: %s' % short(srcs), fn.where(t['loc']['line']))
    return n


# ---------------------------------------------------------------- PROV-BUILD
def build_rules(rep, FB, lib_consts, readme_vars, pairing, rule='PROV-BUILD'):
    """FB: facts of build_script_build.  lib_consts: names of OUT_DIR constants the library includes.
    pairing: {const name: env var} human-confirmed from the README semantics."""
    E = P.ProvEngine(FB, forward_all_external=True)
    env_vars = set()
    for f in FB.real_fns():
        for bid, t in f.calls():
            if re.search(r'std::env::var(_os)?$', cres(t)) and t['args']:
                for s in E.arg_prov(f, t, 0).all():
                    m = re.match(r'^str:"(RUST_BIGDECIMAL_[A-Z_0-9]+)"$', s)
                    if m:
                        env_vars.add(m.group(1))
    triples = []
    for f in FB.real_fns():
        writes = [(bid, t) for bid, t in f.calls() if cres(t) == 'std::fs::write' or cres(t).endswith('fs::write')]
        for bid, t in f.calls():
            if not re.search(r"fmt::Arguments::<'a>::new$|fmt::Arguments::new", cres(t)) or len(t['args']) < 2:
                continue
            tm = E.arg_prov(f, t, 0).all()
            names = set()
            tmpl_srcs = set()
            for s in tm:
                m = re.search(r'const ([A-Z_0-9]+):', s)
                if m and s.startswith('str:'):
                    names.add(m.group(1))
                    tmpl_srcs.add(s)
            if not names:
                continue
            vars_ = set()
            for s in E.arg_prov(f, t, 1).all():
                m = re.match(r'^str:"(RUST_BIGDECIMAL_[A-Z_0-9]+)"$', s)
                if m and m.group(1) in env_vars:
                    vars_.add(m.group(1))
            files = set()
            written = False
            for wb, wt in writes:
                contents = E.arg_prov(f, wt, 1).all()
                if tmpl_srcs & contents:
                    written = True
                    for s in E.arg_prov(f, wt, 0).all():
                        m = re.match(r'^str:"([A-Za-z_0-9]+\.rs)"$', s)
                        if m:
                            files.add(m.group(1))
            for nm in names:
                triples.append((nm, sorted(vars_), sorted(files), written, f))
    n = 0
    by_const = {t[0]: t for t in triples}
    used_vars = collections.Counter()
    for c in sorted(lib_consts):
        n += 1
        t = by_const.get(c)
        if t is None:
            rep.violation(rule, 'const:%s' % c, 'the library includes generated constant %s but build.rs has no format template writing it' % c)
            continue
        nm, vars_, files, written, f = t
        want = pairing.get(c)
        for v in vars_:
            used_vars[v] += 1
        if not written or not files:
            rep.violation(rule, 'const:%s' % c, 'template for %s does not flow into an fs::write of a file under OUT_DIR' % c, f.where())
        elif len(vars_) != 1:
            rep.violation(rule, 'const:%s' % c, 'value of %s must derive from exactly one RUST_BIGDECIMAL_* variable; found %s' % (c, vars_), f.where())
        elif want and vars_[0] != want:
            rep.violation(rule, 'const:%s' % c, '%s is generated from $%s but the documented variable for it is $%s' % (c, vars_[0], want), f.where())
        else:
            rep.ok(rule, 'const:%s' % c, '$%s -> %s -> const %s' % (vars_[0], files, c), f.where())
    for v, k in sorted(used_vars.items()):
        n += 1
        if k > 1:
            rep.violation(rule, 'var:%s:shared' % v, 'environment variable $%s feeds %d different generated constants' % (v, k))
        else:
            rep.ok(rule, 'var:%s:injective' % v, 'feeds exactly one generated constant')
    for v in sorted(readme_vars):
        n += 1
        if v in env_vars:
            rep.ok(rule, 'readme:%s' % v, 'documented variable is read by build.rs')
        else:
            rep.violation(rule, 'readme:%s' % v, 'README documents $%s but build.rs never reads it' % v)
    return n, triples


# ---------------------------------------------------------------- PROV-CTX (a context is honoured)
def _param_kinds(g):
    """indices (1-based) of the rounding-relevant parameters of function g"""
    out = {}
    for i in range(1, g.argc + 1):
        ty = g.ty(i)
        if re.search(r'(^|[ &:])Context$', ty):
            out[i] = 'ctx'
        elif ty.endswith('RoundingMode'):
            out[i] = 'mode'
        elif ty.endswith('NonDigitRoundingData'):
            out[i] = 'rdata'
        elif re.search(r'NonZero<u64>$|NonZeroU64$', ty):
            out[i] = 'prec'
    return out


MIRROR = {'variant:RoundingMode::Floor', 'variant:RoundingMode::Ceiling'}
ACCESSOR = re.compile(r'Context::(precision|rounding_mode|new|with_\w+)$|Clone::clone$|clone::Clone>::clone$|fmt::Debug>::fmt$|::eq$|::hash$|::default$|needs_trailing_zeros$')


def _out_locals(f):
    """locals through which a function delivers its result: the return place and &mut parameters"""
    return [0] + [i for i in range(1, f.argc + 1) if f.locals[i].startswith('&mut')]


def ctx_honoured(rep, F, E, fns, rule='PROV-CTX', allow_mirror=False):
    """for every given function with a Context parameter: the rounding routine(s) whose result
    reaches the return value receive mode <- ctx.rounding and precision <- ctx.precision"""
    from dataflow import backward_calls
    n = 0
    for f in fns:
        ci = ctx_param_index(f)
        if ci is None:
            continue
        rep.add_functions([f.name])

        def is_sink(t, F=F):
            g = F.fns.get(cres(t))
            if g is None:
                return False
            if ACCESSOR.search(g.name):
                return False
            kinds = _param_kinds(g)
            return any(k in ('ctx', 'mode', 'rdata') for k in kinds.values())

        stops, _ = backward_calls(f, _out_locals(f), is_sink)
        if not stops:
            rep.undecided(rule, f.key + ':no-final-sink', 'no rounding routine feeds the returned value in this body (nothing to decide here)', f.where())
            continue
        ordn = collections.Counter()
        for bid, t in stops:
            g = F.fns[cres(t)]
            kinds = _param_kinds(g)
            k0 = '%s->%s' % (f.key, g.key)
            o = ordn[k0]
            ordn[k0] += 1
            key = '%s#%d' % (k0, o)
            n += 1
            problems = []
            P_CTX = 'param:%d' % ci
            for i, kind in sorted(kinds.items()):
                if i > len(t['args']):
                    continue
                pv = E.arg_prov(f, t, i - 1)
                if kind == 'ctx':
                    srcs = pv.all()
                    # Option wrappers and the identity of a local closure (its captures and body are followed) carry no value of their own
                    extra = {s for s in srcs if not s.startswith(P_CTX) and not s.startswith('tag:') and s not in ('variant:Option::None', 'variant:Option::Some')
                             and not (s.startswith('closure:') and s[len('closure:'):] in F.fns)}
                    rounding = pv.f.get('rounding', srcs)
                    precision = pv.f.get('precision', srcs)
                    if not any(s.startswith(P_CTX) for s in srcs):
                        problems.append('context argument does not derive from the context parameter: %s' % short(srcs))
                    elif extra and not (allow_mirror and extra == MIRROR):
                        problems.append('context argument mixes in %s (the caller\'s context must be handed on unchanged)' % short(extra))
                    if 'precision' in pv.f and not all(s.startswith(P_CTX) for s in precision):
                        problems.append('precision of the forwarded context derives from %s' % short(precision))
                elif kind == 'mode':
                    srcs = pv.all()
                    own = {s for s in srcs if s == P_CTX + '.rounding' or s == P_CTX}
                    # a mirrored Floor/Ceiling literal beside the caller's own mode is the mirror dispatch, whose table is checked exactly
                    if not own or not (srcs == own or (allow_mirror and srcs - own == MIRROR)):
                        problems.append('mode argument sources %s (must be ctx.rounding)' % short(srcs))
                elif kind == 'rdata':
                    mode = pv.f.get('mode', pv.all())
                    if not mode or not all(s == P_CTX + '.rounding' or s == P_CTX for s in mode):
                        problems.append('rounding-data mode sources %s (must be ctx.rounding)' % short(mode))
                elif kind == 'prec':
                    srcs = pv.all()
                    if not srcs or not all(s.startswith(P_CTX) for s in srcs):
                        problems.append('precision argument sources %s (must be ctx.precision)' % short(srcs))
            if problems:
                rep.violation(rule, key, 'the rounding routine whose result is returned does not honour the context: ' + '; '.join(problems), f.where(t['loc']['line']))
            else:
                rep.ok(rule, key, 'final rounding routine %s receives the context parameter\'s precision and mode' % g.key.split('::')[-1], f.where(t['loc']['line']))
    return n


def mode_pair_honoured(rep, F, E, fns, rule='PROV-CTX'):
    """functions that receive (precision, mode or rounding data) as plain parameters: the final
    rounding routine receives exactly those parameters"""
    from dataflow import backward_calls
    n = 0
    for f in fns:
        kinds_f = _param_kinds(f)
        mode_i = [i for i, k in kinds_f.items() if k in ('mode', 'rdata')]
        if not mode_i or ctx_param_index(f) is not None:
            continue
        rep.add_functions([f.name])
        mi = mode_i[0]

        def is_sink(t, F=F):
            g = F.fns.get(cres(t))
            if g is None:
                return False
            if ACCESSOR.search(g.name):
                return False
            return any(k in ('mode', 'rdata') for k in _param_kinds(g).values())

        stops, _ = backward_calls(f, _out_locals(f), is_sink)
        if not stops:
            rep.undecided(rule, f.key + ':no-final-sink', 'no rounding routine feeds the returned value in this body', f.where())
            continue
        ordn = collections.Counter()
        for bid, t in stops:
            g = F.fns[cres(t)]
            k0 = '%s->%s' % (f.key, g.key)
            o = ordn[k0]
            ordn[k0] += 1
            n += 1
            problems = []
            for i, kind in sorted(_param_kinds(g).items()):
                if kind not in ('mode', 'rdata') or i > len(t['args']):
                    continue
                pv = E.arg_prov(f, t, i - 1)
                srcs = pv.f.get('mode', pv.all()) if kind == 'rdata' else pv.all()
                want = 'param:%d' % mi
                if not srcs or not all(s == want or s.startswith(want + '.') for s in srcs):
                    problems.append('mode sources %s (must be the %s parameter)' % (short(srcs), 'rounding-data' if kinds_f[mi] == 'rdata' else 'mode'))
            if problems:
                rep.violation(rule, '%s#%d' % (k0, o), 'final rounding routine ignores the caller\'s rounding mode: ' + '; '.join(problems), f.where(t['loc']['line']))
            else:
                rep.ok(rule, '%s#%d' % (k0, o), 'final rounding routine receives the mode parameter unchanged', f.where(t['loc']['line']))
    return n
