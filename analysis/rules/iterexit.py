"""ITER-EXIT: what a convergence loop may stop on (C12).

impl_inverse_uint_scale refines r <- r(2 - x r) in a loop.  The caller's context (precision p, rounding mode m) describes the
FINAL rounding of the converged value.  If the loop's exit test is computed from values that have already been rounded with
the caller's mode to the caller's precision, two successive iterates can agree after that rounding long before the iteration
has converged (under Down at p = 1 the iterates 1.79 and 1.98 of 1/0.5 both round to 1): agreement of p-digit roundings
implies nothing about the limit.  Necessary for "exact whenever 1/x has at most p digits, for every precision from 1 upwards":
the exit test of the refinement loop must not depend on a value that went through the caller-mode rounding.

Decided on MIR: strongly connected components of the CFG give the loops; for every switch inside a loop with an edge leaving
it, walk the data dependences of its discriminant backwards (through the body, around the back edge) and stop at calls whose
callee takes a rounding mode / context / rounding data parameter fed from this function's context parameter."""
import re
from facts import cdef, cres
from dataflow import backward_calls, op_local
from rules import provrules as R


def _sccs(fn):
    live = sorted(fn.live_blocks())
    index, low, onst, st, out = {}, {}, set(), [], []
    counter = [0]
    import sys
    sys.setrecursionlimit(10000)

    def strong(v):
        index[v] = low[v] = counter[0]
        counter[0] += 1
        st.append(v)
        onst.add(v)
        for w in fn.succ(v):
            if w not in fn.live_blocks() or fn.blocks[w]['cleanup']:
                continue
            if w not in index:
                strong(w)
                low[v] = min(low[v], low[w])
            elif w in onst:
                low[v] = min(low[v], index[w])
        if low[v] == index[v]:
            comp = set()
            while True:
                w = st.pop()
                onst.discard(w)
                comp.add(w)
                if w == v:
                    break
            out.append(comp)
    for v in live:
        if v not in index and not fn.blocks[v]['cleanup']:
            strong(v)
    return [c for c in out if len(c) > 1 or any(s in c for c0 in [c] for b in c0 for s in fn.succ(b) if s == b)]


def check(rep, F, fname, rule='ITER-EXIT'):
    fn = F.fns.get(fname)
    if fn is None:
        rep.violation(rule, fname.split('::')[-1] + ':missing', 'anchor function %s not found (fail closed)' % fname)
        return 0
    rep.add_functions([fn.name])
    key = fn.key + ':exit-test-independent-of-final-rounding'
    loops = _sccs(fn)
    if not loops:
        rep.ok(rule, key, 'no loop in %s: nothing iterates towards the result' % fn.key, fn.where())
        return 1
    ci = R.ctx_param_index(fn)

    def is_sink(t):
        g = F.fns.get(cres(t))
        if g is None or R.ACCESSOR.search(g.name):
            return False
        kinds = R._param_kinds(g)
        return any(k in ('mode', 'rdata', 'ctx') for k in kinds.values())

    n_exits = 0
    bad = []
    for comp in loops:
        for b in sorted(comp):
            t = fn.blocks[b]['term']
            if t['t'] != 'switch':
                continue
            tg = [x[1] for x in t['targets']] + [t['otherwise']]
            if all(x in comp for x in tg):
                continue
            l0 = op_local(t['on'])
            if l0 is None:
                continue
            n_exits += 1
            stops, visited = backward_calls(fn, [l0], is_sink)
            for sb, stt in stops:
                bad.append((t, stt))
    if not n_exits:
        rep.undecided(rule, key, 'loop without a recognisable exit test', fn.where())
        return 1
    if bad:
        t, stt = bad[0]
        rep.violation(rule, key, 'the refinement loop stops when values that already went through %s (the rounding to the caller\'s precision under the caller\'s mode) agree: '
                      'two successive iterates can round alike long before the iteration has converged, so the value returned need not be within one unit of the limit nor exact when the limit is representable'
                      % cres(stt).split('::')[-1], fn.where(t['loc']['line'] if t.get('loc') else None))
    else:
        rep.ok(rule, key, '%d exit test(s) of %d loop(s): none depends on a value rounded under the caller\'s mode' % (n_exits, len(loops)), fn.where())
    return 1
