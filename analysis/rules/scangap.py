"""SCAN-GAP: an element taken from a digit iterator is skipped in the middle of a scan.

In the digit-by-digit comparison loops every element pulled with `it.next()` is a digit of one operand.  If, on
some path, the `Some(..)` payload is never read (pattern `Some(_)`) and the same iterator is consumed again
afterwards (`it.all(..)`, another `it.next()`, ...) before the verdict, the verdict cannot depend on that digit
although digits after it are examined: two operands that differ only there compare alike.  (Dropping the last
element seen when the scan stops - e.g. `(None, Some(_)) => return false`, "the other operand is longer" - is not
a gap and is not reported.)

Forward may-dataflow over the MIR CFG: state = set of (payload place, iterator) known to be `Some` and not yet read.
  gen   on the `1` edge of a switch on discriminant(P), P holding the result of Iterator::next(&mut I)
  kill  at any read of (P as Some).0
  check at every call that receives &mut I while (P, I) is pending  -> violation
"""
import re
from facts import cdef, cres


def _pkey(pl):
    """(local, field index or None) for `_l` / `_l.f` places"""
    p = pl['p']
    if not p:
        return (pl['l'], None)
    if len(p) >= 1 and isinstance(p[0], dict) and 'f' in p[0]:
        return (pl['l'], p[0]['f'])
    return None


def _payload_read(pl, key):
    """does the place read the Some payload of `key`?"""
    l, f = key
    if pl['l'] != l:
        return False
    p = pl['p']
    i = 0
    if f is not None:
        if not (p and isinstance(p[0], dict) and p[0].get('f') == f):
            return False
        i = 1
    return len(p) > i and isinstance(p[i], dict) and 'dc' in p[i]


def _places(st):
    rv = st['rv']
    out = []
    for k in ('op', 'a', 'b'):
        o = rv.get(k)
        if o and o.get('k') in ('copy', 'move'):
            out.append(o['pl'])
    for o in rv.get('ops') or []:
        if o.get('k') in ('copy', 'move'):
            out.append(o['pl'])
    if rv.get('pl'):
        out.append(rv['pl'])
    return out


def analyse(fn):
    """-> (number of next() results tracked, list of (line, iterator name, what))"""
    refs = {}        # local -> local it mutably borrows (single definition)
    for bid, st in fn.stmts():
        rv = st['rv']
        if not st['lhs']['p'] and rv['r'] == 'ref' and rv.get('mut'):
            src = rv['pl']
            refs[st['lhs']['l']] = src['l'] if not src['p'] else (refs.get(src['l']) if src['p'] == ['*'] else None)

    def iterator_of(op):
        if op.get('k') not in ('copy', 'move'):
            return None
        l = op['pl']['l']
        seen = set()
        while l in refs and refs[l] is not None and l not in seen:
            seen.add(l)
            l = refs[l]
            if l not in refs:
                return l
        return None

    origin = {}
    for bid, t in fn.calls():
        if re.search(r'Iterator::next(_back)?$', cdef(t) or '') and t['args'] and t.get('dest') and not t['dest']['p']:
            it = iterator_of(t['args'][0])
            if it is not None and re.search(r'slice::Iter|Digits|vec::IntoIter|str::(Chars|Bytes)', fn.locals[it]):      # element iterators only: a `for _ in 0..n` counter is not a scan
                origin[(t['dest']['l'], None)] = it
    changed = True
    while changed:
        changed = False
        for bid, st in fn.stmts():
            rv = st['rv']
            if st['lhs']['p']:
                continue
            if rv['r'] == 'agg' and rv['kind'].get('a') == 'tuple':
                for i, o in enumerate(rv['ops']):
                    if o.get('k') in ('copy', 'move') and not o['pl']['p'] and (o['pl']['l'], None) in origin and (st['lhs']['l'], i) not in origin:
                        origin[(st['lhs']['l'], i)] = origin[(o['pl']['l'], None)]
                        changed = True
            elif rv['r'] == 'use' and rv['op'].get('k') in ('copy', 'move') and not rv['op']['pl']['p'] and (rv['op']['pl']['l'], None) in origin \
                    and (st['lhs']['l'], None) not in origin:
                origin[(st['lhs']['l'], None)] = origin[(rv['op']['pl']['l'], None)]
                changed = True
    if not origin:
        return 0, []
    dmap = {}
    for bid, st in fn.stmts():
        rv = st['rv']
        if rv['r'] == 'discr' and not st['lhs']['p']:
            k = _pkey(rv['pl'])
            if k in origin:
                dmap[st['lhs']['l']] = k
    live = fn.live_blocks()
    IN = {0: frozenset()}
    work = [0]
    findings = {}
    while work:
        bid = work.pop()
        state = set(IN[bid])
        b = fn.blocks[bid]
        if b['cleanup']:
            continue
        for st in b['st']:
            if st['s'] != 'assign':
                continue
            for pl in _places(st):
                for (k, it) in list(state):
                    if st['rv']['r'] != 'discr' and _payload_read(pl, k):
                        state.discard((k, it))
            # a fresh value stored over the holder ends the tracking of the old one
            if not st['lhs']['p']:
                for (k, it) in list(state):
                    if k[0] == st['lhs']['l']:
                        state.discard((k, it))
        t = b['term']
        outs = []
        if t['t'] == 'call':
            used = {iterator_of(a) for a in t['args']} - {None}
            for (k, it) in sorted(state, key=str):
                if it in used:
                    findings[(it, (cdef(t) or cres(t)).split('::')[-1].split('<')[0])] = t['loc']['line']
            if t.get('dest') and not t['dest']['p']:
                for (k, it) in list(state):
                    if k[0] == t['dest']['l']:
                        state.discard((k, it))
            if t.get('to') is not None:
                outs.append((t['to'], frozenset(state)))
        elif t['t'] == 'switch':
            k = dmap.get(t['on']['pl']['l']) if t['on'].get('k') in ('copy', 'move') else None
            for val, tgt in t['targets']:
                s2 = set(state)
                if k is not None and int(val) == 1:
                    s2.add((k, origin[k]))
                outs.append((tgt, frozenset(s2)))
            s2 = set(state)
            if k is not None and not any(int(v) == 1 for v, _ in t['targets']):
                s2.add((k, origin[k]))       # `[0 -> None] else Some`
            outs.append((t['otherwise'], frozenset(s2)))
        else:
            for nx in fn.succ(bid):
                outs.append((nx, frozenset(state)))
        for nx, s2 in outs:
            if nx not in live:
                continue
            old = IN.get(nx)
            new = s2 if old is None else (old | s2)
            if old is None or new != old:
                IN[nx] = new
                work.append(nx)
    out = [(line, fn.dbg.get(it, '_%d' % it), what) for (it, what), line in sorted(findings.items(), key=str)]
    return len({v for v in origin.values()}), out


def check(rep, F, names, rule='SCAN-GAP'):
    n = 0
    for nme in sorted(names):
        fn = F.fns[nme]
        cnt, finds = analyse(fn)
        if not cnt:
            continue
        n += 1
        key = fn.key + ':no-skipped-element'
        if finds:
            line, it, what = finds[0]
            rep.violation(rule, key, 'an element taken from `%s` with next() is never looked at (pattern `Some(_)`) and `%s` is then consumed again by %s(): the verdict cannot depend on that digit although later digits are examined' % (it, it, what), fn.where(line))
        else:
            rep.ok(rule, key, '%d iterator(s) advanced with next(): every element is read before its iterator is consumed again' % cnt, fn.where())
    return n
