"""Sample rows for fast paths of predicates (R-TABLE family).

A boolean predicate of a decimal (is_integer) may take shortcuts that the recognised table rows do not cover.  Such a row
stays undecided in general - but a constant answer can still be refuted with one well-chosen input: the row's guard atoms
are evaluated (abstractly, over path terms; nothing is executed) for a sample decimal under the contracts of the accessors
they mention, and if every atom holds the constant must be the predicate's true value for that sample.

Contracts used (C18's accessor clauses): for an unscaled integer v
    is_zero = (v == 0),  sign = NoSign/Plus/Minus,  digits() / count_decimal_digits = number of decimal digits (1 for 0),
    bits() = bit length,  is_negative / is_positive by sign;   scale is the sample's scale."""
import re
from rules import table as TB
from rules.table import Undecided, T


def _ndigits(v):
    return len(str(abs(v))) if v else 1


def env_for(atoms, v, k):
    """abstract inputs for the decimal v * 10^-k (receiver = param 1)"""
    env = {T('field', T('param', 1), 'scale'): k}
    for term, _ in atoms:
        for s in TB.subterms(term):
            if not (isinstance(s, tuple) and s and s[0] == 'call'):
                continue
            nm = TB._plain(s[1])
            args = s[2]
            a0 = TB.strip_refs(args[0]) if args else None
            recv = a0 in (T('param', 1), T('field', T('param', 1), 'int_val'), T('call', 'BigDecimal::to_ref', (T('param', 1),)))
            mag = a0 is not None and TB.show(a0) in ('magnitude(arg1.int_val)', 'abs(arg1.int_val)')
            if not (recv or mag):
                continue
            if re.search(r'Zero::is_zero$|::is_zero$', nm):
                env[s] = int(v == 0)
            elif re.search(r'BigDecimal::digits$|count_decimal_digits(_uint)?$|count_digits$', nm):
                env[s] = _ndigits(v)
            elif re.search(r'::bits$', nm):
                env[s] = abs(v).bit_length()
            elif re.search(r'::sign$', nm):
                env[s] = ('variant', 'Sign', 'NoSign' if v == 0 else ('Plus' if v > 0 else 'Minus'))
            elif re.search(r'is_negative$', nm):
                env[s] = int(v < 0)
            elif re.search(r'is_positive$', nm):
                env[s] = int(v > 0)
            elif re.search(r'One::is_one$|::is_one$', nm):
                env[s] = int(v == 1 and k == 0) if a0 == T('param', 1) else int(v == 1)
    return env


def refute_constant(F, atoms, const, truth_of, samples):
    """does some sample satisfy every atom of the row while the predicate's value differs from `const`?
    -> (v, k) of the refuting sample, None if no sample reaches the row, raises Undecided if an atom cannot be evaluated for
    every sample that could matter"""
    undecided = None
    for v, k in samples:
        if truth_of(v, k) == const:
            continue
        ev = TB.Evaluator(F.raw['enums'], env_for(atoms, v, k))
        try:
            if all(ev.holds(a) for a in atoms):
                return (v, k)
        except Undecided as e:
            undecided = e
    if undecided is not None:
        raise undecided
    return None
