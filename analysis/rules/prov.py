"""R-PROV: provenance (taint) of configuration constants, literals, parameters and contexts.

Flow-insensitive per local, field-sensitive (one level), interprocedural through function
summaries (return value and its fields expressed over the callee's parameters, substituted at
each call site).  A *source* is one of
   const:<path>[@OUT]   named constant (@OUT = defined in a build.rs-generated file under $OUT_DIR)
   lit:<value>          integer / bool / char literal
   variant:<Adt>::<V>   unit enum variant literal (e.g. RoundingMode::HalfEven)
   param:<i>[.<field>]  parameter i of the analysed function (or one of its fields)
   ret:<callee>[.<f>]   result of a call that is neither summarised nor value-forwarding
   str / other          string literal, unknown
"""
import re, collections
from facts import cdef, cres, op_local, strip_lt
from dataflow import Defs

WHOLE = ''

# value-forwarding callees: result derives from the arguments and nothing else
FORWARD = re.compile(
    r'NonZero::new$|NonZero::get$|NonZero::new_unchecked$|Option::unwrap$|Option::expect$|Result::unwrap$|Result::expect$'
    r'|Option::unwrap_or$|Option::unwrap_or_default$|Option::or$|Option::and$|Option::as_ref$|Option::as_mut$|Option::copied$|Option::cloned$|Option::as_deref$|Option::take$'
    r'|convert::Into::into$|convert::From::from$|convert::TryFrom::try_from$|convert::TryInto::try_into$'
    r'|ToPrimitive::to_[a-z0-9]+$|FromPrimitive::from_[a-z0-9]+$|NumCast::from$'
    r'|clone::Clone::clone$|borrow::ToOwned::to_owned$|ops::Deref::deref$|ops::DerefMut::deref_mut$|borrow::Borrow::borrow$|convert::AsRef::as_ref$'
    r'|::checked_add$|::checked_sub$|::checked_mul$|::checked_neg$|::checked_abs$|::unsigned_abs$|::saturating_add$|::saturating_sub$|::wrapping_add$|::wrapping_sub$'
    r'|ops::Add::add$|ops::Sub::sub$|ops::Mul::mul$|ops::Neg::neg$|ops::Div::div$|ops::Rem::rem$'
    r'|cmp::max$|cmp::min$|cmp::Ord::max$|cmp::Ord::min$|cmp::Ord::cmp$|cmp::PartialOrd::partial_cmp$'
    r'|cmp::PartialEq::eq$|cmp::PartialEq::ne$|cmp::PartialOrd::lt$|cmp::PartialOrd::le$|cmp::PartialOrd::gt$|cmp::PartialOrd::ge$'
    r'|Option::is_some$|Option::is_none$|ops::Try::branch$|ops::FromResidual::from_residual$'
    r'|(?:core|std)::num::abs$|(?:core|std)::num::unsigned_abs$|(?:core|std)::num::pow$|Ordering::reverse$')
# higher-order forwarding: result derives from the receiver, the closure's captures and its body
HIGHER = re.compile(r'Option::map$|Option::and_then$|Option::map_or$|Option::map_or_else$|Option::unwrap_or_else$|Option::or_else$|Option::filter$|Option::zip$|Result::map$|Result::and_then$|Result::map_err$|Result::ok$|Option::ok_or$|Option::ok_or_else$')


def strip_args(s):
    prev = None
    while prev != s:
        prev = s
        s = re.sub(r'<[^<>]*>', '', s)
    return re.sub(r':{3,}', '::', s)


def is_lit(s):
    return s.startswith('lit:') or s.startswith('variant:')


class PV:
    """provenance value: whole-value sources + per-field sources"""
    __slots__ = ('w', 'f')

    def __init__(self, w=None, f=None):
        self.w = set(w or ())
        self.f = {k: set(v) for k, v in (f or {}).items()}

    def copy(self):
        return PV(self.w, self.f)

    def all(self):
        out = set(self.w)
        for v in self.f.values():
            out |= v
        return out

    def field(self, name):
        if name in self.f:
            return PV(self.f[name])
        out = set()
        for s in self.w:
            if s.startswith('param:') or s.startswith('ret:'):
                if s.count('.') >= (1 if s.startswith('ret:') else 2):
                    out.add(s)      # depth cap: deeper paths collapse onto their prefix
                else:
                    out.add('%s.%s' % (s, name))
            else:
                out.add(s)
        return PV(out)

    def merge(self, other):
        ch = False
        n = len(self.w)
        self.w |= other.w
        ch = ch or len(self.w) != n
        for k, v in other.f.items():
            cur = self.f.setdefault(k, set())
            n = len(cur)
            cur |= v
            ch = ch or len(cur) != n
        return ch

    def __repr__(self):
        return 'PV(%s,%s)' % (sorted(self.w), {k: sorted(v) for k, v in self.f.items()})


class ProvEngine:
    def __init__(self, F, max_rounds=14, forward_all_external=False):
        self.F = F
        self.forward_all = forward_all_external
        self.summ = {}      # fn name -> PV (return value over the callee's params)
        self.local = {}     # fn name -> {local: PV}
        self.rounds = 0
        names = sorted(f.name for f in F.real_fns())
        for _ in range(max_rounds):
            self.rounds += 1
            changed = False
            for n in names:
                fn = F.fns[n]
                env = self.analyse(fn)
                self.local[n] = env
                new = env.get(0, PV())
                old = self.summ.get(n)
                if old is None or old.w != new.w or old.f != new.f:
                    self.summ[n] = new.copy()
                    changed = True
            if not changed:
                break

    # ----- helpers
    def const_src(self, fn, o):
        if 'named' in o:
            return 'const:%s%s' % (o['named'], '@OUT' if o.get('out_dir') else '')
        if 'promoted' in o:
            pv = self.F.promoted_value(fn, o['promoted'])
            if pv:
                if pv[0] == 'int':
                    return 'lit:%d' % pv[1]
                if pv[0] == 'variant':
                    return 'variant:%s::%s' % (pv[1].split('::')[-1], pv[2])
                if pv[0] == 'array':
                    return 'array'
            return 'promoted'
        if 'fn_def' in o:
            return None
        if 'int' in o:
            return 'lit:%s' % o['int']
        ty = o.get('ty', '')
        if 'str' in ty or '[u8' in ty:
            return 'str:' + o.get('s', '')[6:200]
        return 'other:' + ty

    def read_place(self, env, pl):
        v = env.get(pl['l'])
        if v is None:
            v = PV()
        cur = v
        for p in pl['p']:
            if p == '*':
                continue
            if isinstance(p, dict) and 'f' in p:
                nm = p['n']
                if nm.isdigit() and nm not in cur.f:
                    cur = PV(cur.all())      # tuple field of a non-aggregate (e.g. WithOverflow result)
                else:
                    cur = cur.field(nm)
                if nm == 'scale' and p.get('adt') in ('BigDecimal', 'BigDecimalRef'):
                    cur.w.add('tag:scale')
            elif isinstance(p, dict) and 'dc' in p:
                continue
            else:
                cur = PV(cur.all())
        return cur

    def read_op(self, fn, env, o):
        if o['k'] in ('copy', 'move'):
            return self.read_place(env, o['pl'])
        if o['k'] == 'const':
            s = self.const_src(fn, o)
            return PV([s] if s else [])
        return PV(['other'])

    def write_place(self, env, pl, val):
        l = pl['l']
        cur = env.setdefault(l, PV())
        fields = [p['n'] for p in pl['p'] if isinstance(p, dict) and 'f' in p]
        if not fields:
            return cur.merge(val)
        # field write: record on the first-level field; also taint whole
        f0 = fields[0]
        tgt = cur.f.setdefault(f0, set())
        n = len(tgt)
        tgt |= val.all()
        return len(tgt) != n

    def subst(self, summ, args):
        """instantiate a callee summary with the call's argument provenance"""
        def sub_set(srcs):
            out = set()
            for s in srcs:
                m = re.match(r'^param:(\d+)((?:\.[A-Za-z_0-9]+)*)$', s)
                if m:
                    i = int(m.group(1)) - 1
                    if i < len(args):
                        v = args[i]
                        for fld in [x for x in m.group(2).split('.') if x]:
                            v = v.field(fld)
                        out |= v.all() if not m.group(2) else v.w | set().union(*v.f.values()) if v.f else v.w
                    else:
                        out.add(s)
                else:
                    out.add(s)
            return out
        return PV(sub_set(summ.w), {k: sub_set(v) for k, v in summ.f.items()})

    def analyse(self, fn):
        F = self.F
        env = {}
        for i in range(1, fn.argc + 1):
            env[i] = PV(['param:%d' % i])
        if fn.is_closure:
            # closure environment (param 1) stands for the captured values of the parent: resolved by the caller
            pass
        changed = True
        it = 0
        live = sorted(fn.live_blocks())
        while changed and it < 40:
            changed = False
            it += 1
            for bid in live:
                b = fn.blocks[bid]
                for st in b['st']:
                    if st['s'] != 'assign':
                        continue
                    rv = st['rv']
                    r = rv['r']
                    val = None
                    if r in ('use', 'cast'):
                        val = self.read_op(fn, env, rv['op'])
                    elif r in ('ref', 'rawptr'):
                        val = self.read_place(env, rv['pl'])
                    elif r == 'bin':
                        a = self.read_op(fn, env, rv['a'])
                        bb = self.read_op(fn, env, rv['b'])
                        val = PV(a.all() | bb.all())
                    elif r == 'un':
                        val = PV(self.read_op(fn, env, rv['a']).all())
                    elif r == 'discr':
                        val = PV(self.read_place(env, rv['pl']).all())
                    elif r == 'agg':
                        k = rv['kind']
                        ops = [self.read_op(fn, env, o) for o in rv['ops']]
                        if k['a'] == 'adt':
                            if not ops:
                                val = PV(['variant:%s::%s' % (k['adt'].split('::')[-1], k['variant'])])
                            else:
                                names = k.get('fields') or []
                                val = PV(set().union(*[o.all() for o in ops]))
                                for nm, o in zip(names, ops):
                                    val.f[nm] = o.all()
                        elif k['a'] == 'tuple':
                            val = PV(set().union(*[o.all() for o in ops]) if ops else [])
                            for i, o in enumerate(ops):
                                val.f[str(i)] = o.all()
                        elif k['a'] == 'closure':
                            val = PV(set().union(*[o.all() for o in ops]) if ops else [])
                            val.w.add('closure:' + k['def'])
                        else:
                            val = PV(set().union(*[o.all() for o in ops]) if ops else [])
                    if val is not None and self.write_place(env, st['lhs'], val):
                        changed = True
                t = b['term']
                if t['t'] == 'call':
                    val = self.call_value(fn, env, t)
                    if self.write_place(env, t['dest'], val):
                        changed = True
        return env

    def call_value(self, fn, env, t):
        F = self.F
        c = t['callee']
        args = [self.read_op(fn, env, a) for a in t['args']]
        if 'def' not in c:
            return PV(['ret:indirect'])
        d = strip_args(c['def'])
        res = c.get('resolved') or ''
        if res in F.fns and res in self.summ:
            return self.subst(self.summ[res], args)
        if res in F.fns:
            return PV(['ret:' + res])
        targets = sorted(F.call_targets(fn, t))
        if FORWARD.search(d) and not targets:
            return PV(set().union(*[a.all() for a in args]) if args else [])
        if HIGHER.search(d):
            out = set()
            for a in args:
                for s in a.all():
                    if s.startswith('closure:'):
                        cn = s[len('closure:'):]
                        if cn in self.summ:
                            # closure params: (env, x): substitute env with captures (already in `a`), x with the receiver
                            recv = args[0] if args else PV()
                            inst = self.subst(self.summ[cn], [a, recv, recv])
                            out |= inst.all()
                        else:
                            out.add('ret:' + cn)
                    else:
                        out.add(s)
            return PV(out)
        if targets:
            # trampoline / trait-parameter call into local impls: union of their summaries
            out = PV()
            for tn in targets:
                if tn in self.summ:
                    # Into::into(x) -> From::from(x): same argument order
                    out.merge(self.subst(self.summ[tn], args))
                else:
                    out.w.add('ret:' + tn)
            if FORWARD.search(d):
                out.w |= set().union(*[a.all() for a in args]) if args else set()
            return out
        if self.forward_all:
            out = set().union(*[a.all() for a in args]) if args else set()
            for a in list(out):
                if a.startswith('closure:') and a[8:] in self.summ:
                    out |= self.summ[a[8:]].all()
            return PV(out)
        return PV(['ret:' + (res or c['def'])])

    # ----- queries
    def arg_prov(self, fn, t, i):
        env = self.local[fn.name]
        return self.read_op(fn, env, t['args'][i])

    def op_prov(self, fn, o):
        return self.read_op(fn, self.local[fn.name], o)


def leaves(srcs):
    return sorted(srcs)


def classify(srcs, allowed_consts, allow_lits=('lit:0', 'lit:1'), allow_params=False):
    """split a source set into (ok, bad) w.r.t. a sink that must derive from the given constants"""
    bad = []
    has = False
    for s in srcs:
        if s.startswith('const:'):
            nm = s[len('const:'):]
            if any(re.search(a, nm) for a in allowed_consts):
                has = True
            else:
                bad.append(s)
        elif s in allow_lits or s.startswith('closure:'):
            continue
        elif s.startswith('param:') and allow_params:
            continue
        else:
            bad.append(s)
    return has, bad
