"""Shared driver: apply R-PANIC to an entry set and record obligations in the report."""
import json, os, re
from rules import panic

VERIF = os.path.dirname(os.path.dirname(os.path.dirname(os.path.abspath(__file__))))
_TABLE = None


def relax_key(k):
    """site key modulo value-preserving wrappers: Try::branch(x) -> x, from_residual, payload/tuple projections of temporaries"""
    prev = None
    while prev != k:
        prev = k
        k = re.sub(r'Try::branch\(([^()]*)\)', r'\1', k)
    k = re.sub(r'\b(tmp|var)(\.\w+)+', r'\1', k)
    k = re.sub(r'(\.0)+', '.0', k)
    return k


def reviewed_table():
    global _TABLE
    if _TABLE is None:
        with open(os.path.join(VERIF, 'tables', 'reviewed_panic_sites.json')) as fh:
            _TABLE = json.load(fh)['sites']
    return _TABLE


def reach_stop(F, entries, stop=None):
    cg = F.callgraph()
    seen = set()
    st = [e.name for e in entries]
    while st:
        n = st.pop()
        if n in seen or n not in cg or (stop is not None and stop.search(n) and n not in [e.name for e in entries]):
            continue
        seen.add(n)
        st.extend(cg[n])
    return seen


def panic_clause(ctx, F, entries, rule='R-PANIC', stop=None, only_bodies=None, what=''):
    """every may-panic site in bodies reachable from `entries` must be discharged automatically
    or be listed (exact structural key) in tables/reviewed_panic_sites.json, and the reviewed
    entry's `requires` (dominating guards its argument rests on) must still hold."""
    rep = ctx.rep
    table = reviewed_table()
    if only_bodies is not None:
        names = set(only_bodies)
    else:
        names = reach_stop(F, entries, stop)
    rep.add_functions(names)
    n_sites = 0
    for name in sorted(names):
        fn = F.fns[name]
        if fn.is_promoted:
            continue
        iv = panic.Intervals(F, fn)
        prov = panic.Provenance(fn)
        for s in panic.fn_sites(F, fn):
            n_sites += 1
            reason = panic.auto_discharge(F, s, iv)
            if reason:
                rep.ok(rule, s.key, reason, s.where())
                continue
            ent = table.get(s.key)
            if ent is None:
                # entries may also describe their site by a pattern (`key_re`): the same site after a refactoring that
                # renames temporaries or re-binds operands.  At most one entry may match, and it must be in the same function
                cands = [e_ for k_, e_ in table.items() if e_.get('key_re') and re.fullmatch(e_['key_re'], s.key)]
                if len(cands) == 1:
                    ent = cands[0]
            if ent is None:
                # the same site seen through a wrapper that carries its operand unchanged (a helper returning Ok(..) and `?`,
                # one more tuple level): keys are compared after erasing Try::branch(..) and payload projections.  Only entries
                # whose argument is re-checked structurally (`requires`) may be matched this way, and only a unique one
                rk = relax_key(s.key)
                cands = [e_ for k_, e_ in table.items() if e_.get('requires') and relax_key(k_) == rk]
                if len(cands) == 1:
                    ent = cands[0]
                if ent is None:
                    # the code of a routine moved into another function (extracted elsewhere and spliced into a different
                    # caller): the same site under another function name.  Again only for entries whose argument is re-checked
                    # structurally, and only a unique match on the whole site description
                    tail = rk.split('|', 1)[1] if '|' in rk else None
                    cands = [e_ for k_, e_ in table.items() if e_.get('requires') and '|' in k_ and relax_key(k_).split('|', 1)[1] == tail]
                    if tail and len(cands) == 1:
                        ent = cands[0]
            if ent is None:
                rep.violation(rule, s.key,
                              'unreviewed may-panic site on a path that must not panic (%s); kind=%s operands=%s; dominating conditions=%s'
                              % (what, s.kind, s.desc, panic.dominating_conditions(fn, s.bid, prov)[:6]), s.where())
                continue
            missing, conds = panic.check_requires(fn, s, ent.get('requires', []), prov)
            lost = []
            if ent.get('requires_callers'):
                ncall = 0
                for g in F.real_fns():
                    gp = None
                    for cb, ct in g.calls():
                        if ct['callee'].get('resolved') != fn.name:
                            continue
                        ncall += 1
                        gp = gp or panic.Provenance(g)
                        fake = panic.Site(g, cb, 'caller', '', 0, ct, False)
                        m2, c2 = panic.check_requires(g, fake, ent['requires_callers'], gp)
                        if m2:
                            lost.append((g.key, m2, c2[:5]))
                if ncall == 0:
                    lost.append(('<no caller found>', ent['requires_callers'], []))
            if lost:
                rep.violation(rule, s.key + '|caller-guard-lost:' + lost[0][0],
                              'the precondition this reviewed site lifts to its callers is not established at a call site in %s: missing %s; present %s; reason was: %s'
                              % (lost[0][0], lost[0][1], lost[0][2], ent['reason']), s.where())
            elif missing:
                rep.violation(rule, s.key + '|guard-lost',
                              'reviewed site lost the dominating guard its argument rests on: missing %s; present %s; reviewed reason was: %s'
                              % (missing, conds[:6], ent['reason']), s.where())
            else:
                rep.reviewed(rule, s.key, ent['reason'], s.where())
    rep.call_sites += n_sites
    return names, n_sites
