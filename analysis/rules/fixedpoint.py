"""FIXED-POINT: scale bookkeeping of the `{:.N}` formatter for numbers with integer digits (C16).

format_ascii_digits_with_integer_and_fraction(D, scale, target) rewrites the ASCII digit vector D, which stands for
int(D) * 10^-scale, into the numeral with exactly `target` digits after the point.  Its edits are interpreted in order on
a symbolic state (current length Lc, current scale s of the digit content):
   round_ascii_digits(D, n, _) -> delta    n must be Lc - (scale - target), the position of the last digit kept;
                                           afterwards the content stands for int(D') * 10^-(s - delta)   (callee contract)
   D.resize(Lc + z, b'0')                  appends z zeros: s += z
   D.insert(p, b'.')                       p must be Lc - s, the number of integer digits
At the end s must equal `target` - as a linear identity modulo the path's own tests (both directions of the comparisons
it took, and round_ascii_digits' contract delta >= the digits it was asked to remove) - and the point is present exactly
when target != 0.  No byte is processed; the statement holds for every digit count, scale and precision at once."""
import re
from fractions import Fraction
from rules import table as TB, numeral as N
from rules.table import Undecided


def _is(t, k):
    return isinstance(t, tuple) and t and t[0] == k


LEN = ('len', ('param', 1))


def sub_len(l, Lc):
    out = {}
    for k, c in l.items():
        if k == LEN:
            out = N.add(out, Lc, c)
        else:
            out = N.add(out, {k: 1}, c)
    return out


def lin_v(t):
    """lin through expect/unwrap/to_usize/NonZero::new/get wrappers (value-preserving on the paths that continue)"""
    t = N.norm(t)
    while N._callp(t, r'Option::expect$|Option::unwrap$|ToPrimitive::to_usize$|ToPrimitive::to_u64$|NonZero(::<.*>)?::new$|NonZero(::<.*>)?::get$'):
        t = N.norm(t[2][0])
    l = N.lin(t)
    out = {}
    for k, c in l.items():
        if isinstance(k, tuple) and k and k[0] in ('call', 'bin', 'field', 'cast') and k != t:
            sub = lin_v(k)
            out = N.add(out, sub, c)
        else:
            out = N.add(out, {k: 1}, c)
    return out


def proves_zero(R, eqs, ges):
    if not R or N.multiple_of(R, eqs):
        return True
    neg = N.add({}, R, -1)
    def is_ge(X):
        for g in ges:
            d = N.add(X, g, -1)
            if not d or N.multiple_of(d, eqs):
                return True
            # X = g + positive constant is also >= 0 ... we need X >= 0 from g >= 0: X - g >= 0 constant
            if set(d.keys()) <= {1} and d.get(1, 0) >= 0:
                return True
        return False
    return is_ge(R) and is_ge(neg)


def check(rep, F, rule='FIXED-POINT'):
    fn = F.fns.get('impl_fmt::format_ascii_digits_with_integer_and_fraction')
    if fn is None:
        rep.violation(rule, 'format_ascii_digits_with_integer_and_fraction:missing', 'anchor function not found (fail closed)')
        return 0
    rep.add_functions([fn.name])
    try:
        pe = TB.PathEnum(F, fn, max_paths=400, cut_loops=True)
        paths = pe.run()
    except Undecided as e:
        rep.undecided(rule, fn.key + ':scale-bookkeeping', str(e), fn.where())
        return 0
    scale, target = {('param', 2): 1}, {('param', 3): 1}
    cells = {}

    def put(cell, status, why):
        rank = {'ok': 0, 'undecided': 1, 'violation': 2}
        cur = cells.get(cell)
        if cur is None or rank[status] > rank[cur[0]]:
            cells[cell] = (status, why)

    for (atoms, out), eff in zip(paths, pe.effects):
        if not N.consistent(atoms):
            continue
        if any(_is(TB.strip_refs(o_), 'panic') for o_ in [out]):
            continue
        eqs, ges, nes = [], [], []
        for i in (2, 3):
            if fn.locals[i].lstrip('&').startswith('u'):
                ges.append({('param', i): 1})          # unsigned parameter
        for a, c in atoms:
            a0 = N.norm(a)
            truth = not (c == ('eq', 0))
            if _is(a0, 'bin') and a0[1] in ('Lt', 'Le', 'Gt', 'Ge'):
                x, y = lin_v(a0[2]), lin_v(a0[3])
                op = a0[1]
                if op in ('Gt', 'Ge'):
                    x, y = y, x
                    op = 'Lt' if op == 'Gt' else 'Le'
                strict = (op == 'Lt')
                if truth:      # x < y  /  x <= y
                    ges.append(N.add(N.add(y, x, -1), {1: 1} if strict else {}, -1))
                else:          # x >= y /  x > y
                    ges.append(N.add(N.add(x, y, -1), {} if strict else {1: 1}, -1))
            elif _is(a0, 'bin') and a0[1] in ('Ne', 'Eq'):
                iseq = (a0[1] == 'Eq') == truth
                if iseq:
                    eqs.append(N.add(lin_v(a0[2]), lin_v(a0[3]), -1))
                else:
                    nes.append(N.add(lin_v(a0[2]), lin_v(a0[3]), -1))
            elif _is(a0, 'discr') and N._callp(N.norm(a0[1]), r'checked_sub$') and c[0] == 'eq':
                cs = N.norm(a0[1])
                x, y = lin_v(cs[2][0]), lin_v(cs[2][1])
                if c[1] == 1:
                    ges.append(N.add(x, y, -1))
                else:
                    ges.append(N.add(N.add(y, x, -1), {1: 1}, -1))
        # x >= 0 and -x >= 0 give x == 0; a path that also took `x != 0` is infeasible
        for g in list(ges):
            ng = N.add({}, g, -1)
            if any(not N.add(ng, h, -1) for h in ges):
                eqs.append(g)
        if any(N.multiple_of(ne, eqs) for ne in nes if ne):
            continue
        L0 = {('sym', 'len0'): 1}
        Lc = dict(L0)
        s = dict(scale)
        point = False
        rounded = False
        problems = []
        ver = 0
        for callee, args in eff:
            c = TB._plain(callee)
            if c.endswith('round_ascii_digits') and len(args) >= 2:
                n = sub_len(lin_v(args[1]), Lc)
                want = N.add(Lc, N.add(scale, target, -1), -1)
                if N.add(n, want, -1):
                    problems.append('the rounding position handed to round_ascii_digits must be len - (scale - target); it is %s' % N.show_lin(n))
                delta = lin_v(TB.T('call', callee, tuple(args)))
                s = N.add(s, delta, -1)
                ges.append(N.add(delta, N.add(scale, target, -1), -1))       # contract: at least the requested digits are removed
                ver += 1
                Lc = {('sym', 'len%d' % ver): 1}
                rounded = True
            elif c.endswith('Vec::resize') and len(args) == 3 and N.norm(args[0]) == ('param', 1):
                if N.norm(args[2]) != ('const', 48):
                    problems.append('the vector is extended with a byte other than b\'0\'')
                newlen = sub_len(lin_v(args[1]), Lc)
                z = N.add(newlen, Lc, -1)
                s = N.add(s, z)
                Lc = newlen
            elif c.endswith('Vec::insert') and len(args) == 3 and N.norm(args[0]) == ('param', 1):
                if N.norm(args[2]) != ('const', 46):
                    problems.append('a byte other than b\'.\' is inserted')
                p = sub_len(lin_v(args[1]), Lc)
                want = N.add(Lc, s, -1)
                d = N.add(p, want, -1)
                if d and not N.multiple_of(d, eqs):
                    problems.append('the point must be inserted after len - scale = %s integer digits; it is inserted at %s' % (N.show_lin(want), N.show_lin(p)))
                if point:
                    problems.append('two decimal points')
                point = True
                Lc = N.add(Lc, {1: 1})
        cell = ('rounded' if rounded else 'kept') + ('+point' if point else '')
        if problems:
            put(cell, 'violation', problems[0])
            continue
        # delta terms inside atoms refer to the same call: substitute len(arg1) consistently is not needed (opaque atoms)
        R = N.add(s, target, -1)
        if proves_zero(R, eqs, ges):
            tz = [e for e in eqs if set(e.keys()) == {('param', 3)}]
            if point and tz:
                put(cell, 'violation', 'a point is inserted although no digit is requested after it')
            elif not point and not tz:
                put(cell, 'violation', 'digits are requested after the point but no point is inserted')
            else:
                put(cell, 'ok', 'final scale of the digit content = target')
        else:
            put(cell, 'violation', 'after the edits the digits stand for 10^-(%s) but %s digits are printed after the point: residual %s' % (N.show_lin(s), 'target', N.show_lin(R)))
    n = 0
    for cell, (status, why) in sorted(cells.items()):
        n += 1
        key = '%s:scale-bookkeeping[%s]' % (fn.key, cell)
        if status == 'ok':
            rep.ok(rule, key, why, fn.where())
        elif status == 'violation':
            rep.violation(rule, key, why, fn.where())
        else:
            rep.undecided(rule, key, why, fn.where())
    return n
