"""FIXED-POINT: scale bookkeeping of the `{:.N}` formatter for numbers with integer digits (C16).

format_ascii_digits_with_integer_and_fraction(D, scale, target) rewrites the ASCII digit vector D, which stands for
int(D) * 10^-scale, into the numeral with exactly `target` digits after the point.  Its edits are interpreted in order on
a symbolic state (current length Lc, current scale s of the digit content):
   round_ascii_digits(D, n, _) -> delta    n must be Lc - (scale - target), the position of the last digit kept;
                                           afterwards the content stands for int(D') * 10^-(s - delta)   (callee contract)
   D.resize(Lc + z, b'0')                  appends z zeros: s += z
   D.insert(p, b'.')                       p must be Lc - s, the number of integer digits
At the end s must equal `target` - as a linear identity modulo the path's own tests (both directions of the comparisons
it took, and round_ascii_digits' contract delta >= the digits it was asked to remove) - and the point is present exactly
when target != 0.  No byte is processed; the statement holds for every digit count, scale and precision at once."""
import re
from fractions import Fraction
from rules import table as TB, numeral as N
from rules.table import Undecided


def _is(t, k):
    return isinstance(t, tuple) and t and t[0] == k


LEN = ('len', ('param', 1))


def sub_len(l, Lc):
    out = {}
    for k, c in l.items():
        if k == LEN:
            out = N.add(out, Lc, c)
        else:
            out = N.add(out, {k: 1}, c)
    return out


def lin_v(t):
    """lin through expect/unwrap/to_usize/NonZero::new/get wrappers (value-preserving on the paths that continue)"""
    t = N.norm(t)
    while N._callp(t, r'Option::expect$|Option::unwrap$|ToPrimitive::to_usize$|ToPrimitive::to_u64$|NonZero(::<.*>)?::new$|NonZero(::<.*>)?::get$') or \
            (N._callp(t, r'Option::and_then$') and len(t[2]) == 2 and _is(t[2][1], 'fn') and re.search(r'NonZero.*::new$', str(t[2][1][1]))):
        t = N.norm(t[2][0])
    l = N.lin(t)
    out = {}
    for k, c in l.items():
        if isinstance(k, tuple) and k and k[0] in ('call', 'bin', 'field', 'cast') and k != t:
            sub = lin_v(k)
            out = N.add(out, sub, c)
        else:
            out = N.add(out, {k: 1}, c)
    return out


def proves_zero(R, eqs, ges):
    if not R or N.multiple_of(R, eqs):
        return True
    neg = N.add({}, R, -1)
    def is_ge(X):
        for g in ges:
            d = N.add(X, g, -1)
            if not d or N.multiple_of(d, eqs):
                return True
            # X = g + positive constant is also >= 0 ... we need X >= 0 from g >= 0: X - g >= 0 constant
            if set(d.keys()) <= {1} and d.get(1, 0) >= 0:
                return True
        return False
    return is_ge(R) and is_ge(neg)


def _scale_and_target(fn):
    """the two scales of a fixed-point layout routine as linear atoms: two u64 parameters (scale, target_scale in that
    order), or the `scale` / `target_scale` fields of a small carrier struct parameter"""
    tys = fn.argtys()
    u64s = [i for i, ty in enumerate(tys, 1) if ty == 'u64']
    if len(u64s) == 2:
        return {('param', u64s[0]): 1}, {('param', u64s[1]): 1}
    carriers = [i for i, ty in enumerate(tys, 1) if not re.search(r'Vec<|NonDigitRoundingData|^u64$|^usize$|Formatter', ty)]
    if len(carriers) == 1:
        c = ('param', carriers[0])
        return {('field', c, 'scale'): 1}, {('field', c, 'target_scale'): 1}
    return {('param', 2): 1}, {('param', 3): 1}


def _unsigned_atom(fn, lin):
    """is the single atom of `lin` (a parameter, or a field of a carrier parameter) of an unsigned integer type"""
    (k, _), = lin.items()
    if k[0] == 'param':
        return fn.locals[k[1]].lstrip('&').startswith('u')
    if k[0] == 'field' and k[1][0] == 'param':
        found = []

        def walk(o):
            if isinstance(o, dict):
                if o.get('l') == k[1][1] and isinstance(o.get('p'), list) and o.get('ty'):
                    pr = [e for e in o['p'] if e != '*']
                    if len(pr) == 1 and isinstance(pr[0], dict) and pr[0].get('n') == k[2]:
                        found.append(o['ty'])
                for v in o.values():
                    walk(v)
            elif isinstance(o, list):
                for v in o:
                    walk(v)
        walk(fn.d['blocks'])
        return bool(found) and all(re.match(r'^u(8|16|32|64|128|size)$', t) for t in found)
    return False


def check(rep, F, rule='FIXED-POINT'):
    fn = F.fns.get('impl_fmt::format_ascii_digits_with_integer_and_fraction')
    if fn is None:
        rep.violation(rule, 'format_ascii_digits_with_integer_and_fraction:missing', 'anchor function not found (fail closed)')
        return 0
    rep.add_functions([fn.name])
    try:
        pe = TB.PathEnum(F, fn, max_paths=400, cut_loops=True)
        paths = pe.run()
    except Undecided as e:
        rep.undecided_anchor(rule, fn.key + ':scale-bookkeeping', str(e), fn.where())
        return 0
    scale, target = _scale_and_target(fn)
    cells = {}

    def put(cell, status, why):
        rank = {'ok': 0, 'undecided': 1, 'violation': 2}
        cur = cells.get(cell)
        if cur is None or rank[status] > rank[cur[0]]:
            cells[cell] = (status, why)

    for (atoms, out), eff in zip(paths, pe.effects):
        if not N.consistent(atoms):
            continue
        if any(_is(TB.strip_refs(o_), 'panic') for o_ in [out]):
            continue
        eqs, ges, nes = [], [], []
        for lin in (scale, target):
            if _unsigned_atom(fn, lin):
                ges.append(dict(lin))                  # unsigned parameter / unsigned field of the carrier
        for a, c in atoms:
            a0 = N.norm(a)
            truth = not (c == ('eq', 0))
            if _is(a0, 'bin') and a0[1] in ('Lt', 'Le', 'Gt', 'Ge'):
                x, y = lin_v(a0[2]), lin_v(a0[3])
                op = a0[1]
                if op in ('Gt', 'Ge'):
                    x, y = y, x
                    op = 'Lt' if op == 'Gt' else 'Le'
                strict = (op == 'Lt')
                if truth:      # x < y  /  x <= y
                    ges.append(N.add(N.add(y, x, -1), {1: 1} if strict else {}, -1))
                else:          # x >= y /  x > y
                    ges.append(N.add(N.add(x, y, -1), {} if strict else {1: 1}, -1))
            elif _is(a0, 'bin') and a0[1] in ('Ne', 'Eq'):
                iseq = (a0[1] == 'Eq') == truth
                if iseq:
                    eqs.append(N.add(lin_v(a0[2]), lin_v(a0[3]), -1))
                else:
                    nes.append(N.add(lin_v(a0[2]), lin_v(a0[3]), -1))
            elif _is(a0, 'discr') and N._callp(N.norm(a0[1]), r'checked_sub$') and c[0] == 'eq':
                cs = N.norm(a0[1])
                x, y = lin_v(cs[2][0]), lin_v(cs[2][1])
                if c[1] == 1:
                    ges.append(N.add(x, y, -1))
                else:
                    ges.append(N.add(N.add(y, x, -1), {1: 1}, -1))
        # x >= 0 and -x >= 0 give x == 0; a path that also took `x != 0` is infeasible
        for g in list(ges):
            ng = N.add({}, g, -1)
            if any(not N.add(ng, h, -1) for h in ges):
                eqs.append(g)
        if any(N.multiple_of(ne, eqs) for ne in nes if ne):
            continue
        L0 = {('sym', 'len0'): 1}
        Lc = dict(L0)
        s = dict(scale)
        point = False
        rounded = False
        problems = []
        ver = 0
        for callee, args in eff:
            c = TB._plain(callee)
            if c.endswith('round_ascii_digits') and len(args) >= 2:
                n = sub_len(lin_v(args[1]), Lc)
                want = N.add(Lc, N.add(scale, target, -1), -1)
                if N.add(n, want, -1):
                    problems.append('the rounding position handed to round_ascii_digits must be len - (scale - target); it is %s' % N.show_lin(n))
                delta = lin_v(TB.T('call', callee, tuple(args)))
                s = N.add(s, delta, -1)
                ges.append(N.add(delta, N.add(scale, target, -1), -1))       # contract: at least the requested digits are removed
                ver += 1
                Lc = {('sym', 'len%d' % ver): 1}
                rounded = True
            elif c.endswith('Vec::resize') and len(args) == 3 and N.norm(args[0]) == ('param', 1):
                if N.norm(args[2]) != ('const', 48):
                    problems.append('the vector is extended with a byte other than b\'0\'')
                newlen = sub_len(lin_v(args[1]), Lc)
                z = N.add(newlen, Lc, -1)
                s = N.add(s, z)
                Lc = newlen
            elif c.endswith('Vec::insert') and len(args) == 3 and N.norm(args[0]) == ('param', 1):
                if N.norm(args[2]) != ('const', 46):
                    problems.append('a byte other than b\'.\' is inserted')
                p = sub_len(lin_v(args[1]), Lc)
                want = N.add(Lc, s, -1)
                d = N.add(p, want, -1)
                if d and not N.multiple_of(d, eqs):
                    problems.append('the point must be inserted after len - scale = %s integer digits; it is inserted at %s' % (N.show_lin(want), N.show_lin(p)))
                if point:
                    problems.append('two decimal points')
                point = True
                Lc = N.add(Lc, {1: 1})
        cell = ('rounded' if rounded else 'kept') + ('+point' if point else '')
        if problems:
            put(cell, 'violation', problems[0])
            continue
        # delta terms inside atoms refer to the same call: substitute len(arg1) consistently is not needed (opaque atoms)
        R = N.add(s, target, -1)
        if proves_zero(R, eqs, ges):
            tz = [e for e in eqs if set(e.keys()) == set(target.keys())]
            if point and tz:
                put(cell, 'violation', 'a point is inserted although no digit is requested after it')
            elif not point and not tz:
                put(cell, 'violation', 'digits are requested after the point but no point is inserted')
            else:
                put(cell, 'ok', 'final scale of the digit content = target')
        else:
            put(cell, 'violation', 'after the edits the digits stand for 10^-(%s) but %s digits are printed after the point: residual %s' % (N.show_lin(s), 'target', N.show_lin(R)))
    n = 0
    for cell, (status, why) in sorted(cells.items()):
        n += 1
        key = '%s:scale-bookkeeping[%s]' % (fn.key, cell)
        if status == 'ok':
            rep.ok(rule, key, why, fn.where())
        elif status == 'violation':
            rep.violation(rule, key, why, fn.where())
        else:
            rep.undecided(rule, key, why, fn.where())
    return n


def check_no_integer(rep, F, rule='FIXED-POINT'):
    """format_ascii_digits_no_integer(D, scale, target): a pure fraction 0.00ddd (leading zeros = scale - len(D)).
    Rounding point inside the digits (target > leading zeros):
        round_ascii_digits keeps n = target - (scale - len) digits; the output is target + 2 bytes ("0." + target digits);
        the (rounded) digits are moved so that their last one lands at fractional position s = scale - delta:
        destination + len' - 2 == s;  byte 1 is the point.
    Rounding point at or before the first digit: the single rounded digit is the last of target + 2 bytes; the
        insignificant digit is D[0] when the point is exactly before it and 0 (with all of D as the tail) when it is
        further left."""
    fn = F.fns.get('impl_fmt::format_ascii_digits_no_integer')
    if fn is None:
        rep.violation(rule, 'format_ascii_digits_no_integer:missing', 'anchor function not found (fail closed)')
        return 0
    rep.add_functions([fn.name])
    try:
        pe = TB.PathEnum(F, fn, max_paths=600, cut_loops=True)
        paths = pe.run()
    except Undecided as e:
        rep.undecided_anchor(rule, fn.key + ':layout', str(e), fn.where())
        return 0
    scale, target = _scale_and_target(fn)
    L0 = {('sym', 'len0'): 1}
    lz = N.add(scale, L0, -1)
    cells = {}

    def put(cell, ok, good, bad):
        cur = cells.get(cell)
        if cur is None or (cur[0] and not ok):
            cells[cell] = (ok, good if ok else bad)

    def is_diff1(k):
        return _is(k, 'field') and k[2] == '1' and N._callp(N.norm(k[1]), r'arithmetic::diff$')

    def is_distance(t):
        """the distance between the rounding point and the first digit written out: +-(target - (scale - len))"""
        try:
            l = sub_len(lin_v(N.norm(t)), L0)
        except Exception:
            return False
        d = N.add(target, lz, -1)
        return bool(d) and (not N.add(l, d, -1) or not N.add(l, d, 1))

    for (atoms, out), eff in zip(paths, pe.effects):
        if not N.consistent(atoms):
            continue
        regime = None
        inter_pos = None
        nz_scale = None
        for a, c in atoms:
            a0 = N.norm(a)
            via_diff = _is(a0, 'discr') and _is(N.norm(a0[1]), 'field') and N.norm(a0[1])[2] == '0' and N._callp(N.norm(N.norm(a0[1])[1]), r'arithmetic::diff$')
            # the same three-way test written as `a.cmp(&b)` with the distance taken by plain subtraction in the arms
            via_cmp = _is(a0, 'discr') and _is(N.norm(a0[1]), 'cmp')
            if via_diff or via_cmp:
                dcall = N.norm(N.norm(a0[1])[1]) if via_diff else ('cmp', None, tuple(N.norm(a0[1])[1:3]))
                x, y = sub_len(lin_v(dcall[2][0]), L0), sub_len(lin_v(dcall[2][1]), L0)
                if N.add(x, target, -1) or N.add(y, lz, -1):
                    put('regime-test', False, '', 'the regime must be chosen by comparing target with the leading-zero count scale - len; it compares %s with %s' % (N.show_lin(x), N.show_lin(y)))
                else:
                    put('regime-test', True, 'compares target with scale - len(D)', '')
                if c[0] == 'eq':
                    regime = {255: 'Less', 0: 'Equal', 1: 'Greater'}.get(c[1])
                elif c[0] == 'notin':
                    rest = {255, 0, 1} - set(c[1])
                    regime = 'Greater' if rest == {1} else ('LessEq' if rest <= {255, 0} else None)
            if _is(a0, 'bin') and a0[1] in ('Gt', 'Ge', 'Ne', 'Eq', 'Lt', 'Le') and _is(N.norm(a0[3]), 'const') and (is_diff1(N.norm(a0[2])) or is_distance(a0[2])):
                if a0[1] == 'Gt' and N.norm(a0[3]) == ('const', 0):
                    inter_pos = not (c == ('eq', 0))
                elif a0[1] == 'Ne' and N.norm(a0[3]) == ('const', 0):
                    inter_pos = not (c == ('eq', 0))
                else:
                    put('insignificant-digit-threshold', False, '', 'the insignificant digit is 0 exactly when at least one zero lies between the rounding point and the first digit (distance > 0); the code tests %s %s' % (a0[1], TB.show(N.norm(a0[3]))))
        if regime is None:
            continue

        def L(t, Lc):
            l = sub_len(lin_v(t), Lc)
            outl = {}
            for k, cf in l.items():
                if is_diff1(k):
                    d = N.add(target, lz, -1) if regime == 'Greater' else N.add(lz, target, -1)
                    outl = N.add(outl, d, cf)
                else:
                    outl = N.add(outl, {k: 1}, cf)
            return outl

        Lc = dict(L0)
        s = dict(scale)
        ver = 0
        if regime == 'Greater':
            for callee, args in eff:
                c = TB._plain(callee)
                if c.endswith('round_ascii_digits') and len(args) >= 2:
                    n = L(args[1], Lc)
                    want = N.add(target, lz, -1)
                    put('rounding-position', not N.add(n, want, -1), 'keeps target - (scale - len) digits', 'round_ascii_digits must keep target - (scale - len) digits; it is asked to keep %s' % N.show_lin(n))
                    s = N.add(s, lin_v(TB.T('call', callee, tuple(args))), -1)
                    ver += 1
                    Lc = {('sym', 'len%d' % ver): 1}
                elif c.endswith('Vec::resize') and len(args) == 3:
                    nl = L(args[1], Lc)
                    put('output-length', not N.add(nl, N.add(target, {1: 2}), -1) and N.norm(args[2]) == ('const', 48), 'output is target + 2 bytes of b\'0\'', 'the output must be resized to target + 2 bytes of b\'0\' ("0." + target digits); resized to %s' % N.show_lin(nl))
                elif c.endswith('copy_within') and len(args) >= 3:
                    r = N.norm(args[1])
                    cnt = L(r[3][0], Lc) if _is(r, 'adt') and r[2] == 'RangeTo' else None
                    dst = L(args[2], Lc)
                    okc = cnt is not None and not N.add(cnt, Lc, -1)
                    # the last moved digit lands at byte dst + len' - 1, i.e. fractional position dst + len' - 2
                    res_ = N.add(N.add(N.add(dst, Lc), {1: 2}, -1), s, -1)
                    put('digits-destination', okc and not res_, 'the last significant digit lands at fractional position scale - removed digits', 'after the move the last significant digit must sit at fractional position scale - delta; residual %s' % N.show_lin(res_))
                elif re.search(r'IndexMut::index_mut$', c) and len(args) == 2 and N.norm(args[1]) == ('const', 1):
                    put('point-slot', True, 'byte 1 is overwritten (the point)', '')
        else:
            insig = None
            for callee, args in eff:
                c = TB._plain(callee)
                if c.endswith('from_digit_and_lazy_trailing_zeros') and len(args) == 3:
                    args = N.lazy_ctor_args(F, c, args)
                    d = N.norm(args[1])
                    clo = N.norm(args[2])
                    cap = N.norm(clo[2][0]) if _is(clo, 'closure') and clo[2] else None
                    whole = cap is not None and (cap == ('param', 1) or (N._callp(cap, r'Vec::as_slice$|Deref::deref$') and N.norm(cap[2][0]) == ('param', 1)))
                    rest = cap is not None and N._callp(cap, r'Index::index$') and N.norm(cap[2][0]) == ('param', 1) and _is(N.norm(cap[2][1]), 'adt') and N.norm(cap[2][1])[2] == 'RangeFrom' and N.norm(N.norm(cap[2][1])[3][0]) == ('const', 1)
                    if inter_pos is True:
                        put('tail[left-of-digits]', whole, 'every digit of D is below the insignificant place: the tail is all of D', 'when the rounding point lies left of the first digit every digit belongs to the tail; the tail inspected is %s' % (TB.show(cap)[:60] if cap else '?'))
                    elif inter_pos is False:
                        put('tail[at-first-digit]', rest, 'the tail is D[1..]', 'when D[0] is the insignificant digit the tail is D[1..]; the tail inspected is %s' % (TB.show(cap)[:60] if cap else '?'))
                    if inter_pos is True:
                        put('insignificant-digit[left-of-digits]', d == ('const', 0), 'rounding point further left than the first digit: insignificant digit 0', 'when the rounding point lies left of the first digit the insignificant digit is 0; found %s' % TB.show(d)[:60])
                    elif inter_pos is False:
                        ok = _is(d, 'bin') and d[1] == 'Sub' and N.norm(d[3]) == ('const', 48) and _is(N.norm(d[2]), 'index') and N.norm(N.norm(d[2])[1]) == ('param', 1) and len(N.norm(d[2])) == 3 and N.norm(N.norm(d[2])[2]) == ('const', 0)
                        ok = ok or (N._callp(N.norm(d[2]) if _is(d, 'bin') else None, r'Index::index$') and N.norm(N.norm(d[2])[2][1]) == ('const', 0))
                        put('insignificant-digit[at-first-digit]', bool(ok), 'rounding point just before the first digit: insignificant digit D[0] - b\'0\'', 'when the rounding point is just before the first digit the insignificant digit is D[0] - b\'0\'; found %s' % TB.show(d)[:60])
                elif c.endswith('Vec::resize') and len(args) == 3:
                    nl = sub_len(lin_v(args[1]), {})
                    put('output-length[left]', not N.add(nl, N.add(target, {1: 1}), -1) and N.norm(args[2]) == ('const', 48), 'target + 1 zeros, then the rounded digit: target + 2 bytes', 'before the rounded digit is pushed the buffer must hold target + 1 zeros; it holds %s' % N.show_lin(nl))
                elif c.endswith('Vec::push') and len(args) == 2:
                    v = N.norm(args[1])
                    put('rounded-digit-last', _is(v, 'bin') and v[1] == 'Add' and ((N.norm(v[3]) == ('const', 48) and N._callp(N.norm(v[2]), r'round_digit$')) or (N.norm(v[2]) == ('const', 48) and N._callp(N.norm(v[3]), r'round_digit$'))), 'the rounded digit is the last byte', 'the rounded digit (plus b\'0\') must be pushed as the last byte')
    n = 0
    for cell, (ok, why) in sorted(cells.items()):
        n += 1
        key = '%s:layout[%s]' % (fn.key, cell)
        if ok:
            rep.ok(rule, key, why, fn.where())
        else:
            rep.violation(rule, key, why, fn.where())
    return n
