"""LIMB-MOD: one machine-word limb of a big integer taken modulo m stands for the whole integer modulo m only when m
divides the limb base (2^32 / 2^64).  `x.iter_u64_digits().next() % 10` (or `to_u32_digits()[0] % 5`, ...) therefore says
nothing about the last decimal digit of a multi-word integer (2^64 = 6 mod 10).  The rule is a mathematical fact, not a
heuristic: a remainder by a constant with an odd factor, applied to a value that is a single limb of a BigInt/BigUint,
and used without the integer having been shown to fit one limb, is reported.

Forward taint over MIR: limb sources = results of iter_u32_digits/iter_u64_digits(..).next()/last()/nth(), indexing or
first()/last() of to_u32_digits/to_u64_digits; propagated through copies, casts, Option payload reads, unwrap*/map_or."""
import re
from facts import cdef as _cdef, cres, op_local


def cdef(t):
    s0 = _cdef(t) or ''
    prev = None
    while prev != s0:
        prev = s0
        s0 = re.sub(r'<[^<>]*>', '', s0)
    return re.sub(r':{3,}', '::', s0)

SRC_ITER = re.compile(r'iter_u(32|64)_digits$')
SRC_VEC = re.compile(r'to_u(32|64)_digits$')
STEP = re.compile(r'Iterator::(next|last|nth)$|DoubleEndedIterator::next_back$|slice::<impl \[T\]>::(first|last|get)$|Index::index$')
PASS = re.compile(r'Option::(unwrap|unwrap_or|unwrap_or_default|expect|copied|cloned|map_or|unwrap_or_else)$|clone::Clone::clone$|convert::(From::from|Into::into)$|Deref::deref$')
SINGLE = re.compile(r'::bits$|ToPrimitive::to_u(32|64|128)$|ToPrimitive::to_i(64|128)$|::len$|Iterator::count$')


def analyse(fn, F=None, tainted_params=()):
    iters, limbs = set(), set(tainted_params)
    sub_finds = []
    changed = True
    guard = any(SINGLE.search(cdef(t) or '') for b, t in fn.calls())
    while changed:
        changed = False
        for bid, t in fn.calls():
            d = cdef(t) or ''
            if not t.get('dest') or t['dest']['p']:
                continue
            dl = t['dest']['l']
            a0 = op_local(t['args'][0]) if t['args'] else None
            new = None
            if SRC_ITER.search(d) or SRC_VEC.search(d):
                new = ('it', dl)
            elif STEP.search(d) and a0 in iters:
                new = ('limb', dl)
            elif PASS.search(d) and a0 in limbs:
                new = ('limb', dl)
            elif re.search(r'Iterator::(rev|by_ref|peekable|skip|take)$|IntoIterator::into_iter$|Vec::as_slice$|slice::iter$', d) and a0 in iters:
                new = ('it', dl)
            if new:
                tgt = iters if new[0] == 'it' else limbs
                if dl not in tgt:
                    tgt.add(dl)
                    changed = True
        for bid, st in fn.stmts():
            rv = st['rv']
            if st['lhs']['p']:
                continue
            l = st['lhs']['l']
            src = None
            if rv['r'] in ('use', 'cast') and rv['op'].get('k') in ('copy', 'move'):
                src = rv['op']['pl']['l']
            elif rv['r'] == 'ref':
                src = rv['pl']['l']
            if src is not None:
                if src in iters and l not in iters:
                    iters.add(l)
                    changed = True
                if src in limbs and l not in limbs:
                    limbs.add(l)
                    changed = True
    # an Option<limb> handed to a combinator with a closure: the closure's argument is the limb
    if F is not None:
        for bid, t in fn.calls():
            d = cdef(t) or ''
            if re.search(r'Option::(map|map_or|map_or_else|is_some_and|and_then|filter|is_none_or)$', d) and t['args'] and op_local(t['args'][0]) in limbs:
                for a in t['args'][1:]:
                    l = op_local(a)
                    if l is None:
                        continue
                    for b2, st in fn.stmts():
                        if st['lhs']['l'] == l and not st['lhs']['p'] and st['rv']['r'] == 'agg' and st['rv']['kind'].get('a') == 'closure':
                            cf = F.fns.get(st['rv']['kind'].get('def', ''))
                            if cf is not None:
                                f2, g2, h2 = analyse(cf, F, tainted_params=(2,))
                                sub_finds += f2
    finds = list(sub_finds)
    for bid, st in fn.stmts():
        rv = st['rv']
        if rv['r'] == 'bin' and rv['bop'] == 'Rem':
            a, b = rv['a'], rv['b']
            if a.get('k') in ('copy', 'move') and a['pl']['l'] in limbs and b.get('k') == 'const' and 'int' in b:
                m = int(b['int'])
                if m > 1 and (m & (m - 1)) != 0:
                    finds.append((st['line'], m))
    return finds, guard, bool(iters) or bool(tainted_params)


def check(rep, F, names, rule='LIMB-MOD'):
    n = 0
    for nme in sorted(names):
        fn = F.fns[nme]
        if fn.is_closure:
            continue
        finds, guard, has = analyse(fn, F)
        if not has:
            continue
        n += 1
        key = fn.key + ':limb-modulus'
        if finds and not guard:
            line, m = finds[0]
            rep.violation(rule, key, 'a single machine-word limb of a big integer is reduced modulo %d: that equals the integer modulo %d only if %d divided 2^64 (2^64 mod 10 = 6), so for multi-word integers the test says nothing about the decimal digits' % (m, m, m), fn.where(line))
        elif finds:
            rep.undecided(rule, key, 'limb modulo %d in a function that also measures the integer (bits/len/to_u64): not decided' % finds[0][1], fn.where(finds[0][0]))
        else:
            rep.ok(rule, key, 'limbs are read but never reduced modulo a number with an odd factor', fn.where())
    return n
