"""R-GUARD: a zero divisor must never reach `Return` (must-pass-through a panic).

For every Div/DivAssign/Rem/RemAssign impl function F whose divisor (2nd argument) is a
primitive integer, BigInt, BigDecimal, &BigDecimal or BigDecimalRef: no CFG path from entry
to Return exists on which the divisor may still be zero.  Abstract domain {MaybeZero, NonZero}
for the divisor; refinement on value tests of zero-preserving images of the divisor; guard
events are calls that are known to panic on a zero divisor (other GUARDED crate functions --
greatest fixed point over the call graph, sound for partial correctness by induction on call
depth -- and num-bigint / primitive division).
"""
import re
from facts import cdef, cres, ctrait, op_local, fmt_op, FLOAT_RE
from dataflow import Defs, must_images, src_place_of_stmt, IDENT_CALLS

FAMILY = ('std::ops::Div', 'std::ops::DivAssign', 'std::ops::Rem', 'std::ops::RemAssign')
FLOAT_TY = re.compile(r'^&?(f32|f64)$')

# v zero => result zero (argument 0 is the image)
ZP_CALLS = re.compile(
    r'convert::From::from$|convert::Into::into$|convert::TryFrom::try_from$|convert::TryInto::try_into$'
    r'|BigDecimal::to_ref$|BigDecimalRef::to_owned$|borrow::ToOwned::to_owned$'
    r'|ops::Neg::neg$|BigInt::magnitude$|BigInt::into_parts$|Signed::abs$|BigDecimal::abs$|BigDecimalRef::abs$'
    r'|Result::<[^>]*>::unwrap$|Result::<[^>]*>::expect$|Option::<[^>]*>::unwrap$|Option::<[^>]*>::expect$'
    r'|BigDecimal::take_and_scale$|BigDecimal::with_scale$|BigDecimalRef::to_owned_with_scale$|BigDecimal::normalized$'
    r'|::checked_neg$|::checked_abs$|::wrapping_neg$|::unsigned_abs$')
ZP_FIELDS = ('int_val', 'digits')
IS_ZERO = re.compile(r'Zero::is_zero$|BigDecimalRef::is_zero$|BigDecimal::is_zero$')
IS_ONE = re.compile(r'One::is_one$|BigDecimal::is_one_quickcheck$')
# external operations that panic on a zero divisor (num-bigint / num-integer contracts); divisor = argument 1
EXT_DIV_TRAITS = ('std::ops::Div', 'std::ops::Rem', 'std::ops::DivAssign', 'std::ops::RemAssign')
EXT_DIV_FNS = re.compile(r'Integer::div_rem$|Integer::div_floor$|Integer::mod_floor$|Integer::div_mod_floor$|::div_euclid$|::rem_euclid$')


def strip_args(s):
    prev = None
    while prev != s:
        prev = s
        s = re.sub(r'<[^<>]*>', '', s)
    return re.sub(r':{3,}', '::', s)


class GuardAnalysis:
    def __init__(self, F, fn):
        self.F = F
        self.fn = fn
        self.defs = Defs(fn)
        self._images()
        self._tests()

    # ---- images of the divisor
    def _images(self):
        fn = self.fn

        def ident_step(d, imgs):
            if d[0] == 'assign':
                pl = src_place_of_stmt(d[2])
                return pl is not None and pl['l'] in imgs and all(p == '*' for p in pl['p'])
            if d[0] == 'call':
                t = d[2]
                a0 = t['args'][0] if t['args'] else None
                return bool(IDENT_CALLS.search(cdef(t))) and a0 is not None and a0['k'] in ('copy', 'move') \
                    and a0['pl']['l'] in imgs and all(p == '*' for p in a0['pl']['p'])
            return False

        self.ident = must_images(fn, {2}, ident_step, self.defs)

        def zp_step(d, imgs):
            if ident_step(d, imgs):
                return True
            if d[0] == 'assign':
                st = d[2]
                rv = st['rv']
                pl = src_place_of_stmt(st)
                if pl is not None and pl['l'] in imgs:
                    return all(p == '*' or (isinstance(p, dict) and p.get('n') in ZP_FIELDS) for p in pl['p'])
                if rv['r'] == 'cast' and rv['op']['k'] in ('copy', 'move') and rv['op']['pl']['l'] in imgs and not fields(rv['op']['pl']):
                    # integer widening/int-to-int casts preserve zero
                    return rv['kind'].startswith('IntToInt')
                if rv['r'] == 'agg' and rv['kind'].get('a') == 'adt' and str(rv['kind'].get('adt', '')).endswith('Cow') and rv['ops']:
                    return all(op_in(o, imgs, ZP_FIELDS) for o in rv['ops'])      # Cow::Borrowed(x) / Cow::Owned(x): zero iff x is
                if rv['r'] == 'un' and rv['uop'] == 'Neg':
                    return op_in(rv['a'], imgs)
                if rv['r'] == 'bin' and rv['bop'].startswith('Mul'):
                    return op_in(rv['a'], imgs) or op_in(rv['b'], imgs)
                return False
            if d[0] == 'call':
                t = d[2]
                dd = cdef(t)
                args = t['args']
                if not args:
                    return False
                if ZP_CALLS.search(strip_args(dd)) or ZP_CALLS.search(strip_args(cres(t))):
                    return op_in(args[0], imgs, ZP_FIELDS)
                if re.search(r'ops::Mul::mul$', dd):
                    return any(op_in(a, imgs, ZP_FIELDS) for a in args)
            return False

        def fields(pl):
            return [p for p in pl['p'] if p != '*']

        def op_in(o, imgs, okfields=()):
            if o['k'] not in ('copy', 'move'):
                return False
            pl = o['pl']
            return pl['l'] in imgs and all(p == '*' or (isinstance(p, dict) and p.get('n') in okfields) for p in pl['p'])

        self.op_in = op_in
        self.zp = must_images(fn, {2}, zp_step, self.defs)
        # a divisor that is mutably borrowed could be overwritten: drop (fail closed)
        if 2 in self.defs.mut_borrowed:
            self.ident = set()
            self.zp = set()

    # ---- value tests on images
    def _closure_eq_const(self, t):
        """for Option::is_some_and(opt, closure): the closure body is `n == c`; returns c or None"""
        for a in t['args'][1:]:
            l = op_local(a)
            if l is None:
                continue
            for d in self.defs.defs.get(l, []):
                if d[0] == 'assign' and d[2]['rv']['r'] == 'agg' and d[2]['rv']['kind'].get('a') == 'closure':
                    cname = d[2]['rv']['kind']['def']
                    cf = self.F.fns.get(cname)
                    if cf is None or cf.has_loop():
                        return None
                    consts = []
                    for _, st in cf.stmts():
                        rv = st['rv']
                        if rv['r'] == 'bin' and rv['bop'] == 'Eq' and st['lhs']['l'] == 0 and not st['lhs']['p']:
                            for x in (rv['a'], rv['b']):
                                if x['k'] == 'const' and 'int' in x:
                                    consts.append(int(x['int']))
                    if len(consts) == 1 and len(cf.live_blocks()) == 1:
                        return consts[0]
        return None

    def _tests(self):
        """tests[local] = 'Z' (true iff image is zero) | 'NZ_TRUE' (true implies divisor non-zero)
           | 'NZ_FALSE' (false implies divisor non-zero; i.e. negation of a Z... kept explicit)"""
        fn = self.fn
        tests = {}
        cneg = {}
        for bid, t in fn.calls():
            dd = strip_args(cdef(t))
            dest = op_local({'k': 'copy', 'pl': t['dest']})
            if dest is None or not t['args']:
                continue
            a0 = t['args'][0]
            if IS_ZERO.search(dd) or IS_ZERO.search(strip_args(cres(t))):
                if self.op_in(a0, self.zp, ZP_FIELDS):
                    tests[dest] = 'Z'
            elif IS_ONE.search(dd):
                if self.op_in(a0, self.zp, ZP_FIELDS):
                    tests[dest] = 'NZ_TRUE'
            elif re.search(r'Option::is_some_and$', dd):
                # Option<T> image: checked_neg of an image is in zp through ZP_CALLS
                if self.op_in(a0, self.zp):
                    c = self._closure_eq_const(t)
                    if c is not None and c != 0:
                        tests[dest] = 'NZ_TRUE'
            elif re.search(r'cmp::PartialEq::eq$|cmp::PartialEq::ne$', dd) and len(t['args']) == 2:
                other = t['args'][1]
                c = None
                hops = 0
                while other['k'] in ('copy', 'move') and not other['pl']['p'] and hops < 4:
                    # a reference to a promoted constant bound to a local first
                    hops += 1
                    ds_ = self.defs.defs.get(other['pl']['l'], [])
                    if len(ds_) == 1 and ds_[0][0] == 'assign' and ds_[0][2]['rv']['r'] == 'use':
                        other = ds_[0][2]['rv']['op']
                    elif len(ds_) == 1 and ds_[0][0] == 'assign' and ds_[0][2]['rv']['r'] == 'ref' and all(p_ == '*' for p_ in ds_[0][2]['rv']['pl']['p']):
                        other = {'k': 'copy', 'pl': {'l': ds_[0][2]['rv']['pl']['l'], 'p': [], 'ty': ''}}
                    else:
                        break
                if other['k'] == 'const' and 'promoted' in other:
                    pv = self.F.promoted_value(fn, other['promoted'])
                    if pv and pv[0] == 'int':
                        c = pv[1]
                    elif pv and pv[0] == 'some-int' and pv[1] != 0:
                        c = pv[1]        # Option image (checked_neg / checked_abs of the divisor) == Some(c), c != 0
                if c is not None and self.op_in(a0, self.zp, ZP_FIELDS):
                    eq = dd.endswith('eq')
                    if c == 0:
                        tests[dest] = 'Z' if eq else 'NZ_TRUE'
                    elif eq:
                        tests[dest] = 'NZ_TRUE'
        for bid, st in fn.stmts():
            rv = st['rv']
            l = st['lhs']['l']
            if st['lhs']['p']:
                continue
            if rv['r'] == 'bin' and rv['bop'] in ('Eq', 'Ne'):
                for x, y in ((rv['a'], rv['b']), (rv['b'], rv['a'])):
                    if self.op_in(x, self.zp) and y['k'] == 'const' and 'int' in y:
                        c = int(y['int'])
                        eq = rv['bop'] == 'Eq'
                        if c == 0:
                            tests[l] = 'Z' if eq else 'NZ_TRUE'
                        elif eq:
                            tests[l] = 'NZ_TRUE'
            if rv['r'] == 'bin' and rv['bop'] in ('Gt', 'Lt', 'Ne') and False:
                pass
        # propagate through copies and Not; only single-definition locals count
        changed = True
        while changed:
            changed = False
            for bid, st in fn.stmts():
                l = st['lhs']['l']
                if st['lhs']['p'] or l in tests:
                    continue
                rv = st['rv']
                if rv['r'] == 'use':
                    s = op_local(rv['op'])
                    if s in tests:
                        tests[l] = tests[s]
                        changed = True
                elif rv['r'] == 'un' and rv['uop'] == 'Not':
                    s = op_local(rv['a'])
                    if s in tests:
                        tests[l] = {'Z': 'NZ_TRUE_OF_NOTZ', 'NZ_TRUE': 'NZ_FALSE', 'NZ_FALSE': 'NZ_TRUE', 'NZ_TRUE_OF_NOTZ': 'Z'}[tests[s]]
                        changed = True
        self.tests = {l: k for l, k in tests.items() if len(self.defs.defs.get(l, [])) == 1 and not self.defs.partial.get(l)}

    # ---- the search
    def is_guard_call(self, t, guarded, assume_family=False):
        """does this call panic whenever our divisor is zero?"""
        args = t['args']
        if len(args) < 2:
            return False
        if not self.op_in(args[1], self.zp, ZP_FIELDS):
            return False
        c = t['callee']
        if 'def' not in c:
            return False
        res = c.get('resolved') or ''
        if res in self.F.fns:
            g = self.F.fns[res]
            if res in guarded:
                return True
            if assume_family and g.trait in FAMILY:
                return True
            return False
        # external
        tr = c.get('trait', '')
        krate = c.get('krate', '')
        if tr in EXT_DIV_TRAITS and (res.startswith('num_bigint') or krate == 'num_bigint' or 'num_bigint' in c.get('static', '')):
            return True
        if EXT_DIV_FNS.search(c['def']):
            return True
        return False

    def search(self, guarded, assume_family=False):
        """returns None if no Return is reachable with a possibly-zero divisor, else a witness path"""
        fn = self.fn
        seen = set()
        stack = [(0, False, (0,))]
        while stack:
            bid, nz, path = stack.pop()
            if (bid, nz) in seen:
                continue
            seen.add((bid, nz))
            b = fn.blocks[bid]
            if b['cleanup']:
                continue
            t = b['term']
            k = t['t']
            if k == 'return':
                if not nz:
                    return list(path)
                continue
            if k == 'switch':
                on = t['on']
                l = op_local(on)
                kind = self.tests.get(l) if l is not None else None
                if kind is None and self.op_in(on, self.ident):
                    kind = 'VALUE'
                for v, tgt in t['targets']:
                    n2 = nz
                    if kind == 'Z' and v == '0':
                        n2 = True
                    elif kind == 'NZ_FALSE' and v == '0':
                        n2 = True
                    elif kind == 'VALUE' and v != '0':
                        n2 = True
                    stack.append((tgt, n2, path + (tgt,)))
                n2 = nz
                vals = [v for v, _ in t['targets']]
                if kind in ('NZ_TRUE', 'NZ_TRUE_OF_NOTZ') and vals == ['0']:
                    n2 = True
                elif kind == 'VALUE' and '0' in vals:
                    n2 = True
                stack.append((t['otherwise'], n2, path + (t['otherwise'],)))
                continue
            if k == 'assert':
                n2 = nz
                if t['kind'] in ('DivisionByZero', 'RemainderByZero') and t['ops'] and self.op_in(t['ops'][0], self.zp):
                    n2 = True
                stack.append((t['to'], n2, path + (t['to'],)))
                continue
            if k == 'call':
                n2 = nz
                if not nz and self.is_guard_call(t, guarded, assume_family):
                    n2 = True
                if t['to'] is not None:
                    stack.append((t['to'], n2, path + (t['to'],)))
                continue
            for s in fn.succ(bid):
                stack.append((s, nz, path + (s,)))
        return None

    def describe(self, path):
        """structural description of the witness path: decisive calls in order"""
        fn = self.fn
        out = []
        for i, bid in enumerate(path):
            t = fn.blocks[bid]['term']
            if t['t'] == 'call' and 'def' in t['callee']:
                nm = strip_args(cres(t)).split('::')
                nm = '::'.join(nm[-2:]) if len(nm) > 1 else nm[0]
                if re.search(r'clone|from$|into$|deref|drop', nm):
                    continue
                out.append(nm)
        return out


def instances(F):
    out = []
    for f in F.real_fns():
        if f.is_closure or f.trait not in FAMILY or f.argc < 2:
            continue
        out.append(f)
    return sorted(out, key=lambda f: f.name)


def run(F):
    """returns dict: guarded(set), results list of (fn, status, detail) with status in
    GUARDED / ROOT / DEPENDENT / FLOAT"""
    insts = instances(F)
    floats = [f for f in insts if FLOAT_TY.match(f.ty(2))]
    todo = [f for f in insts if not FLOAT_TY.match(f.ty(2))]
    ana = {f.name: GuardAnalysis(F, f) for f in todo}
    guarded = set(ana)
    changed = True
    while changed:
        changed = False
        for n in sorted(guarded):
            if ana[n].search(guarded - {None}) is not None:
                guarded.discard(n)
                changed = True
    results = []
    for f in todo:
        a = ana[f.name]
        if f.name in guarded:
            results.append((f, 'GUARDED', ''))
            continue
        w = a.search(guarded, assume_family=True)
        if w is None:
            p = a.search(guarded)
            results.append((f, 'DEPENDENT', ' -> '.join(a.describe(p))))
        else:
            results.append((f, 'ROOT', ' -> '.join(a.describe(w)) + ' -> return'))
    for f in floats:
        results.append((f, 'FLOAT', 'float divisor: outside the property'))
    return results
