"""R-SCALE: scale-dimension typing of the arithmetic kernels and forwarders.

A value is int_val * 10^-scale.  `scale` is treated as a dimension (units-of-measure): every
big-integer place carries (real value as a polynomial over the operand values, dimension as a
scale term).  +,-,% demand provably equal dimensions; * adds them; multiplying by ten_to_the(k)
adds k to the dimension and raises the direction obligation k >= 0; rescale primitives must be
called upward.  The returned (or, for *Assign, the final *self) value must equal the
specification a (op) b as a polynomial normal form after substituting the path's value facts
(is_zero -> 0, is_one -> 1, == c -> c).  Forward, flow-sensitive dataflow over loop-free MIR;
no machine values, no solver: the only reasoning is transitivity over scale orderings.
"""
import re, collections, copy
from fractions import Fraction

# polynomials: dict monomial(tuple sorted (sym,exp)) -> Fraction
def P(c=0):
    return {():Fraction(c)} if c else {}
def sym(s): return {((s,1),):Fraction(1)}
def padd(p,q,sign=1):
    r=dict(p)
    for m,c in q.items():
        r[m]=r.get(m,0)+sign*c
        if r[m]==0: del r[m]
    return r
def pmul(p,q):
    r={}
    for m1,c1 in p.items():
        for m2,c2 in q.items():
            d=collections.Counter(dict(m1)); 
            for s,e in m2: d[s]+=e
            m=tuple(sorted(d.items()))
            r[m]=r.get(m,0)+c1*c2
            if r[m]==0: del r[m]
    return r
def psub_sym(p,s,val):
    r={}
    for m,c in p.items():
        d=dict(m); e=d.pop(s,0)
        c2=c*(Fraction(val)**e)
        m2=tuple(sorted(d.items()))
        r[m2]=r.get(m2,0)+c2
        if r[m2]==0: del r[m2]
    return r
def psub_poly(p,s,q):
    """substitute the polynomial q for the symbol s in p"""
    r={}
    for m,c in p.items():
        d=dict(m); e=d.pop(s,0)
        term={tuple(sorted(d.items())):c}
        for _ in range(e): term=pmul(term,q)
        r=padd(r,term)
    return r
def pshow(p):
    if not p: return '0'
    return ' + '.join('%s%s'%(c if c!=1 or not m else '', '*'.join('%s^%d'%(s,e) if e>1 else s for s,e in m)) for m,c in sorted(p.items()))


def show(t):
    if isinstance(t,tuple):
        if t[0]=='sc': return 'σ(%s)'%t[1]
        if t[0]=='int': return str(t[1])
        if t[0]=='par': return 'arg%d'%t[1]
        if t[0]=='mulc': return '%s*%s'%(t[2],show(t[1]))
        if t[0]=='ncast': return 'as_u%d(%s)'%(t[2],show(t[1]))
        return '%s(%s)'%(t[0],','.join(show(x) for x in t[1:]))
    return str(t)
def prove_le(facts, a, b):
    """prove a <= b"""
    if a==b: return True
    if isinstance(a,tuple) and a and a[0]=='ncast':
        if isinstance(b,tuple) and b and b[0]=='int' and b[1]>=(1<<a[2])-1: return True
        if nonneg(facts,a[1]) and prove_le(facts,a[1],('int',(1<<a[2])-1)) and prove_le(facts,a[1],b): return True
    if a==('int',0) and nonneg0(facts,b): return True
    # structural
    if isinstance(b,tuple) and b[0]=='max' and (prove_le(facts,a,b[1]) or prove_le(facts,a,b[2])): return True
    if isinstance(a,tuple) and a[0]=='min' and (prove_le(facts,a[1],b) or prove_le(facts,a[2],b)): return True
    if isinstance(a,tuple) and a[0]=='max' and prove_le(facts,a[1],b) and prove_le(facts,a[2],b): return True
    if isinstance(b,tuple) and b[0]=='min' and prove_le(facts,a,b[1]) and prove_le(facts,a,b[2]): return True
    if isinstance(b,tuple) and b[0]=='add':
        # a <= x + d if a<=x and 0<=d
        if prove_le(facts,a,b[1]) and nonneg(facts,b[2]): return True
        if prove_le(facts,a,b[2]) and nonneg(facts,b[1]): return True
    if isinstance(a,tuple) and a[0]=='int' and isinstance(b,tuple) and b[0]=='int': return a[1]<=b[1]
    # facts closure (simple BFS over le/lt/eq edges)
    edges=collections.defaultdict(set)
    for f in facts:
        if f[0] in('lt','le'): edges[f[1]].add(f[2])
        if f[0]=='lt' and isinstance(f[2],tuple) and f[2] and f[2][0]=='int': edges[f[1]].add(('int',f[2][1]-1))   # integers: x < c  =>  x <= c-1
        elif f[0]=='eq': edges[f[1]].add(f[2]); edges[f[2]].add(f[1])
    seen={a}; st=[a]
    while st:
        x=st.pop()
        for y in edges.get(x,()):
            if y==b: return True
            if isinstance(y,tuple) and isinstance(b,tuple) and y and b and y[0]=='int' and b[0]=='int' and y[1]<=b[1]: return True
            if y not in seen: seen.add(y); st.append(y)
    return False
def nonneg0(facts,t):
    if isinstance(t,tuple):
        if t[0]=='int': return t[1]>=0
        if t[0]=='max': return nonneg0(facts,t[1]) or nonneg0(facts,t[2])
        if t[0]=='min': return nonneg0(facts,t[1]) and nonneg0(facts,t[2])
        if t[0]=='sub': return prove_le(facts,t[2],t[1])
        if t[0]=='absdiff': return True
        if t[0]=='cast': return nonneg0(facts,t[1])
        if t[0]=='ncast': return True
        if t[0]=='satsub': return len(t)>3 and t[3]=='u'      # only the unsigned saturating_sub is bounded below by 0
        if t[0]=='add': return nonneg0(facts,t[1]) and nonneg0(facts,t[2])
    return False
def nonneg(facts,t):
    if isinstance(t,tuple):
        if t[0]=='int': return t[1]>=0
        if t[0]=='max': return nonneg(facts,t[1]) or nonneg(facts,t[2])
        if t[0]=='min': return nonneg(facts,t[1]) and nonneg(facts,t[2])
        if t[0]=='sub': return prove_le(facts,t[2],t[1])
        if t[0]=='absdiff': return True
        if t[0]=='cast': return nonneg(facts,t[1])
        if t[0]=='ncast': return True
    return prove_le(facts,('int',0),t)



class U:
    def __repr__(self): return '?'
UNK=U()
def red(p):
    # reduce sign symbols: s^2 = 1
    r={}
    for m,c in p.items():
        m2=tuple(sorted((s,(e%2 if s.startswith('s') else e)) for s,e in m if not (s.startswith('s') and e%2==0)))
        r[m2]=r.get(m2,0)+c
        if r[m2]==0: del r[m2]
    return r
class IntV:
    def __init__(s,val,dim): s.val=val; s.dim=dim
    def __repr__(s): return 'Int<%s @%s>'%(pshow(s.val) if isinstance(s.val,dict) else s.val, show(s.dim))
class Rec:
    def __init__(s,scale,ival=None,val=None,sign=None,tag=''):
        s.scale=scale; s.ival=ival; s.val=val; s.sign=sign; s.tag=tag
    def __repr__(s): return 'Rec<%s scale=%s ival=%s val=%s>'%(s.tag,show(s.scale),s.ival,pshow(s.val) if isinstance(s.val,dict) else s.val)
TERM0=('int',0)
INT_BITS={'u8':8,'u16':16,'u32':32,'u64':64,'u128':128,'usize':64,'i8':8,'i16':16,'i32':32,'i64':64,'i128':128,'isize':64}
def isterm(v): return isinstance(v,tuple) and v and v[0] in('sc','int','par','max','min','add','sub','satsub','cast','absdiff','unk','mulc','ncast')
def lin(t,facts):
    # -> dict atom->coef (const under key 1)
    if t[0]=='int': return {1:t[1]} if t[1] else {}
    if t[0]=='add':
        a=lin(t[1],facts); b=lin(t[2],facts); r=dict(a)
        for k,v in b.items():
            r[k]=r.get(k,0)+v
            if r[k]==0: del r[k]
        return r
    if t[0]=='sub':
        a=lin(t[1],facts); b=lin(t[2],facts); r=dict(a)
        for k,v in b.items():
            r[k]=r.get(k,0)-v
            if r[k]==0: del r[k]
        return r
    if t[0]=='cast': return lin(t[1],facts)
    if t[0]=='mulc': return {k:v*t[2] for k,v in lin(t[1],facts).items()}
    if t[0]=='ncast':
        if nonneg(facts,t[1]) and prove_le(facts,t[1],('int',(1<<t[2])-1)): return lin(t[1],facts)
        return {t:1}
    if t[0]=='absdiff':
        if prove_le(facts,t[2],t[1]): return lin(('sub',t[1],t[2]),facts)
        if prove_le(facts,t[1],t[2]): return lin(('sub',t[2],t[1]),facts)
    if t[0]=='max':
        if prove_le(facts,t[1],t[2]): return lin(t[2],facts)
        if prove_le(facts,t[2],t[1]): return lin(t[1],facts)
    # canonicalize atom via eq facts
    rep=t
    for f in facts:
        if f[0]=='eq':
            if f[1]==rep and repr(f[2])<repr(rep): rep=f[2]
            elif f[2]==rep and repr(f[1])<repr(rep): rep=f[1]
    if rep!=t: return lin(rep,facts)
    return {t:1}
def in_span(d,vecs):
    """is the linear form d a rational combination of the forms in vecs (all known to be zero)?"""
    keys=sorted(set(d)|set().union(*[set(v) for v in vecs]),key=repr)
    rows=[[v.get(k,Fraction(0)) for k in keys] for v in vecs]
    tgt=[d.get(k,Fraction(0)) for k in keys]
    # gaussian elimination on rows; reduce tgt along the way
    piv=0
    for c in range(len(keys)):
        pr=None
        for r in range(piv,len(rows)):
            if rows[r][c]!=0: pr=r; break
        if pr is None: continue
        rows[piv],rows[pr]=rows[pr],rows[piv]
        pv=rows[piv][c]
        rows[piv]=[x/pv for x in rows[piv]]
        for r in range(len(rows)):
            if r!=piv and rows[r][c]!=0:
                f=rows[r][c]; rows[r]=[x-f*y for x,y in zip(rows[r],rows[piv])]
        if tgt[c]!=0:
            f=tgt[c]; tgt=[x-f*y for x,y in zip(tgt,rows[piv])]
        piv+=1
        if piv==len(rows): break
    return all(x==0 for x in tgt)
def atom_bounds(facts):
    """lower/upper integer bounds of atoms read off le/lt/eq facts against integer constants"""
    lo={}; hi={}
    def isint(t): return isinstance(t,tuple) and t and t[0]=='int'
    for f in facts:
        if f[0] not in('le','lt','eq'): continue
        a,b=f[1],f[2]
        strict=1 if f[0]=='lt' else 0
        if isint(a) and not isint(b):
            lo[b]=max(lo.get(b,a[1]+strict),a[1]+strict)
            if f[0]=='eq': hi[b]=min(hi.get(b,a[1]),a[1])
        elif isint(b) and not isint(a):
            hi[a]=min(hi.get(a,b[1]-strict),b[1]-strict)
            if f[0]=='eq': lo[a]=max(lo.get(a,b[1]),b[1])
    return lo,hi
def lin_range(t,facts):
    """(lower, upper) of a term from atom bounds; None = unbounded"""
    try: l=lin(t,facts)
    except Exception: return (None,None)
    lo,hi=atom_bounds(facts)
    L=Fraction(0); U=Fraction(0)
    for k,c in l.items():
        if k==1:
            L=None if L is None else L+c
            U=None if U is None else U+c
            continue
        klo=lo.get(k); khi=hi.get(k)
        if klo is None and isinstance(k,tuple) and k and (k[0] in('absdiff','ncast') or (k[0]=='satsub' and len(k)>3 and k[3]=='u')): klo=0
        if klo is None and isinstance(k,tuple) and k and k[0]=='unk' and isinstance(k[1],str) and k[1].startswith('digits@'): klo=1
        a_lo,a_hi=(klo,khi) if c>0 else (khi,klo)
        L = None if (L is None or a_lo is None) else L+c*a_lo
        U = None if (U is None or a_hi is None) else U+c*a_hi
    return (L,U)
def prove_lt(facts,x,y):
    for f in facts:
        if f[0]=='lt' and prove_le(facts,x,f[1]) and prove_le(facts,f[2],y): return True
    if isinstance(x,tuple) and isinstance(y,tuple) and x[0]=='int' and y[0]=='int': return x[1]<y[1]
    return False
def _ne_known(facts,a,b):
    return any(g[0]=='ne' and ((g[1]==a and g[2]==b) or (g[1]==b and g[2]==a)) for g in facts)
def contradicts(facts,f):
    if f[0]=='ne':
        return prove_eq([g for g in facts if g[0]!='ne'],f[1],f[2])
    if f[0]=='le' and _ne_known(facts,f[1],f[2]) and prove_le([g for g in facts if g[0]!='ne'],f[2],f[1]):
        return True          # a <= b with b <= a and a != b
    if f[0]=='eq' and _ne_known(facts,f[1],f[2]):
        return True
    if f[0] in('lt','le'):
        L,U=lin_range(('sub',f[1],f[2]),facts)      # a - b
        if L is not None and (L>0 or (f[0]=='lt' and L>=0)): return True
    if f[0]=='lt': return prove_le(facts,f[2],f[1])
    if f[0]=='le': return prove_lt(facts,f[2],f[1])
    if f[0]=='eq': return prove_lt(facts,f[1],f[2]) or prove_lt(facts,f[2],f[1])
    return False
def prove_eq(facts,a,b):
    if a==b: return True
    if a is None or b is None: return False
    try:
        la=lin(a,facts); lb=lin(b,facts)
        if la==lb: return True
        d={k:la.get(k,0)-lb.get(k,0) for k in set(la)|set(lb)}
        d={k:v for k,v in d.items() if v!=0}
        vecs=[]
        for f in facts:
            if f[0]!='eq': continue
            lx=lin(f[1],[]); ly=lin(f[2],[])
            e={k:Fraction(lx.get(k,0))-Fraction(ly.get(k,0)) for k in set(lx)|set(ly)}
            e={k:v for k,v in e.items() if v!=0}
            if e: vecs.append(e)
        if vecs and in_span({k:Fraction(v) for k,v in d.items()},vecs): return True
    except Exception: pass
    return prove_le(facts,a,b) and prove_le(facts,b,a)
BIG=re.compile(r'BigInt|BigUint')
PRIM=re.compile(r'^&?(mut )?(u8|u16|u32|u64|u128|i8|i16|i32|i64|i128|usize)$')
DEC=re.compile(r'^(&(mut )?)?(BigDecimal|BigDecimalRef<.*>)$')
OPS={'std::ops::Add':'add','std::ops::Sub':'sub','std::ops::Mul':'mul','std::ops::Neg':'neg','std::ops::AddAssign':'add','std::ops::SubAssign':'sub','std::ops::MulAssign':'mul','std::ops::Rem':'rem','std::ops::RemAssign':'rem'}
def specval(kind,a,b):
    if kind=='add': return padd(a,b)
    if kind=='sub': return padd(a,b,-1)
    if kind=='mul': return pmul(a,b)
    if kind=='neg': return padd({},a,-1)
    if kind=='double': return pmul(P(2),a)
    if kind=='half': return pmul({():Fraction(1,2)},a)
    if kind=='square': return pmul(a,a)
    if kind=='cube': return pmul(a,pmul(a,a))
    if kind=='abs': return absval(a)
    if kind=='id': return a
    if kind=='rem': return {(('rem(a,b)',1),):Fraction(1)} if (a==sym('x1') and b==sym('x2')) else {(('rem?',1),):Fraction(1)}
def psub_abs(p,symn,factor):
    """replace the symbol |symn| by factor*symn"""
    r={}
    key='|%s|'%symn
    for m,c in p.items():
        d=dict(m); e=d.pop(key,0)
        if e:
            d[symn]=d.get(symn,0)+e
            c=c*(Fraction(factor)**e)
        m2=tuple(sorted(d.items()))
        r[m2]=r.get(m2,0)+c
        if r[m2]==0: del r[m2]
    return r
def absval(p):
    """|p| as an uninterpreted symbol over a single-symbol polynomial"""
    if p=={}: return {}
    if isinstance(p,dict) and len(p)==1:
        (m,c),=p.items()
        if len(m)==1 and m[0][1]==1 and c in (1,-1): return sym('|%s|'%m[0][0])
    return {(('|?|',1),):Fraction(1)}
class State:
    def __init__(s): s.store={}; s.facts=[]; s.subst={}
    def clone(s):
        import copy
        n=State(); n.facts=list(s.facts); n.subst=dict(s.subst); n.even=set(getattr(s,'even',())); n.signs=dict(getattr(s,'signs',{})); n.loopinv=dict(getattr(s,'loopinv',{})); n.divrems=list(getattr(s,'divrems',[])); n.nonzero=set(getattr(s,'nonzero',()))
        memo={}
        n.store=copy.deepcopy(s.store,memo)
        return n
def only_params(t):
    """term mentions only the scales of the function's own parameters (and integer constants)"""
    if not isinstance(t,tuple): return False
    if t[0]=='sc': return isinstance(t[1],str) and t[1].startswith('arg')
    if t[0]=='int': return True
    if t[0] in('add','sub','max','min','satsub','absdiff'): return only_params(t[1]) and only_params(t[2])
    if t[0]=='cast': return only_params(t[1])
    return False
def subst_term(t,mapping):
    if not isinstance(t,tuple): return t
    if t[0]=='sc' and t in mapping: return mapping[t]
    return tuple(subst_term(x,mapping) if isinstance(x,tuple) else x for x in t)
LOSSY_BIGINT=re.compile(r'::modpow$|::modinv$|Roots::(sqrt|cbrt|nth_root)$|BigU?int::(sqrt|cbrt|nth_root)$|Integer::(div_floor|mod_floor|div_mod_floor|div_rem|div_ceil|gcd|lcm)$|::div_euclid$|::rem_euclid$|ops::(Shr|Shl|BitAnd|BitOr|BitXor)(Assign)?::|::trailing_zeros$|::set_bit$')
FACTS=None   # set by props/exact.prepare: gives access to promoted constants
PRECONDS={}   # function name -> list of (rel, a, b, text): obligations lifted to the call sites
def loop_headers(fn):
    """targets of back edges of the live CFG: a path that reaches one is not decided by the typing"""
    heads=set(); color={}
    stack=[(0,iter(fn.succ(0)))]; color[0]=1
    live=fn.live_blocks()
    while stack:
        b,it=stack[-1]; adv=False
        for t in it:
            if t not in live: continue
            if color.get(t)==1: heads.add(t)
            elif t not in color:
                color[t]=1; stack.append((t,iter(fn.succ(t)))); adv=True; break
        if not adv:
            color[b]=2; stack.pop()
    return heads
class LoopRetry(Exception): pass
class An:
    def __init__(self,fn,kind,lift=False,arg_offset=0,scale_params=(),int_dims=None):
        self.int_dims=dict(int_dims or {}); self.loop_exclude={}
        self.fn=fn; self.kind=kind; self.viol=[]; self.undec=[]; self.ok=0; self.paths=0; self.lift=lift; self.lifted=[]
        self.off=arg_offset; self.scale_params=set(scale_params); self.lossy_seen=[]; self.shortcut_ok=0; self.shortcuts=[]
    def fail(self,msg,rel=None,a=None,b=None):
        """record a failed obligation; when its terms mention only parameter scales it becomes a
        precondition of this function, checked at every call site instead"""
        if self.lift and rel is not None and a is not None and b is not None and only_params(a) and only_params(b):
            ent=(rel,a,b,msg)
            if ent[:3] not in [x[:3] for x in self.lifted]: self.lifted.append(ent)
            return True
        self.viol.append(msg)
        return False
    def tyof(self,i): return self.fn.locals[i].replace("'_ ","").replace("'a ","").replace("'b ","").replace("'rhs ","")
    def mkarg(self,i):
        ty=self.tyof(i); x='x%d'%i
        if re.match(r'^&?WithScale<',ty):
            sc=('sc','arg%d'%i)
            r=Rec(sc,IntV(sym('m%d'%i),sc),None,None,'arg%d'%i); r.symname='m%d'%i
            return ('ref',r) if ty.startswith('&') else r
        if re.search(r'NonZero<u64>$|NonZeroU64$',ty) and i in self.scale_params:
            s0=('par',i)
            return s0
        if DEC.match(ty):
            sc=('sc','arg%d'%i)
            if 'BigDecimalRef' in ty:
                r=Rec(sc,IntV(sym('m%d'%i),sc),None,sym('s%d'%i),'arg%d'%i); r.val=red(pmul(sym('s%d'%i),sym('m%d'%i))); r.symname=('m%d'%i)
            else:
                r=Rec(sc,IntV(sym(x),sc),sym(x),None,'arg%d'%i); r.symname=x
            return ('ref',r) if ty.startswith('&') else r
        if BIG.search(ty) and not ty.startswith('T'):
            v=IntV(sym(x),TERM0); v.symname=x
            return ('ref',v) if ty.startswith('&') else v
        if PRIM.match(ty) and i in self.scale_params:
            return ('ref',('par',i)) if ty.startswith('&') else ('par',i)
        if PRIM.match(ty):
            v=IntV(sym(x),TERM0); v.symname=x
            return ('ref',v) if ty.startswith('&') else v
        if ty in('T','N','Lhs','Rhs','A','B'):
            # T: Into<BigDecimalRef>
            sc=('sc','arg%d'%i)
            r=Rec(sc,IntV(sym('m%d'%i),sc),None,sym('s%d'%i),'argT%d'%i); r.val=red(pmul(sym('s%d'%i),sym('m%d'%i))); r.symname='m%d'%i
            return r
        return UNK
    def argreal(self,i):
        ty=self.tyof(i)
        if 'BigDecimalRef' in ty or ty in('T','N','Lhs','Rhs','A','B'): return red(pmul(sym('s%d'%i),sym('m%d'%i)))
        return sym('x%d'%i)
    def run(self):
        s=State()
        for i in range(1,self.fn.argc+1): s.store[i]=self.mkarg(i)
        for i,dm in self.int_dims.items():
            v0=self.deref(s,s.store.get(i))
            if isinstance(v0,IntV): v0.dim=dm
        for i in sorted(self.scale_params):
            if self.tyof(i).lstrip('&').startswith('u'): s.facts.append(('le',TERM0,('par',i)))     # unsigned parameter
        self.loop_heads=loop_headers(self.fn)
        if self.kind=='rescale':
            # the summary used at call sites: "same value at scale T provided T >= current scale"
            tgt=[i for i in sorted(self.scale_params)]
            if tgt: s.facts.append(('le',('sc','arg%d'%(1+self.off)),('par',tgt[0])))
        self.dfs(0,s,set())
    def deref(self,s,v,n=0):
        while isinstance(v,tuple) and v and v[0] in('ref','reflocal') and n<6:
            v = v[1] if v[0]=='ref' else s.store.get(v[1],UNK); n+=1
        return v
    def read(self,s,pl):
        v=s.store.get(pl['l'],UNK)
        for p in pl['p']:
            if p=='*': v=self.deref(s,v) if isinstance(v,tuple) and v and v[0] in('ref','reflocal') else v
            elif isinstance(p,dict) and 'f' in p:
                v=self.deref(s,v)
                if isinstance(v,Rec):
                    n=p['n']
                    if n=='scale': v=v.scale
                    elif n in('int_val','digits','value'): v=v.ival if v.ival is not None else UNK
                    elif n=='sign': v=('signv',v.sign) if v.sign is not None else UNK
                    else: v=UNK
                elif isinstance(v,tuple) and v and v[0]=='tuple': v=v[1][p['f']] if p['f']<len(v[1]) else UNK
                else: v=UNK
            else: v=UNK
        return v
    def op(self,s,o):
        if o['k'] in('copy','move'): return self.read(s,o['pl'])
        if o['k']=='const':
            if 'int' in o: return ('int',int(o['int']))
            if 'promoted' in o and FACTS is not None:
                pv=FACTS.promoted_value(self.fn,o['promoted'])
                if pv and pv[0]=='int': return ('ref',('int',pv[1]))
            return ('const',o.get('s'))
        return UNK
    def write(self,s,pl,v):
        if not pl['p']: s.store[pl['l']]=v; return
        cur=s.store.get(pl['l'],UNK)
        for p in pl['p'][:-1]:
            if p=='*': cur=self.deref(s,cur)
            elif isinstance(p,dict) and 'f' in p:
                cur=self.deref(s,cur)
                if isinstance(cur,tuple) and cur and cur[0]=='tuple': cur=cur[1][p['f']]
                else: cur=UNK
        last=pl['p'][-1]; cur=self.deref(s,cur)
        if last=='*':
            # *ref = v : overwrite target object in place
            tgt=cur
            if isinstance(tgt,Rec) and isinstance(v,Rec): tgt.__dict__.update(v.__dict__)
            elif isinstance(tgt,IntV) and isinstance(v,IntV): tgt.val,tgt.dim=v.val,v.dim
            elif isinstance(tgt,Rec): tgt.ival=None; tgt.val=None; tgt.scale=('unk','overwritten')
            return
        if isinstance(cur,Rec) and isinstance(last,dict):
            if last.get('n')=='scale': cur.scale=v if isterm(v) else ('unk','w')
            elif last.get('n') in('int_val','digits'):
                cur.ival=v if isinstance(v,IntV) else None
                if not isinstance(v,IntV): cur.val=None
    def loop_writes_precise(self,head):
        """locals written while the loop runs: assigned in a block of the loop, mutably borrowed in such a block, or reachable
        through a `&mut` local that a block of the loop writes through or passes to a call"""
        cache=self.__dict__.setdefault('_lwp',{})
        if head in cache: return cache[head]
        fn=self.fn; live=fn.live_blocks()
        fwd=set(); st=[head]
        while st:
            b=st.pop()
            for t in fn.succ(b):
                if t in live and t not in fwd: fwd.add(t); st.append(t)
        pred={}
        for b in live:
            for t in fn.succ(b): pred.setdefault(t,set()).add(b)
        back=set(); st=[head]
        while st:
            b=st.pop()
            for q in pred.get(b,()):
                if q in live and q not in back: back.add(q); st.append(q)
        body=(fwd&back)|{head}
        refs={}
        for b in live:
            for stt in fn.blocks[b]['st']:
                if stt['s']=='assign' and not stt['lhs']['p'] and stt['rv']['r']=='ref':
                    refs.setdefault(stt['lhs']['l'],set()).add((stt['rv']['pl']['l'],bool(stt['rv']['pl']['p'])))
        def referents(l,seen=None):
            seen=seen or set(); out=set()
            for (x,proj) in refs.get(l,()):
                if (x,proj) in seen: continue
                seen.add((x,proj))
                if proj: out|=referents(x,seen)
                else: out.add(x)
            return out
        w=set()
        for b in body:
            blk=fn.blocks[b]
            for stt in blk['st']:
                if stt['s']!='assign': continue
                if not stt['lhs']['p'] or stt['lhs']['p'][0]!='*': w.add(stt['lhs']['l'])
                else: w|=referents(stt['lhs']['l'])
                if stt['rv']['r']=='ref' and stt['rv'].get('mut'):
                    pl=stt['rv']['pl']
                    if not pl['p'] or pl['p'][0]!='*': w.add(pl['l'])
                    else: w|=referents(pl['l'])
            t=blk['term']
            if t['t']=='call':
                if t.get('dest'):
                    if not t['dest']['p'] or t['dest']['p'][0]!='*': w.add(t['dest']['l'])
                    else: w|=referents(t['dest']['l'])
                for a in t['args']:
                    if a.get('k') in('copy','move') and self.tyof(a['pl']['l']).startswith('&mut'): w|=referents(a['pl']['l'])
        cache[head]=w
        return w
    def loop_writes(self,head):
        """locals possibly written while the loop headed by `head` runs: assigned in a block of the loop (blocks that
        reach the header again), plus every local that is mutably borrowed anywhere in the function"""
        cache=self.__dict__.setdefault('_lw',{})
        if head in cache: return cache[head]
        fn=self.fn; live=fn.live_blocks()
        fwd=set(); st=[head]
        while st:
            b=st.pop()
            for t in fn.succ(b):
                if t in live and t not in fwd: fwd.add(t); st.append(t)
        pred={}
        for b in live:
            for t in fn.succ(b): pred.setdefault(t,set()).add(b)
        back=set(); st=[head]
        while st:
            b=st.pop()
            for q in pred.get(b,()):
                if q in live and q not in back: back.add(q); st.append(q)
        body=(fwd&back)|{head}
        w=set()
        for b in body:
            blk=fn.blocks[b]
            for stt in blk['st']:
                if stt['s']=='assign': w.add(stt['lhs']['l'])
            t=blk['term']
            if t['t']=='call' and t.get('dest'): w.add(t['dest']['l'])
        for b in live:
            for stt in fn.blocks[b]['st']:
                if stt['s']=='assign' and stt['rv']['r']=='ref' and stt['rv'].get('mut'): w.add(stt['rv']['pl']['l'])
        cache[head]=w
        return w
    def dfs(self,bid,s,onpath):
        fn=self.fn; b=fn.blocks[bid]
        if b['cleanup'] or self.paths>3000: return
        if bid in getattr(self,'loop_heads',()) and self.kind=='scale-only' and getattr(self,'havoc_ok',True):
            # only the label of the result is decided in this kind: widen at the loop header (every local the loop
            # may write, directly or through a mutable borrow, becomes unknown) and explore the body once
            if bid in onpath: return
            for l in self.loop_writes(bid): s.store[l]=UNK
            self.havocked=getattr(self,'havocked',0)+1
        elif bid in getattr(self,'loop_heads',()) and self.kind=='dims':
            # inductive loop invariant of the bookkeeping: every tracked integer keeps a constant distance (in powers of ten)
            # from the anchor scalar.  First arrival: replace the anchor by a fresh symbol, the others by symbol + distance.
            # Back edge: the distances must be unchanged (a constant non-zero change is a definite mismatch).
            inv=getattr(s,'loopinv',{})
            def termof(v):
                v=self.deref(s,v)
                if isinstance(v,IntV): return v.dim if isterm(v.dim) else None
                return v if isterm(v) and v[0]!='int' else None
            if bid in onpath:
                if bid not in inv: self.undec.append('loop'); return
                anchor,offs=inv[bid]
                ta=termof(s.store.get(anchor))
                for l,off in offs.items():
                    tl=termof(s.store.get(l))
                    if ta is None or tl is None: self.loop_exclude.setdefault(bid,set()).add(l if tl is None else anchor); raise LoopRetry()
                    diff=('sub',('sub',tl,ta),off)
                    if prove_eq(s.facts,diff,TERM0): continue
                    try: ld=lin(diff,s.facts)
                    except Exception: ld=None
                    if ld is not None and set(ld.keys())<={1} and ld.get(1,0)!=0:
                        self.viol.append('LOOP STEP: in the loop at line %d `%s` moves %+d power(s) of ten relative to `%s` per iteration: the digits and the scale go out of step'%(self.fn.blocks[bid]['term'].get('loc',{}).get('line',0) or 0,self.fn.dbg.get(l,'_%d'%l),int(ld[1]),self.fn.dbg.get(anchor,'_%d'%anchor)))
                        return
                    self.loop_exclude.setdefault(bid,set()).add(l); raise LoopRetry()
                self.loop_ok=getattr(self,'loop_ok',0)+1
                return
            writes=self.loop_writes_precise(bid); excl=self.loop_exclude.get(bid,set())
            tracked={}
            for l in sorted(writes):
                if l in excl: continue
                ty=self.tyof(l).lstrip('&')
                v=self.deref(s,s.store.get(l,UNK))
                if isinstance(v,IntV) and isterm(v.dim): tracked[l]=v.dim
                elif ty in('i64','u64','i128','usize','u128','i32','u32') and isterm(v) and v[0]!='int': tracked[l]=v
            scal=[l for l in tracked if not isinstance(self.deref(s,s.store.get(l)),IntV)]
            anchor=(scal or sorted(tracked))[0] if tracked else None
            sig=('unk','loop@bb%d'%bid)
            offs={}
            for l in writes:
                if l in tracked and anchor is not None:
                    off=('sub',tracked[l],tracked[anchor]); offs[l]=off
                    nt=sig if l==anchor else ('add',sig,off)
                    cur=self.deref(s,s.store.get(l))
                    s.store[l]=IntV('lossy',nt) if isinstance(cur,IntV) else nt
                else: s.store[l]=UNK
            if anchor is not None:
                inv=dict(inv); inv[bid]=(anchor,offs); s.loopinv=inv
        elif bid in onpath or bid in getattr(self,'loop_heads',()): self.undec.append('loop'); self.loops=getattr(self,'loops',0)+1; return
        onpath=onpath|{bid}
        for st in b['st']:
            if st['s']=='assign': self.assign(s,st)
        t=b['term']; k=t['t']
        if k=='return': self.paths+=1; self.check_return(s); return
        if k in('goto','drop','assert'): return self.dfs(t['to'],s,onpath)
        if k=='call':
            self.call(s,t)
            if t['to'] is not None: self.dfs(t['to'],s,onpath)
            return
        if k=='switch':
            v=self.op(s,t['on'])
            if isinstance(v,tuple) and v and v[0]=='int':
                for val,tgt in t['targets']:
                    if int(val)==v[1]: return self.dfs(tgt,s,onpath)
                return self.dfs(t['otherwise'],s,onpath)
            vals=[x[0] for x in t['targets']]
            for val,tgt in t['targets']:
                s2=s.clone()
                if self.refine(s2,v,val,False,vals): self.dfs(tgt,s2,onpath)
            s2=s.clone()
            if self.refine(s2,v,None,True,vals): self.dfs(t['otherwise'],s2,onpath)
    def refine(self,s,v,val,otherwise,allvals):
        if isinstance(v,tuple) and v and v[0]=='discr' and isinstance(v[1],tuple) and v[1] and v[1][0]=='signof':
            symn=v[1][1]
            signs=dict(getattr(s,'signs',{}))
            if otherwise:
                rem={'0','1','2'}-set(allvals)
                if not rem: return False
                if rem=={'0'}: signs[symn]='neg'
                elif rem=={'2'}: signs[symn]='pos'
                elif rem=={'1'}: s.subst[symn]=0
                elif rem=={'1','2'}: signs[symn]='nonneg'
            else:
                if val=='0': signs[symn]='neg'
                elif val=='1': s.subst[symn]=0
                elif val=='2': signs[symn]='pos'
            s.signs=signs
            return True
        if isinstance(v,tuple) and v and v[0]=='discr' and isinstance(v[1],tuple) and v[1] and v[1][0]=='ord':
            _,a,b=v[1]
            if otherwise:
                rem={'255','0','1'}-set(allvals)
                if len(rem)==1: val=rem.pop()
                elif not rem: return False
                else: return True
            f=('lt',a,b) if val=='255' else ('eq',a,b) if val=='0' else ('lt',b,a) if val=='1' else None
            if f is None: return True
            if contradicts(s.facts,f): return False      # infeasible under the path's ordering facts
            s.facts.append(f)
            return True
        if isinstance(v,tuple) and v and v[0]=='discr' and isinstance(v[1],tuple) and v[1] and v[1][0]=='enumc':
            # a switch on the tag of a known field-less variant: only the matching arm is feasible
            tag=str(v[1][2])
            if otherwise: return tag not in set(allvals)
            return val==tag
        if isinstance(v,IntV) and isinstance(v.val,dict) and self.single_sym(v.val) and not otherwise:
            # `match rhs { 0 => .., 1 => .., x => .. }` on a primitive operand
            s.subst[self.single_sym(v.val)]=int(val)
            return True
        if isinstance(v,IntV) and otherwise:
            return True
        if isterm(v) and v[0] in('sc','par','add','sub','cast','unk','mulc','max','min'):
            # `match scale { 0 => .., _ => .. }`: a switch on the scalar itself
            if not otherwise:
                f=('eq',v,('int',int(val)))
                if contradicts(s.facts,f): return False
                s.facts.append(f)
            return True
        if isinstance(v,tuple) and v and v[0] in('bool','test'):
            if allvals==['0']: truth=otherwise
            elif otherwise: return True
            else: truth=(val!='0')
            if v[0]=='bool':
                _,rel,a,b=v
                if truth: f={'lt':('lt',a,b),'le':('le',a,b),'gt':('lt',b,a),'ge':('le',b,a),'eq':('eq',a,b),'ne':('ne',a,b)}[rel]
                else: f={'lt':('le',b,a),'le':('lt',b,a),'gt':('le',a,b),'ge':('lt',a,b),'eq':('ne',a,b),'ne':('eq',a,b)}[rel]
                if f:
                    if contradicts(s.facts,f): return False
                    s.facts.append(f)
                    if f[0]=='le' and f[2]==TERM0:
                        L,U=lin_range(f[1],s.facts)
                        if L is not None and L>=0: s.facts.append(('eq',f[1],TERM0))
                    if f[0]=='le' and f[1]==TERM0:
                        L,U=lin_range(f[2],s.facts)
                        if U is not None and U<=0: s.facts.append(('eq',f[2],TERM0))      # 0 <= x together with x <= 0
            else:
                _,what,symn,c=v
                if (not truth) and symn is not None and what=='is_odd':
                    s.even=getattr(s,'even',set())|{symn}
                if (not truth) and symn is not None and what=='is_zero':
                    s.nonzero=set(getattr(s,'nonzero',()))|{symn}
                if symn is not None and what in('is_negative','is_positive'):
                    sg={('is_negative',True):'neg',('is_negative',False):'nonneg',('is_positive',True):'pos'}.get((what,truth))
                    if sg:
                        signs=dict(getattr(s,'signs',{})); signs[symn]=sg; s.signs=signs
                if truth and symn is not None:
                    if what=='is_zero': s.subst[symn]=0
                    elif what=='is_one': s.subst[symn]=1
                    elif what=='eqc': s.subst[symn]=c
                    elif what=='is_even': s.even=getattr(s,'even',set())|{symn}
            return True
        return True
    def single_sym(self,p):
        if isinstance(p,dict) and len(p)==1:
            (m,c),=p.items()
            if c==1 and len(m)==1 and m[0][1]==1: return m[0][0]
        return None
    def assign(self,s,st):
        lhs=st['lhs']; rv=st['rv']; r=rv['r']; v=UNK
        if r=='use': v=self.op(s,rv['op'])
        elif r=='ref':
            pl=rv['pl']; tgt=self.read(s,pl)
            if isinstance(tgt,(Rec,IntV)): v=('ref',tgt)
            elif not pl['p']: v=('reflocal',pl['l'])
            elif isterm(tgt): v=('ref',tgt)
            else: v=UNK
        elif r=='bin':
            a=self.deref(s,self.op(s,rv['a'])); b=self.deref(s,self.op(s,rv['b'])); bop=rv['bop']
            if isterm(a) and isterm(b):
                if bop.startswith('Add'): v=('add',a,b)
                elif bop.startswith('Sub'):
                    v=('sub',a,b)
                    lty=(rv['a'].get('pl',{}).get('ty') or rv['a'].get('ty') or '').lstrip('&')
                    if 'WithOverflow' in bop and lty.startswith('u'): s.facts.append(('le',TERM0,v))
                elif bop.startswith('Mul') and b[0]=='int': v=('mulc',a,b[1])
                elif bop.startswith('Mul') and a[0]=='int': v=('mulc',b,a[1])
                elif bop in('Lt','Le','Gt','Ge','Eq','Ne'): v=('bool',bop.lower(),a,b)
                if 'WithOverflow' in bop: v=('tuple',[v,UNK])
            elif isinstance(a,IntV) and isinstance(b,tuple) and b and b[0]=='int' and bop in('Eq','Ne'):
                sn=self.single_sym(a.val)
                if bop=='Eq': v=('test','is_zero' if b[1]==0 else 'eqc',sn,b[1])
        elif r=='cast':
            a=self.deref(s,self.op(s,rv['op']))
            if isterm(a):
                src_ty=(rv['op'].get('pl',{}).get('ty') or rv['op'].get('ty') or '').lstrip('&')
                tb=INT_BITS.get(rv['to']); sb=INT_BITS.get(src_ty)
                if tb is not None and sb is not None and tb<sb:
                    v=('ncast',a,tb)     # narrowing: value-preserving only when 0 <= a < 2^bits is provable
                else:
                    v=('cast',a) if rv['to'].startswith('u') and not src_ty.startswith('u') else a
            elif isinstance(a,IntV): v=a
            elif str(rv.get('kind','')).startswith('FloatToInt') and self.kind=='dims':
                v=('unk','float@%d'%st['line'])       # an integer estimate computed in floating point: an opaque scalar
                if str(rv.get('to','')).startswith('u'): s.facts.append(('le',TERM0,v))
        elif r=='un':
            a=self.deref(s,self.op(s,rv['a']))
            if rv.get('uop')=='Neg' and isterm(a): v=('sub',TERM0,a)
            elif rv.get('uop')=='Neg' and isinstance(a,IntV): v=IntV(padd({},a.val,-1) if isinstance(a.val,dict) else a.val,a.dim)
            elif rv.get('uop')=='Not' and isinstance(a,tuple) and a and a[0]=='bool':
                inv={'lt':'ge','le':'gt','gt':'le','ge':'lt','eq':'ne','ne':'eq'}
                v=('bool',inv.get(a[1],a[1]),a[2],a[3])
        elif r=='discr': v=('discr',self.deref(s,self.read(s,rv['pl'])))
        elif r=='agg':
            kind=rv['kind']; ops=[self.op(s,o) for o in rv['ops']]
            if kind['a']=='tuple': v=('tuple',ops)
            elif kind['a']=='adt' and kind['adt'].endswith('Cow') and ops: v=ops[0]
            elif kind['a']=='adt' and kind['adt'] in('BigDecimal','BigDecimalRef'):
                f=kind['fields']; sc=ops[f.index('scale')]
                iv=self.deref(s,ops[f.index('int_val')] if 'int_val' in f else ops[f.index('digits')])
                sg=ops[f.index('sign')] if 'sign' in f else None
                rec=Rec(sc if isterm(sc) else ('unk','agg'), iv if isinstance(iv,IntV) else None, None, None,'agg@%d'%st['line'])
                if sg is not None and isinstance(sg,tuple) and sg and sg[0]=='signv': rec.sign=sg[1]
                v=rec
            elif kind['a']=='adt' and not ops and 'vidx' in kind and not re.match(r'^(std|core)::', str(kind.get('adt',''))):
                v=('enumc',str(kind.get('adt','')),int(kind['vidx']))       # a field-less variant of a crate-local enum: a known tag
            elif kind['a']=='adt' and not str(kind.get('adt','')).startswith('std::') and kind.get('fields') and len(kind['fields'])==len(ops) \
                    and str(kind.get('adt','')).split('::')[-1] not in ('WithScale','Context','NonDigitRoundingData','InsigData'):
                v=('tuple',ops)          # a plain crate-local struct carrying values: fields are read back by position
        self.write(s,lhs,v)
    def recval(self,s,r):
        """real value polynomial of rec (requires wellformed)"""
        if r.ival is not None and r.ival.val=='lossy':
            if not prove_eq(s.facts,r.ival.dim,r.scale): return ('illformed',r.ival.dim,r.scale)
            return ('lossy',)
        if r.ival is not None and isinstance(r.ival.val,dict):
            v=r.ival.val
            vz=v
            for k_,v_ in s.subst.items(): vz=psub_sym(vz,k_,v_)
            if red(vz)!={} and not prove_eq(s.facts,r.ival.dim,r.scale):
                # N = val * 10^dim: re-express at the record's scale when the two differ by a constant
                try:
                    la=lin(r.ival.dim,s.facts); lb=lin(r.scale,s.facts)
                    d={k:la.get(k,0)-lb.get(k,0) for k in set(la)|set(lb)}
                    d={k:x for k,x in d.items() if x!=0}
                except Exception: d=None
                if d is not None and set(d)<={1} and abs(d.get(1,0))<=40:
                    c=d.get(1,0)
                    v=pmul({():Fraction(10)**c},v)
                else:
                    return ('illformed',r.ival.dim,r.scale)
            if r.sign is not None: v=red(pmul(r.sign,v))
            return v
        return r.val if r.val is not None else None
    def check_return(self,s):
        fn=self.fn; kind=self.kind
        assign = fn.d.get('impl_trait_def','').endswith('Assign') or (fn.argc>=1 and self.tyof(1+self.off).startswith('&mut BigDecimal') and fn.locals[0]=='()')
        out=self.deref(s,s.store.get(1+self.off if assign else 0,UNK))
        if kind and kind.startswith('rounded-'):
            self.ok+=1; return
        if kind=='pow10':
            out=self.deref(s,s.store.get(0,UNK))
            if not isinstance(out,IntV) or not isinstance(out.val,dict): self.undec.append('ret not a tracked integer: %r'%(out,)); return
            val=out.val
            for k_,v_ in s.subst.items(): val=psub_sym(val,k_,v_)
            tgt=('par',sorted(self.scale_params)[0])
            if red(val)!=P(1) or not prove_eq(s.facts,out.dim,tgt):
                self.viol.append('POWER OF TEN: returns %s * 10^(%s), not 10^(%s) facts=%s'%(pshow(red(val)),show(out.dim),show(tgt),[(f[0],show(f[1]),show(f[2])) for f in s.facts][:6]))
            else: self.ok+=1
            return
        if kind=='dims':
            out=self.deref(s,s.store.get(0,UNK))
            if not isinstance(out,Rec): self.undec.append('ret not rec: %r'%(out,)); return
            if out.ival is None: self.undec.append('returned integer not tracked'); return
            vz=out.ival.val
            if isinstance(vz,dict):
                for k_,v_ in s.subst.items(): vz=psub_sym(vz,k_,v_)
                if red(vz)=={}: self.ok+=1; return      # zero fits every scale
            if not prove_eq(s.facts,out.ival.dim,out.scale):
                self.viol.append('SCALE BOOKKEEPING: the returned integer has dimension %s but is labelled with scale %s facts=%s'%(show(out.ival.dim),show(out.scale),[(f[0],show(f[1]),show(f[2])) for f in s.facts if f[0]=='eq'][:4])); return
            self.ok+=1; return
        if kind in('rescale','scale-only'):
            if not isinstance(out,Rec): self.undec.append('ret not rec: %r'%(out,)); return
            tgt=('par',sorted(self.scale_params)[0])
            if not prove_eq(s.facts,out.scale,tgt):
                self.viol.append('RESULT SCALE %s is not the requested scale facts=%s'%(show(out.scale),[(f[0],show(f[1]),show(f[2])) for f in s.facts])); return
            val=self.recval(s,out)
            if isinstance(val,tuple) and val and val[0]=='illformed':
                self.viol.append('ILLFORMED result: int dim %s != scale %s facts=%s'%(show(val[1]),show(val[2]),[(f[0],show(f[1]),show(f[2])) for f in s.facts])); return
            if kind=='scale-only': self.ok+=1; return
            if isinstance(val,tuple) and val and val[0]=='lossy':
                self.viol.append('LOSSY operation on a path where the target scale is >= the current scale'); return
            if val is None: self.undec.append('ret val unknown'); return
            sp=self.argreal(1+self.off)
            for k_,v_ in s.subst.items(): sp=psub_sym(sp,k_,v_); val=psub_sym(val,k_,v_)
            if red(sp)!=red(val): self.viol.append('VALUE %s != input %s after rescale under %s'%(pshow(red(val)),pshow(red(sp)),s.subst))
            else: self.ok+=1
            return
        if not isinstance(out,Rec): self.undec.append('ret not rec: %r'%(out,)); return
        val=self.recval(s,out)
        if isinstance(val,tuple) and val and val[0]=='illformed':
            self.viol.append('ILLFORMED result: int dim %s != scale %s facts=%s'%(show(val[1]),show(val[2]),[(f[0],show(f[1]),show(f[2])) for f in s.facts])); return
        if isinstance(val,tuple) and val and val[0]=='lossy':
            self.viol.append('LOSSY integer operation (division / root / truncation) feeds the result of an exact operation'); return
        if val is None: self.undec.append('ret val unknown'); return
        if kind is None: self.ok+=1; return
        a=self.argreal(1+self.off); b=self.argreal(2+self.off) if fn.argc>=2+self.off else None
        sp=specval(kind,a,b)
        for k_,v_ in s.subst.items(): sp=psub_sym(sp,k_,v_); sp=psub_sym(sp,'|%s|'%k_,abs(v_)); val=psub_sym(val,k_,v_)
        for symn,sg in getattr(s,'signs',{}).items():
            # |x| = x when x >= 0, -x when x < 0
            sp=psub_abs(sp,symn,-1 if sg=='neg' else 1); val=psub_abs(val,symn,-1 if sg=='neg' else 1)
        sp=red(sp); val=red(val)
        cases=[({},'')]
        for (sx,c_,qn,rn) in getattr(s,'divrems',[]):
            lo,hi=-(c_-1),c_-1
            sg=getattr(s,'signs',{}).get(sx)
            if sg=='neg': hi=0
            elif sg in('pos','nonneg'): lo=0
            rs=[s.subst[rn]] if rn in s.subst else [x for x in range(lo,hi+1) if not (x==0 and rn in getattr(s,'nonzero',()))]
            cases=[(dict(cs,**{sx:(c_,qn,rn,rv)}),ds+' %s = %d*q %+d'%(sx,c_,rv)) for cs,ds in cases for rv in rs]
        if getattr(s,'divrems',[]):
            bad=None
            for cs,ds in cases:
                sp_i,val_i=sp,val
                for sx,(c_,qn,rn,rv) in cs.items():
                    repl=padd(pmul(P(c_),sym(qn)),P(rv))
                    sp_i=psub_sym(psub_poly(sp_i,sx,repl),rn,rv); val_i=psub_sym(psub_poly(val_i,sx,repl),rn,rv)
                if red(sp_i)!=red(val_i): bad=(ds,pshow(red(val_i)),pshow(red(sp_i))); break
            if bad: self.viol.append('VALUE wrong in the remainder case%s (sign of the remainder follows the dividend): result %s, exact %s'%bad)
            else: self.ok+=1
            return
        if sp!=val: self.viol.append('VALUE %s != spec %s under %s'%(pshow(val),pshow(sp),s.subst))
        else:
            self.ok+=1
            if s.subst:
                self.shortcut_ok+=1
                desc=','.join('%s:=%s'%kv for kv in sorted(s.subst.items()))
                if desc not in self.shortcuts: self.shortcuts.append(desc)
    def intop(self,s,t,kind,a,b,what):
        if not (isinstance(a,IntV) and isinstance(b,IntV)): return None
        if a.val=='lossy' or b.val=='lossy' or a.val is None or b.val is None:
            if kind=='mul': return IntV('lossy' if 'lossy' in (a.val,b.val) else None,('add',a.dim,b.dim) if b.dim!=TERM0 else a.dim)
            if self.kind=='dims' and kind in('add','sub') and isterm(a.dim) and isterm(b.dim) and not getattr(a,'anydim',False) and not getattr(b,'anydim',False) and not prove_eq(s.facts,a.dim,b.dim):
                self.viol.append('DIM mismatch in int %s at line %d: the operands stand for different powers of ten (%s vs %s)'%(what,t['loc']['line'],show(a.dim),show(b.dim)))
            return IntV('lossy' if 'lossy' in (a.val,b.val) else None,a.dim)
        if kind in('add','sub','rem'):
            pa=getattr(a,'pow10',None); pb=getattr(b,'pow10',None)
            if a.val=={} and kind in('add','sub'): return IntV(padd(a.val,b.val,1 if kind=='add' else -1),b.dim)
            if b.val=={} and kind in('add','sub'): return IntV(a.val,a.dim)
            if not prove_eq(s.facts,a.dim,b.dim):
                # adding zero-valued int is fine
                if not self.fail('DIM mismatch in int %s at line %d: %s vs %s facts=%s'%(what,t['loc']['line'],show(a.dim),show(b.dim),[(f[0],show(f[1]),show(f[2])) for f in s.facts]),'eq',a.dim,b.dim):
                    return None
                s.facts.append(('eq',a.dim,b.dim))    # assumed from here on: it is now the callers' obligation
            if kind=='rem' and a.val==sym('|x1|') and b.val==sym('|x2|'):
                return IntV(sym('remabs(a,b)'),a.dim)      # |a| mod |b|: the magnitude of the truncated remainder; its sign is reattached by from_biguint
            if kind=='rem': return IntV({(('rem(a,b)',1),):Fraction(1)} if (a.val==sym('x1') and b.val==sym('x2')) else {(('rem?',1),):Fraction(1)},a.dim)
            return IntV(padd(a.val,b.val,1 if kind=='add' else -1),a.dim)
        if kind=='mul':
            return IntV(red(pmul(a.val,b.val)),('add',a.dim,b.dim) if b.dim!=TERM0 else a.dim) if a.dim!=TERM0 or b.dim==TERM0 else IntV(red(pmul(a.val,b.val)),b.dim)
    def call(self,s,t):
        cal=t['callee']; dest=t['dest']; v=UNK
        if 'def' not in cal: self.write(s,dest,v); return
        d=cal['def']; res=cal['resolved'] or d; tr=cal.get('trait','')
        raw=[self.op(s,a) for a in t['args']]; args=[self.deref(s,x) for x in raw]
        line=t['loc']['line']
        def T(i): return args[i] if i<len(args) and isterm(args[i]) else None
        if re.search(r'cmp::Ord::cmp$',d) and T(0) and T(1): v=('ord',T(0),T(1))
        elif re.search(r'convert::From::from$|convert::Into::into$',d) and BIG.search(dest['ty']) and args and isinstance(args[0],tuple) and args[0] and args[0][0]=='int':
            v=IntV(P(args[0][1]),TERM0)
        elif re.search(r'cmp::max$|cmp::Ord::max$',d) and T(0) and T(1): v=('max',T(0),T(1))
        elif re.search(r'cmp::min$|cmp::Ord::min$',d) and T(0) and T(1): v=('min',T(0),T(1))
        elif re.search(r'saturating_sub$',d) and T(0) and T(1):
            v=('satsub',T(0),T(1),'u') if re.search(r'impl u(8|16|32|64|128|size)>::saturating_sub$',(res or '')+'|'+d.replace('|','')) or re.search(r'impl u(8|16|32|64|128|size)>::saturating_sub',res or d) else ('satsub',T(0),T(1))
        elif re.search(r'arithmetic::diff$',d) and T(0) and T(1): v=('tuple',[('ord',T(0),T(1)),('absdiff',T(0),T(1))])
        elif re.search(r'NonZero(::<[^>]*>)?::get$',d) and args and isterm(args[0]): v=args[0]
        elif re.search(r'ops::Deref::deref$|ops::DerefMut::deref_mut$|convert::AsRef::as_ref$|borrow::Borrow::borrow$',d) and raw and isinstance(args[0],(IntV,Rec)): v=raw[0]
        elif re.search(r'ops::Neg::neg$',d) and args and isterm(args[0]): v=('sub',TERM0,args[0])
        elif re.search(r'Cow::to_mut$|Cow<.*>::to_mut$|borrow::Cow.*::to_mut$',d) and args: v=raw[0] if isinstance(self.deref(s,raw[0]),IntV) else args[0]
        elif re.search(r'multiply_by_ten_to_the_uint$',res) and len(args)==2 and isinstance(args[0],IntV) and isterm(args[1]):
            k=args[1]
            if not prove_le(s.facts,TERM0,k):
                if self.fail('POW10 exponent not provably >=0 at line %d: %s'%(line,show(k)),'le',TERM0,k): s.facts.append(('le',TERM0,k))
            args[0].dim=('add',args[0].dim,k); v=('int',0)
        elif self.kind=='dims' and tr in('std::ops::Mul','std::ops::MulAssign') and len(args)==2 and isinstance(args[0],IntV) and isinstance(args[1],tuple) and args[1] and args[1][0]=='int' and args[1][1] in(10,100,1000):
            # dimension bookkeeping: multiplying the integer by 10^k while it keeps denoting the same quantity raises its power of ten by k
            k={10:1,100:2,1000:3}[args[1][1]]
            if tr.endswith('Assign'): args[0].dim=('add',args[0].dim,('int',k)); v=('int',0)
            else: v=IntV(args[0].val if not isinstance(args[0].val,dict) else 'lossy',('add',args[0].dim,('int',k)))
        elif self.kind=='dims' and tr=='std::ops::Neg' and args and isinstance(args[0],Rec): v=args[0]      # negation does not move the decimal point
        elif self.kind=='dims' and res==self.fn.name:
            u=('unk','rec@%d'%line); v=Rec(u,IntV('lossy',u),None,None,'rec@%d'%line)       # the function's own contract, assumed at recursive calls
        elif re.search(r'Roots::(nth_root|sqrt|cbrt)$|BigU?int::(nth_root|sqrt|cbrt)$',d) and args and isinstance(args[0],IntV):
            n_=3 if d.endswith('cbrt') else 2 if d.endswith('sqrt') else (args[1][1] if len(args)>1 and isinstance(args[1],tuple) and args[1][0]=='int' else None)
            v=IntV('lossy',('mulc',args[0].dim,Fraction(1,n_)) if n_ else ('unk','root@%d'%line)); self.lossy_seen.append(line)
        elif re.search(r'Integer::div_rem$',d) and len(args)==2 and isinstance(args[0],IntV) and isinstance(args[1],IntV) and self.kind!='dims' and isinstance(args[0].val,dict) and self.single_sym(args[0].val) \
                and isinstance(args[1].val,dict) and set(args[1].val.keys())=={()} and args[1].val[()].denominator==1 and 2<=args[1].val[()]<=10 and args[1].dim==TERM0:
            # a = c*q + r with |r| < c and sign(r) = sign(a): kept symbolic, the remainder's few values are enumerated at the return
            c_=int(args[1].val[()]); qn='q@%d'%line; rn='r@%d'%line
            s.divrems=list(getattr(s,'divrems',[]))+[(self.single_sym(args[0].val),c_,qn,rn)]
            v=('tuple',[IntV(sym(qn),args[0].dim),IntV(sym(rn),args[0].dim)])
        elif re.search(r'Integer::div_rem$',d) and len(args)==2 and isinstance(args[0],IntV) and isinstance(args[1],IntV):
            v=('tuple',[IntV('lossy',('sub',args[0].dim,args[1].dim) if args[1].dim!=TERM0 else args[0].dim),IntV('lossy',args[0].dim)]); self.lossy_seen.append(line)
        elif re.search(r'count_decimal_digits(_uint)?$|BigDecimal::digits$|BigDecimalRef(::<.*>)?::count_digits$',res): v=('unk','digits@%d'%line); s.facts.append(('le',('int',1),v))
        elif re.search(r'(core|std)::num::.*::pow$',d) and len(args)==2 and args[0]==('int',10) and isterm(args[1]):
            v=IntV(P(1),args[1]); v.pow10=True
        elif re.search(r'Integer::div_rem$',d) and len(args)==2 and isterm(args[0]) and isinstance(args[1],tuple) and args[1] and args[1][0]=='int' and args[1][1]>0:
            q=('unk','q@%d'%line); r_=('unk','r@%d'%line); c=args[1][1]
            s.facts.append(('eq',args[0],('add',('mulc',q,c),r_)))
            aty=(t['args'][0].get('pl',{}).get('ty') or '').lstrip('&')
            if aty.startswith('i'):
                s.facts.append(('le',('int',-(c-1)),r_)); s.facts.append(('le',r_,('int',c-1)))     # truncated division: |r| < c, sign of the dividend
            else:
                s.facts.append(('le',TERM0,q)); s.facts.append(('le',TERM0,r_)); s.facts.append(('le',r_,('int',c-1)))
            v=('tuple',[q,r_])
        elif re.search(r'arithmetic::ten_to_the(_uint|_u64)?$',res):
            k=T(0)
            if k is None or not prove_le(s.facts,TERM0,k):
                if self.fail('POW10 exponent not provably >=0 at line %d: %s'%(line,show(k) if k else '?'),'le',TERM0,k): s.facts.append(('le',TERM0,k))
            if res.endswith('ten_to_the_u64') and k is not None and not prove_le(s.facts,k,('int',19)):
                # 10^k must fit u64: the helper's summary 10^k holds only for k < 20
                if self.fail('POW10 u64 fast path: exponent %s not provably < 20 at line %d (10^20 does not fit u64)'%(show(k),line),'le',k,('int',19)): s.facts.append(('le',k,('int',19)))
            v=IntV(P(1),k if k else ('unk','pow')); v.pow10=True
        elif re.search(r'BigDecimal::take_and_scale$|BigDecimal::with_scale$|to_owned_with_scale$',res):
            r=args[0]; Tt=T(1)
            if isinstance(r,Rec) and Tt is not None:
                if not prove_le(s.facts,r.scale,Tt):
                    if self.fail('RESCALE not provably upward at line %d: %s <= %s'%(line,show(r.scale),show(Tt)),'le',r.scale,Tt): s.facts.append(('le',r.scale,Tt))
                val=self.recval(s,r)
                v=Rec(Tt,None,val if isinstance(val,dict) else None,None,'rescaled@%d'%line)
                if isinstance(val,dict): v.ival=IntV(val,Tt)
        elif self.kind=='scale-only' and re.search(r'BigDecimal::with_scale_round$',res):
            # summary established by the scale-only typing of with_scale_round itself: a (rounded) value labelled with the requested scale
            Tt=T(1)
            v=Rec(Tt if Tt is not None else ('unk','wsr@%d'%line),IntV('lossy',Tt) if Tt is not None else None,None,None,'rounded@%d'%line)
        elif self.kind and self.kind.startswith('rounded-') and re.search(r'BigDecimal::with_precision_round$|BigDecimal::with_scale_round$',res):
            r=args[0]
            val=self.recval(s,r) if isinstance(r,Rec) else None
            a=self.argreal(1+self.off); b=self.argreal(2+self.off) if self.fn.argc>=2+self.off else None
            sp=specval(self.kind[len('rounded-'):],a,b)
            if isinstance(val,dict):
                for k_,v_ in s.subst.items(): sp=psub_sym(sp,k_,v_); val=psub_sym(val,k_,v_)
                if red(sp)!=red(val): self.viol.append('ROUNDED VALUE: the value handed to the rounding routine at line %d is %s, not the exact %s'%(line,pshow(red(val)),pshow(red(sp))))
                else: self.rounded_ok=getattr(self,'rounded_ok',0)+1
            else:
                self.undec.append('value handed to the rounding routine at line %d is not tracked'%line)
            v=Rec(('unk','rounded@%d'%line),None,None,None,'rounded')
        elif re.search(r'BigDecimal::set_scale$',res):
            r=args[0]; Tt=T(1)
            if isinstance(r,Rec) and Tt is not None:
                up=prove_le(s.facts,r.scale,Tt)
                if not up and self.kind!='scale-only':
                    if self.fail('RESCALE not provably upward at line %d: %s <= %s'%(line,show(r.scale),show(Tt)),'le',r.scale,Tt): s.facts.append(('le',r.scale,Tt)); up=True
                val=self.recval(s,r)
                r.scale=Tt
                r.ival=IntV(val if up else 'lossy',Tt) if (isinstance(val,dict) or not up) else None
                if not isinstance(val,dict) or not up: r.val=None
            v=('int',0)
        elif re.search(r'BigDecimal::extend_scale_to$',res):
            r=args[0]; Tt=T(1)
            if isinstance(r,Rec) and Tt is not None:
                val=self.recval(s,r); ns=('max',r.scale,Tt); r.scale=ns
                r.ival=IntV(val,ns) if isinstance(val,dict) else None
        elif re.search(r'BigDecimal::new$|BigDecimal::from_bigint$',res):
            iv=args[0]; Tt=T(1)
            v=Rec(Tt if Tt is not None else ('unk','new'), iv if isinstance(iv,IntV) else None,None,None,'new@%d'%line)
        elif re.search(r'BigInt::from_biguint$',res):
            sg=args[0]; mag=args[1]
            if isinstance(mag,IntV) and (not isinstance(mag.val,dict) or self.kind=='dims'):
                v=IntV(mag.val,mag.dim)      # dimension bookkeeping only: the sign does not change the dimension
            elif isinstance(mag,IntV) and mag.val==sym('remabs(a,b)'):
                # truncated remainder = sign(dividend) * (|a| mod |b|) (zero when the magnitude is zero, whatever the sign says)
                v=IntV(sym('rem(a,b)') if sg==('signof','x1') else sym('rem?'),mag.dim)
            elif isinstance(mag,IntV):
                if isinstance(sg,tuple) and sg and sg[0]=='signv': v=IntV(red(pmul(sg[1],mag.val)),mag.dim)
                elif isinstance(sg,tuple) and sg and sg[0]=='const' and 'Plus' in str(sg[1]): v=IntV(mag.val,mag.dim)
        elif re.search(r'BigDecimal::sign$|BigInt::sign$',res) and args and isinstance(args[0],(Rec,IntV)) and self.single_sym(self.recval(s,args[0]) if isinstance(args[0],Rec) else args[0].val):
            v=('signof',self.single_sym(self.recval(s,args[0]) if isinstance(args[0],Rec) else args[0].val))
        elif re.search(r'BigDecimalRef::<.*>::sign$|BigDecimalRef::sign$',res):
            r=args[0]; v=('signv',r.sign) if isinstance(r,Rec) and r.sign is not None else UNK
        elif tr in ('std::ops::Div','std::ops::DivAssign') and len(args)==2 and isinstance(args[0],IntV) and (isinstance(args[1],IntV) or (isinstance(args[1],tuple) and args[1] and args[1][0]=='int')):
            a0=args[0]; b0=args[1] if isinstance(args[1],IntV) else IntV(P(args[1][1]),TERM0)
            sn=self.single_sym(a0.val) if isinstance(a0.val,dict) else None
            if b0.val==P(2) and b0.dim==TERM0 and isinstance(a0.val,dict) and (a0.val=={} or (sn is not None and sn in getattr(s,'even',set()))):
                r=IntV(pmul({():Fraction(1,2)},a0.val),a0.dim)      # reviewed idiom: exact halving under is_even
            else:
                r=IntV('lossy',('sub',a0.dim,b0.dim) if b0.dim!=TERM0 else a0.dim)
                self.lossy_seen.append(line)
            if tr.endswith('Assign'):
                a0.val,a0.dim=r.val,r.dim; v=('int',0)
            else: v=r
        elif re.search(r'BigInt::magnitude$|BigInt::into_parts$',res) and args and isinstance(args[0],IntV) and res.endswith('magnitude'):
            v=IntV(absval(args[0].val) if isinstance(args[0].val,dict) else args[0].val,args[0].dim)
        elif re.search(r'Signed::abs$|BigInt::abs$',d) and args and isinstance(args[0],IntV):
            v=IntV(absval(args[0].val) if isinstance(args[0].val,dict) else args[0].val,args[0].dim)
        elif re.search(r'Integer::is_even$',d) and args and isinstance(args[0],IntV):
            v=('test','is_even',self.single_sym(args[0].val) if isinstance(args[0].val,dict) else None,None)
        elif re.search(r'Integer::is_odd$',d) and args and isinstance(args[0],IntV):
            v=('test','is_odd',self.single_sym(args[0].val) if isinstance(args[0].val,dict) else None,None)
        elif tr in ('std::ops::AddAssign','std::ops::Add','std::ops::SubAssign','std::ops::Sub') and len(args)==2 and isinstance(args[0],IntV) and args[0].val=='lossy' and not isinstance(args[1],(IntV,Rec)):
            v=('int',0) if tr.endswith('Assign') else args[0]      # +/- a small unit in the last place of an already inexact integer
        elif tr in OPS and len(args)==2 and any(isinstance(x,IntV) for x in args[:2]) and all(isinstance(x,IntV) or (isinstance(x,tuple) and x and x[0]=='int') for x in args[:2]):
            # big integer (op) primitive literal
            kind=OPS[tr]
            big=[x for x in args[:2] if isinstance(x,IntV)][0]
            # a literal added to / subtracted from a big integer counts units of that integer's last place
            args=[x if isinstance(x,IntV) else IntV(P(x[1]),big.dim if kind in('add','sub') else TERM0) for x in args[:2]]
            r=self.intop(s,t,kind,args[0],args[1],d.split('::')[-1])
            if tr.endswith('Assign'):
                tgt=args[0]
                if r is not None: tgt.val,tgt.dim=r.val,r.dim
                else: tgt.val=None
                v=('int',0)
            else: v=r if r is not None else UNK
        elif tr in OPS and len(args)>=1 and all(isinstance(x,IntV) for x in args[:2]) and (len(args)==1 or True):
            kind=OPS[tr]
            if kind=='neg': v=IntV(padd({},args[0].val,-1),args[0].dim)
            else:
                r=self.intop(s,t,kind,args[0],args[1],d.split('::')[-1])
                if tr.endswith('Assign'):
                    tgt=args[0]
                    if r is not None: tgt.val,tgt.dim=r.val,r.dim
                    else: tgt.val=None
                    v=('int',0)
                else: v=r if r is not None else UNK
        elif (tr in OPS and any(isinstance(x,Rec) for x in args)) or re.search(r'addition::(add_bigdecimals|add_bigdecimal_refs|add_aligned_bigdecimals|add_aligned_bigdecimal_ref_ref|add_unaligned_bigdecimal_ref_ref|addassign_bigdecimals|addassign_bigdecimal_ref)$',res):
            # decimal-level op: assume spec; establish the callee's lifted preconditions here
            for rel,pa,pb,text in PRECONDS.get(res,[]):
                mapping={}
                okmap=True
                for i,x in enumerate(args):
                    if isinstance(x,Rec): mapping[('sc','arg%d'%(i+1))]=x.scale
                ia,ib=subst_term(pa,mapping),subst_term(pb,mapping)
                proven = prove_eq(s.facts,ia,ib) if rel=='eq' else prove_le(s.facts,ia,ib)
                if not proven:
                    self.viol.append('PRECONDITION of %s not established at line %d: need %s %s %s (%s) facts=%s'%(res.split('::')[-1],line,show(ia),'==' if rel=='eq' else '<=',show(ib),text.split(' at line')[0],[(f[0],show(f[1]),show(f[2])) for f in s.facts]))
            kind=OPS.get(tr,'add')
            if 'addassign' in res: tr='std::ops::AddAssign'
            vals=[]
            for x in args[:2]:
                if isinstance(x,Rec): vals.append(self.recval(s,x))
                elif isinstance(x,IntV): vals.append(x.val if prove_eq(s.facts,x.dim,TERM0) else None)
                else: vals.append(None)
            ok=all(isinstance(x,dict) for x in vals)
            r=specval(kind,vals[0],vals[1] if len(vals)>1 else None) if ok else None
            if r is not None: r=red(r)
            if tr.endswith('Assign'):
                tgt=args[0]
                if isinstance(tgt,Rec):
                    tgt.ival=None; tgt.val=r; tgt.scale=('unk','after-assign@%d'%line)
                v=('int',0)
            else: v=Rec(('unk','op@%d'%line),None,r,None,'op@%d'%line)
        elif re.search(r'Zero::is_zero$|BigDecimalRef::<.*>::is_zero$|WithScale::<.*>::is_zero$',res) or re.search(r'Zero::is_zero$',d):
            x=args[0]
            if isinstance(x,Rec): v=('test','is_zero',getattr(x,'symname',None) if x.val is None or self.single_sym(x.val) or (x.sign is not None) else None,0)
            elif isinstance(x,IntV): v=('test','is_zero',self.single_sym(x.val),0)
        elif re.search(r'Signed::is_(negative|positive)$',d) and args and isinstance(args[0],(Rec,IntV)) and self.single_sym(self.recval(s,args[0]) if isinstance(args[0],Rec) else args[0].val):
            # the sign of a big integer asked for directly instead of through `sign()`
            v=('test','is_negative' if d.endswith('is_negative') else 'is_positive',self.single_sym(self.recval(s,args[0]) if isinstance(args[0],Rec) else args[0].val),0)
        elif re.search(r'One::is_one$',d):
            x=args[0]
            if isinstance(x,Rec): v=('test','is_one',self.single_sym(self.recval(s,x)) if isinstance(self.recval(s,x),dict) else None,1)
            elif isinstance(x,IntV):
                v=('test','is_one',self.single_sym(x.val) if prove_eq(s.facts,x.dim,TERM0) else None,1)
                if v[2] is None and isinstance(x.val,dict) and len(x.val)==1 and prove_eq(s.facts,x.dim,TERM0):
                    (m_,c_),=x.val.items()
                    if len(m_)==1 and m_[0][1]==1 and c_ in (1,-1): v=('test','eqc',m_[0][0],int(1/c_))      # (c*x).is_one()  <=>  x == 1/c
        elif re.search(r'BigDecimal::to_ref$|::to_owned$|clone::Clone::clone$|convert::Into::into$|convert::From::from$|BigDecimal::normalized$|borrow::ToOwned',res) or re.search(r'convert::Into::into$|convert::From::from$|clone::Clone::clone$',d):
            x=args[0] if args else None
            if isinstance(x,Rec):
                val=self.recval(s,x)
                if 'normalized' in res: v=Rec(('unk','norm@%d'%line),None,val if isinstance(val,dict) else None,None,'norm')
                else:
                    dty=dest['ty'].replace("'_ ","")
                    if x.sign is not None and dty=='BigDecimal' and x.ival is not None:
                        v=Rec(x.scale,IntV(red(pmul(x.sign,x.ival.val)),x.ival.dim),None,None,'owned@%d'%line)
                    else:
                        v=Rec(x.scale,IntV(x.ival.val,x.ival.dim) if x.ival is not None else None,x.val,x.sign,'img@%d'%line)
                    if hasattr(x,'symname'): v.symname=x.symname
            elif isinstance(x,IntV):
                if DEC.match(dest['ty'].replace("'_ ","")): v=Rec(TERM0,IntV(x.val,x.dim),None,None,'from@%d'%line)
                else: v=IntV(x.val,x.dim)
        elif re.search(r'ops::Neg::neg$',d):
            x=args[0]
            if isinstance(x,Rec):
                val=self.recval(s,x)
                v=Rec(x.scale,IntV(padd({},x.ival.val,-1) if isinstance(x.ival.val,dict) else x.ival.val,x.ival.dim) if (x.ival is not None and x.sign is None) else (IntV(x.ival.val,x.ival.dim) if x.ival is not None else None),padd({},val,-1) if isinstance(val,dict) else None,padd({},x.sign,-1) if x.sign is not None else None,'neg@%d'%line)
            elif isinstance(x,IntV): v=IntV(padd({},x.val,-1) if isinstance(x.val,dict) else x.val,x.dim)
            elif isinstance(x,tuple) and x and x[0]=='signv': v=('signv',padd({},x[1],-1))
        elif re.search(r'Zero::zero$',d) and BIG.search(dest['ty']): v=IntV({},('unk','anydim')); v.anydim=True
        elif re.search(r'One::one$',d) and BIG.search(dest['ty']): v=IntV(P(1),TERM0)
        elif re.search(r'Zero::zero$',d) and DEC.match(dest['ty']): v=Rec(TERM0,IntV({},TERM0),None,None,'zero')
        elif re.search(r'One::one$',d) and DEC.match(dest['ty']): v=Rec(TERM0,IntV(P(1),TERM0),None,None,'one')
        elif re.search(r'clone::Clone::clone_from$',d) and len(args)==2:
            dst,src=args[0],args[1]
            if isinstance(dst,IntV) and isinstance(src,IntV): dst.val,dst.dim=src.val,src.dim; dst.__dict__.pop('anydim',None)
            elif isinstance(dst,Rec) and isinstance(src,Rec): dst.__dict__.update({k_:v_ for k_,v_ in src.__dict__.items()})
            v=('int',0)
        elif re.search(r'Zero::set_zero$',d):
            x=args[0]
            if isinstance(x,IntV): x.val={}; x.dim=('unk','anydim'); x.anydim=True
        elif re.search(r'mem::replace$',d) and len(args)==2:
            # returns the old content, stores the new one
            a,b=args[0],args[1]
            if isinstance(a,IntV):
                v=IntV(a.val,a.dim)
                if isinstance(b,IntV): a.val,a.dim=b.val,b.dim; a.__dict__.pop('anydim',None); a.__dict__.update({k_:v_ for k_,v_ in b.__dict__.items() if k_=='anydim'})
                else: a.val=None
            elif isinstance(a,Rec):
                v=Rec(a.scale,IntV(a.ival.val,a.ival.dim) if a.ival is not None else None,a.val,a.sign,'replaced@%d'%line)
                if isinstance(b,Rec): a.__dict__.update({k_:v_ for k_,v_ in b.__dict__.items()})
                else: a.ival=None; a.val=None; a.scale=('unk','replaced@%d'%line)
        elif re.search(r'mem::take$',d) and len(args)==1:
            a=args[0]
            if isinstance(a,IntV):
                v=IntV(a.val,a.dim); a.val={}; a.dim=('unk','anydim'); a.anydim=True
            elif isinstance(a,Rec):
                v=Rec(a.scale,IntV(a.ival.val,a.ival.dim) if a.ival is not None else None,a.val,a.sign,'taken@%d'%line)
                a.scale=TERM0; a.ival=IntV({},TERM0); a.val=None; a.sign=None
        elif re.search(r'::wrapping_neg$|::checked_neg$',d) and len(args)==1 and isinstance(args[0],IntV) and re.search(r'impl i(8|16|32|64|128|size)>::',res or d):
            # two's-complement negation of a signed primitive: -x except at MIN, where it is MIN again (|MIN| is no power-of-ten shortcut value)
            v=IntV(padd({},args[0].val,-1) if isinstance(args[0].val,dict) else args[0].val,args[0].dim)
        elif re.search(r'mem::swap$',d):
            a,b=args[0],args[1]
            if isinstance(a,IntV) and isinstance(b,IntV): a.val,b.val=b.val,a.val; a.dim,b.dim=b.dim,a.dim
        elif re.search(r'bits$',d): v=UNK
        elif LOSSY_BIGINT.search(d) and any(isinstance(x,IntV) for x in args):
            # a big-integer operation that is not value-exact (modular, root, shift, quotient...) applied to operand-derived integers
            v=IntV('lossy',('unk','lossy@%d'%line)); self.lossy_seen.append(line)
            if BIG.search(dest['ty']) is None and not dest['ty'].startswith('('): v=UNK
        self.write(s,dest,v)
def kernels(F):
    out = []
    for f in F.real_fns():
        if f.is_closure:
            continue
        tr = f.trait
        if tr in OPS:
            out.append((f, OPS[tr]))
        elif re.search(r'^arithmetic::addition::add', f.name):
            out.append((f, 'add'))
    return out


def analyse(fn, kind, lift=False, arg_offset=0, scale_params=(), int_dims=None):
    """returns ('ok'|'violation'|'undecided', [messages], paths); with lift=True obligations over the
    function's own parameter scales are recorded in PRECONDS[fn.name] instead of failing"""
    a = An(fn, kind, lift, arg_offset, scale_params, int_dims)
    try:
        for _attempt in range(8):
            try:
                a.run(); break
            except LoopRetry:
                ex=a.loop_exclude
                a = An(fn, kind, lift, arg_offset, scale_params, int_dims); a.loop_exclude=ex
    except RecursionError:
        a.undec.append('recursion limit')
    except Exception as e:     # an unmodelled construct makes the function undecided, never violated
        import traceback
        a.undec.append('unmodelled construct: %r at %s' % (e, traceback.format_exc().splitlines()[-3].strip()))
    if lift:
        PRECONDS[fn.name] = a.lifted
    analyse.last = a
    if a.viol:
        return 'violation', a.viol, a.paths
    if a.undec:
        return 'undecided', a.undec, a.paths
    if a.ok == 0:
        return 'undecided', ['no path reaches Return'], a.paths
    return 'ok', [], a.paths
