"""ZIP-LENGTH: an element-wise comparison through `zip` decides equality only between sequences of equal length.

`a.iter().zip(b.iter()).all(|(x, y)| x == y)` stops at the shorter sequence: two digit strings of different length that agree
on the common prefix are judged equal.  Every `Iterator::zip` in the analysed functions must therefore be dominated by a test
that establishes len(A) == len(B) for the two sequences it walks (`!=` -> leave, `==` -> stay; an ordering test `>` or `<`
leaves one direction open).

MIR: the two zip operands are traced through iter()/deref/borrows/copies to their base locals; the dominating switches are
searched for an Eq/Ne between two `len` calls on those bases."""
import re
from facts import cdef, cres
from dataflow import Defs, op_local

IDENT = re.compile(r'slice::<impl \[[^\]]*\]>::iter$|::iter$|::iter_mut$|::into_iter$|ops::Deref::deref$|ops::DerefMut::deref_mut$|Vec::<[^>]*>::as_slice$|::as_slice$|convert::AsRef::as_ref$|borrow::Borrow::borrow$|clone::Clone::clone$|Iterator::rev$|Iterator::copied$|Iterator::cloned$|IntoIterator::into_iter$')
LEN = re.compile(r'::len$')


def base_local(fn, defs, l, depth=12):
    """follow copies, borrows, derefs and identity calls back to the local that owns the sequence"""
    seen = set()
    while l is not None and l not in seen and depth > 0:
        seen.add(l)
        depth -= 1
        ds = defs.defs.get(l, [])
        if len(ds) != 1:
            return l
        d = ds[0]
        if d[0] == 'assign':
            rv = d[2]['rv']
            if rv['r'] == 'ref':
                if any(isinstance(p, dict) for p in rv['pl']['p']):
                    return (rv['pl']['l'], tuple(str(p) for p in rv['pl']['p']))
                l = rv['pl']['l']
                continue
            if rv['r'] == 'use' and rv['op']['k'] in ('copy', 'move'):
                if any(isinstance(p, dict) for p in rv['op']['pl']['p']):
                    return (rv['op']['pl']['l'], tuple(str(p) for p in rv['op']['pl']['p']))
                l = rv['op']['pl']['l']
                continue
            return l
        if d[0] == 'call':
            t = d[2]
            if (IDENT.search(cdef(t) or '') or IDENT.search(cres(t) or '')) and t['args'] and t['args'][0]['k'] in ('copy', 'move'):
                l = t['args'][0]['pl']['l']
                continue
            return l
        return l
    return l


def check(rep, F, names, rule='ZIP-LENGTH'):
    n = 0
    for nme in sorted(names):
        fn = F.fns[nme]
        zips = [(b, t) for b, t in fn.calls() if re.search(r'Iterator::zip$', cdef(t) or '') and len(t['args']) == 2]
        if not zips:
            continue
        defs = Defs(fn)
        dom = fn.dominators()
        for i, (bid, t) in enumerate(zips):
            n += 1
            key = '%s:zip#%d:equal-lengths-established' % (fn.key, i)
            bases = []
            for a in t['args']:
                l = op_local(a)
                bases.append(base_local(fn, defs, l) if l is not None else None)
            if None in bases or bases[0] == bases[1]:
                rep.undecided(rule, key, 'the two sequences of the zip are not two distinct locals', fn.where(t['loc']['line']))
                continue
            verdict = None
            weak = None
            for d in sorted(dom.get(bid, ())):
                if d == bid:
                    continue
                sw = fn.blocks[d]['term']
                if sw['t'] != 'switch':
                    continue
                edges = [(v, tg) for v, tg in sw['targets']] + [('otherwise', sw['otherwise'])]
                taken = [v for v, tg in edges if tg in dom[bid] and tg != d]
                if len(taken) != 1 or len({tg for _, tg in edges}) < 2:
                    continue
                l0 = op_local(sw['on'])
                ds = defs.defs.get(l0, []) if l0 is not None else []
                if len(ds) != 1 or ds[0][0] != 'assign' or ds[0][2]['rv']['r'] != 'bin':
                    continue
                rv = ds[0][2]['rv']
                sides = []
                for o in (rv['a'], rv['b']):
                    lo = op_local(o)
                    dd = defs.defs.get(lo, []) if lo is not None else []
                    # through a copy of the length
                    hops = 0
                    while len(dd) == 1 and dd[0][0] == 'assign' and dd[0][2]['rv']['r'] == 'use' and dd[0][2]['rv']['op']['k'] in ('copy', 'move') and hops < 4:
                        hops += 1
                        dd = defs.defs.get(dd[0][2]['rv']['op']['pl']['l'], [])
                    if len(dd) == 1 and dd[0][0] == 'call' and LEN.search(cdef(dd[0][2]) or '') and dd[0][2]['args'] and op_local(dd[0][2]['args'][0]) is not None:
                        sides.append(base_local(fn, defs, op_local(dd[0][2]['args'][0])))
                    else:
                        sides.append(None)
                if None in sides or set(map(str, sides)) != set(map(str, bases)):
                    continue
                truth = taken[0] != '0'
                op = rv['bop']
                if (op == 'Ne' and not truth) or (op == 'Eq' and truth):
                    verdict = 'ok'
                elif op in ('Gt', 'Lt', 'Ge', 'Le', 'Ne', 'Eq'):
                    weak = '%s on the %s edge' % (op, 'true' if truth else 'false')
            if verdict == 'ok':
                rep.ok(rule, key, 'the element-wise comparison is dominated by a test that the two lengths are equal', fn.where(t['loc']['line']))
            elif weak:
                rep.violation(rule, key, 'the two lengths are only compared with %s before the element-wise zip comparison: a sequence that is a proper prefix of the other passes, so digit strings of different length are judged equal' % weak, fn.where(t['loc']['line']))
            else:
                rep.violation(rule, key, 'zip stops at the shorter sequence and no dominating test establishes equal lengths: digit strings of different length sharing a prefix are judged equal', fn.where(t['loc']['line']))
    return n
