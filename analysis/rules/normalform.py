"""NORMAL-FORM: the shape of BigDecimal::normalized (canonical form clause of C18).

The non-zero result must be built from the radix-10 digits of the receiver with k digits removed at the
least-significant end and the scale reduced by the same k, where k is the count of *trailing* zero digits:
    int = from_radix_XX(sign, digits.truncate(len - k), 10)        scale = self.scale - k
    k   = digits.iter().rev().take_while(|d| d == 0).count()       (big-endian digits; no `rev` for little-endian)
Removing k digits without lowering the scale by k (or by another count) changes the value; counting from the
wrong end strips nothing or the wrong digits.  The zero receiver must give zero().  A path that returns the
receiver itself (a fast path) is outside the table and reported as undecided, never as a violation.
Decides the bookkeeping between the strip and the scale; does not decide num-bigint's radix conversion."""
import re
from rules import table as TB
from rules.table import Undecided


def _is(t, kind):
    return isinstance(t, tuple) and t and t[0] == kind


def _call(t, pat):
    return _is(t, 'call') and re.search(pat, TB._plain(t[1])) is not None


def _strip(t):
    while _is(t, 'ref') or _is(t, 'cast') or (_is(t, 'call') and re.search(r'Deref::deref$|Vec::as_slice$|AsRef::as_ref$|clone::Clone::clone$', TB._plain(t[1]))):
        t = t[1] if t[0] in ('ref', 'cast') else t[2][0]
    return t


def _tz_count(F, t):
    """-> (digits term, endianness the count is 'trailing' for, closure ok?) or None"""
    t = _strip(t)
    if not _call(t, r'Iterator::count$'):
        return None
    tw = _strip(t[2][0])
    if not _call(tw, r'Iterator::take_while$'):
        return None
    it, clo = _strip(tw[2][0]), tw[2][1]
    rev = False
    if _call(it, r'Iterator::rev$'):
        rev = True
        it = _strip(it[2][0])
    if not _call(it, r'slice::iter$|Vec::iter$|IntoIterator::into_iter$'):
        return None
    digits = _strip(it[2][0])
    pred_ok = None
    if _is(clo, 'closure') and clo[1] in F.fns:
        try:
            ps = TB.PathEnum(F, F.fns[clo[1]], max_paths=4).run()
            if len(ps) == 1:
                s = TB.show(TB.strip_refs(ps[0][1]))
                pred_ok = s in ('Eq(arg2,0)', 'Eq(0,arg2)', 'is_zero(arg2)')
        except Undecided:
            pass
    elif _is(clo, 'const') and 'is_zero' in str(clo[1]):
        pred_ok = True
    return digits, ('be' if rev else 'le'), pred_ok


def _limb_moduli(s):
    """constant moduli m of every Rem(x, m) in the term string whose x mentions a single-limb view of a big integer"""
    out = []
    for mm in re.finditer(r'Rem\(', s):
        depth, k, split = 1, mm.end(), None
        while k < len(s) and depth:
            c = s[k]
            if c == '(':
                depth += 1
            elif c == ')':
                depth -= 1
            elif c == ',' and depth == 1:
                split = k
            k += 1
        if split is None:
            continue
        x, m_ = s[mm.end():split], s[split + 1:k - 1]
        if re.search(r'iter_u(32|64)_digits|to_u(32|64)_digits', x) and re.match(r'^\d+$', m_):
            out.append(int(m_))
    return out


def check(rep, F, rule='NORMAL-FORM'):
    fn = F.fns.get('BigDecimal::normalized')
    if fn is None:
        rep.violation(rule, 'BigDecimal::normalized:missing', 'anchor function not found (fail closed)')
        return 0
    rep.add_functions([fn.name])
    try:
        paths = TB.PathEnum(F, fn, max_paths=32).run()
    except Undecided as e:
        rep.undecided_anchor(rule, fn.key + ':shape', str(e), fn.where())
        return 0
    n = 0
    for atoms, out in paths:
        strs = [(TB.show(TB.strip_refs(a[0])), a[1]) for a in atoms]
        zero_cond = [c for s, c in strs if re.match(r'^(Eq\(arg1,zero\(\)\)|Eq\(zero\(\),arg1\)|is_zero\(arg1(\.int_val)?\))$', s)]
        is_zero_path = any(c != ('eq', 0) for c in zero_cond)
        o = _strip(out)
        if is_zero_path:
            n += 1
            key = fn.key + ':zero'
            if _call(o, r'Zero::zero$') or TB.show(o) in ('zero()',):
                rep.ok(rule, key, 'zero receiver gives zero() (0 with scale 0)', fn.where())
            else:
                rep.violation(rule, key, 'a zero receiver must normalise to zero(); this path returns %s' % TB.show(o)[:80], fn.where())
            continue
        extra = [s for s, c in strs if not re.match(r'^(Eq\(arg1,zero\(\)\)|Eq\(zero\(\),arg1\)|is_zero\(arg1(\.int_val)?\))$', s)]
        key = fn.key + ':strip' + ('[%s]' % ';'.join(e[:30] for e in extra) if extra else '')
        if not _call(o, r'BigDecimal::new$|BigDecimal::from_bigint$') or len(o[2]) != 2:
            # fast path returning something else (typically the receiver).  One guard shape is refutable on sight:
            # a single base-2^32/2^64 limb taken modulo m determines the value modulo m only when m divides the limb base
            limb = [(e, m_) for e in extra for m_ in _limb_moduli(e)]
            single = any(re.search(r'\bbits\(|to_u64\(|to_u128\(|to_u32\(', e) for e in extra)
            odd = [(e, m_) for e, m_ in limb if m_ > 1 and (m_ & (m_ - 1)) != 0]
            if odd and not single:
                n += 1
                rep.violation(rule, fn.key + ':fast-path-limb-mod', 'a fast path is guarded by one machine-word limb modulo %d: that equals the value modulo %d only if %d divided 2^64, so the last decimal digit of a multi-word integer is not what is tested (%s)' % (odd[0][1], odd[0][1], odd[0][1], odd[0][0][:80]), fn.where())
                continue
            rep.undecided(rule, key, 'return outside the table (not constructed from stripped digits): %s' % TB.show(o)[:80], fn.where())
            continue
        n += 1
        iv, sc = _strip(o[2][0]), o[2][1]
        if _call(iv, r'Option::unwrap$|Option::expect$|Option::unwrap_or'):
            iv = _strip(iv[2][0])
        m = re.search(r'from_radix_(be|le)$', TB._plain(iv[1])) if _is(iv, 'call') else None
        if not m or len(iv[2]) != 3:
            rep.undecided(rule, key, 'integer not rebuilt by from_radix_*: %s' % TB.show(iv)[:80], fn.where())
            continue
        endian = m.group(1)
        sign_t, dig_t, radix_t = _strip(iv[2][0]), _strip(iv[2][1]), iv[2][2]
        if _call(dig_t, r'Index::index$') and len(dig_t[2]) == 2 and _is(_strip(dig_t[2][1]), 'adt') and _strip(dig_t[2][1])[2] == 'RangeTo':
            # the kept digits handed over as a sub-slice `&digits[..len - k]` instead of truncating in place
            dig_t = ('mutated', dig_t[2][0], 'std::vec::Vec::truncate', (_strip(dig_t[2][1])[3][0],))
        if not (_is(dig_t, 'mutated') and re.search(r'Vec::truncate$', TB._plain(dig_t[2]))):
            if _is(sc, 'bin') or not _is(dig_t, 'mutated'):
                rep.violation(rule, key, 'the digits handed to from_radix_%s are not truncated although the scale is changed (or no strip happens at all): %s' % (endian, TB.show(dig_t)[:80]), fn.where())
            else:
                rep.undecided(rule, key, 'digit vector shape not recognised: %s' % TB.show(dig_t)[:80], fn.where())
            continue
        src_digits = _strip(dig_t[1])
        trunc_to = dig_t[3][0]
        srcm = re.search(r'to_radix_(be|le)$', TB._plain(src_digits[1][1])) if _is(src_digits, 'field') and _is(src_digits[1], 'call') else None
        problems = []
        if not srcm:
            rep.undecided(rule, key, 'digits not produced by to_radix_*: %s' % TB.show(src_digits)[:80], fn.where())
            continue
        if srcm.group(1) != endian:
            problems.append('digits produced by to_radix_%s are read back with from_radix_%s' % (srcm.group(1), endian))
        r1 = src_digits[1][2][1] if len(src_digits[1][2]) > 1 else None
        if r1 != ('const', 10) or radix_t != ('const', 10):
            problems.append('radix is not 10 on both conversions (%s / %s)' % (TB.show(r1), TB.show(radix_t)))
        if not (_is(trunc_to, 'bin') and trunc_to[1] == 'Sub' and _call(_strip(trunc_to[2]), r'Vec::len$|slice::len$')):
            rep.undecided(rule, key, 'truncation length not of the form len - k: %s' % TB.show(trunc_to)[:80], fn.where())
            continue
        k1 = _strip(trunc_to[3])
        tz = _tz_count(F, k1)
        if tz is None:
            rep.undecided(rule, key, 'strip count not recognised: %s' % TB.show(k1)[:80], fn.where())
            continue
        if endian != 'be':
            problems.append('Vec::truncate removes the tail of the vector, which holds the least significant digits only for big-endian digits')
        if tz[1] != endian:
            problems.append('the zero count runs from the %s end of %s-endian digits: it counts leading, not trailing, zeros' % ('front' if tz[1] == 'le' else 'back', endian))
        if tz[2] is False:
            problems.append('the counting predicate is not `digit == 0`')
        if _strip(tz[0]) != src_digits:
            problems.append('zeros are counted on a different digit vector than the one truncated')
        if not (_is(sc, 'bin') and sc[1] == 'Sub' and _strip(sc[2]) == ('field', ('param', 1), 'scale')):
            problems.append('scale is %s, not self.scale - k' % TB.show(sc)[:60])
        elif _strip(sc[3]) != k1:
            problems.append('the scale is lowered by %s but %s digits are removed' % (TB.show(_strip(sc[3]))[:50], TB.show(k1)[:50]))
        if _strip(sign_t) != ('field', src_digits[1], '0'):
            problems.append('sign is not the one returned by to_radix_%s' % endian)
        if problems:
            rep.violation(rule, key, '; '.join(problems), fn.where())
        elif tz[2] is None:
            rep.undecided(rule, key, 'zero predicate not recognised', fn.where())
        else:
            rep.ok(rule, key, 'k trailing zero digits removed (truncate to len - k) and scale = self.scale - k with the same k; radix 10 both ways; sign carried over', fn.where())
    return n
