"""BITFIELD: bit-provenance dataflow for the IEEE-754 field extraction of the float -> decimal routines.

Abstract domain (a "known bits" lattice with provenance): every unsigned value derived from `f.to_bits()` is a
vector of W entries, each one of   0 | 1 | ('b', i) = bit i of the float's representation | None = unknown,
plus an integer offset for the signed affine step `exp as i64 - bias - mantissa_bits`.
Transfer functions are those of the bitwise operators with constant operands; `+` is a bitwise OR when no position
has two possibly-set bits (no carries), `x - y` clears y's bits when every bit of y is the same entry as the bit of x
at that position (no borrows); anything else is unknown from the first doubtful position upward.
Nothing is executed: the domain has no concrete float in it, the result is a per-bit statement valid for all inputs.

Obligations (the IEEE-754 binary32/binary64 layout is the oracle: W, mantissa bits M, exponent bits E, bias):
  split_fNN_into_parts   frac = bits[0..M) with bit M set;  pow = bits[M..M+E) - (bias + M);  sign tested on bit W-1 only,
                         cleared bit -> Plus
  parse_from_fNN_subnormal  magnitude = bits with exactly the sign bit cleared;  sign tested on bit W-1 only
  parse_from_fNN         the zero test looks at every bit except the sign
"""
import re
from facts import cres, cdef, op_local, strip_lt
from rules import table as TB

LAYOUT = {32: dict(M=23, E=8, bias=127), 64: dict(M=52, E=11, bias=1023)}
WIDTH = {'u8': 8, 'i8': 8, 'u16': 16, 'i16': 16, 'u32': 32, 'i32': 32, 'u64': 64, 'i64': 64, 'usize': 64, 'isize': 64, 'u128': 128, 'i128': 128}


class BV:
    def __init__(self, bits, off=0):
        self.bits = tuple(bits)
        self.off = off

    @property
    def w(self):
        return len(self.bits)

    def __eq__(self, o):
        return isinstance(o, BV) and self.bits == o.bits and self.off == o.off

    def __hash__(self):
        return hash((self.bits, self.off))

    def sources(self):
        return {e[1] for e in self.bits if isinstance(e, tuple)}

    def show(self):
        out = []
        i = 0
        b = self.bits
        while i < len(b):
            j = i
            if isinstance(b[i], tuple):
                while j + 1 < len(b) and isinstance(b[j + 1], tuple) and b[j + 1][1] == b[j][1] + 1:
                    j += 1
                out.append('[%d..%d]=f[%d..%d]' % (i, j, b[i][1], b[j][1]) if j > i else '[%d]=f[%d]' % (i, b[i][1]))
            elif b[i] == 1:
                out.append('[%d]=1' % i)
            elif b[i] is None:
                while j + 1 < len(b) and b[j + 1] is None:
                    j += 1
                out.append('[%d..%d]=?' % (i, j))
            i = j + 1
        s = ' '.join(out) or '0'
        return s + (' %+d' % self.off if self.off else '')


def const_bv(v, w):
    v &= (1 << w) - 1
    return BV([(v >> i) & 1 for i in range(w)])


def top(w):
    return BV([None] * w)


def b_and(x, y):
    r = []
    for a, b in zip(x.bits, y.bits):
        if a == 0 or b == 0:
            r.append(0)
        elif a == 1:
            r.append(b)
        elif b == 1:
            r.append(a)
        elif a == b and a is not None:
            r.append(a)
        else:
            r.append(None)
    return BV(r)


def b_or(x, y):
    r = []
    for a, b in zip(x.bits, y.bits):
        if a == 1 or b == 1:
            r.append(1)
        elif a == 0:
            r.append(b)
        elif b == 0:
            r.append(a)
        elif a == b and a is not None:
            r.append(a)
        else:
            r.append(None)
    return BV(r)


def b_shl(x, k):
    w = x.w
    if k >= w:
        return const_bv(0, w)
    return BV([0] * k + list(x.bits[:w - k]))


def b_shr(x, k):
    w = x.w
    if k >= w:
        return const_bv(0, w)
    return BV(list(x.bits[k:]) + [0] * k)


def b_add(x, y):
    r = []
    doubt = False
    for a, b in zip(x.bits, y.bits):
        if doubt:
            r.append(None)
        elif a == 0:
            r.append(b)
        elif b == 0:
            r.append(a)
        else:
            doubt = True          # two possibly-set bits: a carry may propagate upward
            r.append(None)
    return BV(r)


def b_sub(x, y):
    r = []
    doubt = False
    for a, b in zip(x.bits, y.bits):
        if doubt:
            r.append(None)
        elif b == 0:
            r.append(a)
        elif a == b and a is not None:
            r.append(0)           # the same bit subtracted from itself: cleared, no borrow
        else:
            doubt = True
            r.append(None)
    return BV(r)


def _lty(fn, l):
    return fn.locals[l] if l is not None and 0 <= l < len(fn.locals) else ''


def width_of(ty):
    return WIDTH.get(strip_lt(ty).lstrip('&'))


class Analysis:
    def __init__(self, F, fn):
        self.F = F
        self.fn = fn
        self.val = {}          # local -> BV | ('ovf', BV) | ('eqz', BV, bool)
        self.W = None
        self.run()

    def operand(self, o):
        if o['k'] == 'const':
            w = width_of(o.get('ty', ''))
            if 'int' in o and w:
                return const_bv(int(o['int']), w)
            return None
        pl = o['pl']
        v = self.val.get(pl['l'])
        if not pl['p']:
            return v if isinstance(v, BV) or (isinstance(v, tuple) and v and v[0] == 'eqz') else None
        if len(pl['p']) == 1 and isinstance(pl['p'][0], dict) and pl['p'][0].get('f') == 0 and isinstance(v, tuple) and v[0] == 'ovf':
            return v[1]
        return None

    def shift_amount(self, o):
        if o['k'] == 'const' and 'int' in o:
            return int(o['int'])
        l = op_local(o)
        v = self.val.get(l)
        if isinstance(v, BV) and all(e in (0, 1) for e in v.bits):
            return sum(e << i for i, e in enumerate(v.bits))
        return None

    def assign(self, l, v):
        if l in self.val and self.val[l] != v:
            old = self.val[l]
            if isinstance(old, BV) and isinstance(v, BV) and old.w == v.w:
                v = BV([a if a == b else None for a, b in zip(old.bits, v.bits)], old.off if old.off == v.off else 0)
            else:
                v = None
        self.val[l] = v

    def run(self):
        fn = self.fn
        live = fn.live_blocks()
        post, seen, stack = [], {0}, [(0, iter(fn.succ(0)))]
        while stack:
            b0, it = stack[-1]
            adv = False
            for t0 in it:
                if t0 in live and t0 not in seen:
                    seen.add(t0)
                    stack.append((t0, iter(fn.succ(t0))))
                    adv = True
                    break
            if not adv:
                post.append(b0)
                stack.pop()
        order = post[::-1]
        for bid in order:
            b = fn.blocks[bid]
            if b['cleanup']:
                continue
            for st in b['st']:
                if st['s'] != 'assign' or st['lhs']['p']:
                    continue
                l = st['lhs']['l']
                rv = st['rv']
                w = width_of(fn.locals[l])
                v = None
                if rv['r'] == 'use':
                    v = self.operand(rv['op'])
                elif rv['r'] == 'cast' and rv.get('kind', '').startswith('IntToInt'):
                    x = self.operand(rv['op'])
                    if isinstance(x, BV) and w:
                        if w >= x.w:
                            v = BV(list(x.bits) + [0] * (w - x.w), x.off)    # unsigned sources only: zero extension
                            src = rv['op'].get('ty') or _lty(fn, op_local(rv['op']))
                            if strip_lt(src).startswith('i') and x.bits[-1] != 0:
                                v = None
                        else:
                            v = BV(x.bits[:w], 0)
                elif rv['r'] == 'bin':
                    bop = rv['bop']
                    base = bop.replace('WithOverflow', '').replace('Unchecked', '')
                    x, y = self.operand(rv['a']), self.operand(rv['b'])
                    r = None
                    if base in ('Shl', 'Shr') and isinstance(x, BV):
                        k = self.shift_amount(rv['b'])
                        if k is not None and x.off == 0:
                            r = b_shl(x, k) if base == 'Shl' else b_shr(x, k)
                    elif isinstance(x, BV) and isinstance(y, BV) and x.w == y.w and x.off == 0 and y.off == 0 and base in ('Add', 'Sub', 'BitAnd', 'BitOr', 'BitXor', 'Mul') \
                            and all(e in (0, 1) for e in x.bits + y.bits) and not _lty(fn, op_local(rv['a']) if op_local(rv['a']) is not None else l).startswith('i'):
                        xa = sum(e << i for i, e in enumerate(x.bits))
                        ya = sum(e << i for i, e in enumerate(y.bits))
                        r = const_bv({'Add': xa + ya, 'Sub': xa - ya, 'BitAnd': xa & ya, 'BitOr': xa | ya, 'BitXor': xa ^ ya, 'Mul': xa * ya}[base], x.w)   # literal arithmetic
                    elif isinstance(x, BV) and isinstance(y, BV) and x.w == y.w:
                        yconst = all(e in (0, 1) for e in y.bits) and y.off == 0
                        if base == 'BitAnd' and x.off == 0 and y.off == 0:
                            r = b_and(x, y)
                        elif base == 'BitOr' and x.off == 0 and y.off == 0:
                            r = b_or(x, y)
                        elif base == 'Add' and x.off == 0 and y.off == 0:
                            r = b_add(x, y)
                        elif base == 'Sub':
                            signed = strip_lt(fn.locals[l] if not bop.endswith('WithOverflow') else rv['a'].get('ty', '') or '').startswith('i') or \
                                strip_lt(_lty(fn, op_local(rv['a']))).startswith('i')
                            if signed and yconst:
                                r = BV(x.bits, x.off - sum(e << i for i, e in enumerate(y.bits)))
                            elif x.off == 0 and y.off == 0:
                                r = b_sub(x, y)
                        elif base in ('Eq', 'Ne') and x.off == 0 and y.off == 0:
                            zero = all(e == 0 for e in y.bits)
                            zx = all(e == 0 for e in x.bits)
                            if zero or zx:
                                r = ('eqz', x if zero else y, base == 'Eq')
                    if bop.endswith('WithOverflow'):
                        v = ('ovf', r) if isinstance(r, BV) else None
                    else:
                        v = r
                self.assign(l, v)
            t = b['term']
            if t['t'] == 'call' and t.get('dest') and not t['dest']['p']:
                d = cres(t) or cdef(t)
                dl = t['dest']['l']
                if re.search(r'f(32|64)>?::to_bits$', d):
                    w = width_of(fn.locals[dl])
                    self.W = w
                    self.assign(dl, BV([('b', i) for i in range(w)]))
                else:
                    self.assign(dl, None)

    # ---- queries
    def sign_tests(self):
        """switches on an `x == 0` / `x != 0` value: (BV of x, block reached when x == 0, block reached when x != 0)"""
        out = []
        for bid in sorted(self.fn.live_blocks()):
            t = self.fn.blocks[bid]['term']
            if t['t'] != 'switch':
                continue
            v = self.operand(t['on'])
            if isinstance(v, tuple) and v and v[0] == 'eqz':
                tg = dict((int(a), b) for a, b in t['targets'])
                if 0 in tg:
                    false_bb, true_bb = tg[0], t['otherwise']
                    zero_bb, nonzero_bb = (true_bb, false_bb) if v[2] else (false_bb, true_bb)
                    out.append((v[1], zero_bb, nonzero_bb, t))
            elif isinstance(v, BV):
                tg = dict((int(a), b) for a, b in t['targets'])
                if 0 in tg:
                    out.append((v, tg[0], t['otherwise'], t))
        return out

    def sign_variant_in(self, bid, depth=3):
        """Sign variant constructed at the head of a branch"""
        seen = set()
        while bid is not None and bid not in seen and depth > 0:
            seen.add(bid)
            b = self.fn.blocks[bid]
            for st in b['st']:
                if st['s'] == 'assign' and st['rv']['r'] == 'agg' and st['rv']['kind'].get('a') == 'adt' and st['rv']['kind'].get('adt', '').endswith('Sign'):
                    return st['rv']['kind'].get('variant')
            t = b['term']
            bid = t.get('to') if t['t'] == 'goto' else None
            depth -= 1
        return None


def check(rep, F, rule='BITFIELD'):
    n = 0
    for W in (32, 64):
        lay = LAYOUT[W]
        M, E, bias = lay['M'], lay['E'], lay['bias']
        # ---- split_fNN_into_parts
        nm = 'parsing::split_f%d_into_parts' % W
        fn = F.fns.get(nm)
        if fn is None:
            rep.note('anchor %s not present: skipped' % nm)
        else:
            rep.add_functions([fn.name])
            A = Analysis(F, fn)
            ret = None
            for bid, st in fn.stmts():
                if st['lhs']['l'] == 0 and not st['lhs']['p'] and st['rv']['r'] == 'agg' and st['rv']['kind'].get('a') == 'tuple':
                    ret = st['rv']['ops']
            key = fn.key + ':mantissa'
            n += 1
            if A.W != W or ret is None or len(ret) != 3:
                rep.undecided(rule, key, 'to_bits()/returned tuple not recognised', fn.where())
            else:
                frac = A.operand(ret[0])
                want = BV([('b', i) for i in range(M)] + [1] + [0] * (W - M - 1))
                if not isinstance(frac, BV):
                    rep.undecided(rule, key, 'mantissa value not tracked', fn.where())
                elif frac == want:
                    rep.ok(rule, key, 'frac = f[0..%d] with the implicit bit %d set (%s)' % (M - 1, M, frac.show()), fn.where())
                else:
                    rep.violation(rule, key, 'binary%d mantissa must be bits 0..%d of the float plus the implicit bit %d; the code computes %s' % (W, M - 1, M, frac.show()), fn.where())
                n += 1
                key = fn.key + ':exponent'
                pw = A.operand(ret[1])
                wantp = BV([('b', M + i) for i in range(E)] + [0] * (64 - E), -(bias + M))
                if not isinstance(pw, BV):
                    rep.undecided(rule, key, 'exponent value not tracked', fn.where())
                elif pw == wantp:
                    rep.ok(rule, key, 'pow = f[%d..%d] - %d (bias %d + %d mantissa bits)' % (M, M + E - 1, bias + M, bias, M), fn.where())
                else:
                    rep.violation(rule, key, 'binary%d exponent must be bits %d..%d minus %d; the code computes %s' % (W, M, M + E - 1, bias + M, pw.show()), fn.where())
                n += 1
                _sign(rep, rule, A, fn, W)
        # ---- subnormal
        nm = 'parsing::parse_from_f%d_subnormal' % W
        fn = F.fns.get(nm)
        if fn is None:
            rep.note('anchor %s not present: skipped' % nm)
        else:
            rep.add_functions([fn.name])
            A = Analysis(F, fn)
            n += 1
            key = fn.key + ':magnitude'
            sink = None
            for bid, t in fn.calls():
                if re.search(r'convert::(From|Into)', cdef(t) or '') and t['args'] and width_of(t['args'][0].get('ty') or _lty(fn, op_local(t['args'][0]))) == W \
                        and 'BigUint' in fn.locals[t['dest']['l']]:
                    sink = t
            if A.W != W or sink is None:
                rep.undecided(rule, key, 'to_bits() / BigUint::from(frac) not recognised', fn.where())
            else:
                frac = A.operand(sink['args'][0])
                want = BV([('b', i) for i in range(W - 1)] + [0])
                if not isinstance(frac, BV):
                    rep.undecided(rule, key, 'magnitude bits not tracked', fn.where(sink['loc']['line']))
                elif frac == want:
                    rep.ok(rule, key, 'magnitude = the representation with exactly the sign bit %d cleared' % (W - 1), fn.where(sink['loc']['line']))
                else:
                    rep.violation(rule, key, 'the subnormal magnitude must be the float\'s bits with exactly the sign bit %d cleared; the code computes %s' % (W - 1, frac.show()), fn.where(sink['loc']['line']))
            n += 1
            _sign(rep, rule, A, fn, W)
        # ---- zero test of the normal routine
        nm = 'parsing::parse_from_f%d' % W
        fn = F.fns.get(nm)
        if fn is not None:
            rep.add_functions([fn.name])
            A = Analysis(F, fn)
            n += 1
            key = fn.key + ':zero-test'
            cands = [(bv, z, nz, t) for bv, z, nz, t in A.sign_tests() if len(bv.sources()) > 1]
            if not cands:
                rep.undecided(rule, key, 'zero test on the bits not recognised', fn.where())
            else:
                bv = cands[0][0]
                if bv.sources() == set(range(W - 1)) and None not in bv.bits:
                    rep.ok(rule, key, 'zero test looks at every bit except the sign (%s)' % bv.show(), fn.where(cands[0][3]['loc']['line']))
                else:
                    rep.violation(rule, key, 'the +-0 test must look at all bits except the sign bit %d; it looks at %s' % (W - 1, bv.show()), fn.where(cands[0][3]['loc']['line']))
    return n


def _sign(rep, rule, A, fn, W):
    key = fn.key + ':sign'
    tests = [(bv, z, nz, t) for bv, z, nz, t in A.sign_tests() if A.sign_variant_in(z) or A.sign_variant_in(nz)]
    if not tests:
        rep.undecided(rule, key, 'sign decision not recognised', fn.where())
        return
    bv, z, nz, t = tests[0]
    line = t['loc']['line'] if 'loc' in t else None
    if bv.sources() != {W - 1} or None in bv.bits or any(e == 1 for e in bv.bits):
        rep.violation(rule, key, 'the sign must be decided by bit %d of the float alone; the tested value is %s' % (W - 1, bv.show()), fn.where(line))
        return
    vz, vnz = A.sign_variant_in(z), A.sign_variant_in(nz)
    if vz == 'Plus' and vnz == 'Minus':
        rep.ok(rule, key, 'sign decided by bit %d alone: clear -> Plus, set -> Minus' % (W - 1), fn.where(line))
    else:
        rep.violation(rule, key, 'sign bit clear must give Plus and set Minus; the code gives %s / %s' % (vz, vnz), fn.where(line))


def _locals_read(x, out):
    """every local an rvalue / operand list mentions (field-insensitive)"""
    if isinstance(x, dict):
        if 'pl' in x and isinstance(x['pl'], dict) and 'l' in x['pl']:
            out.add(x['pl']['l'])
            for pr in x['pl'].get('p') or []:
                _locals_read(pr, out)
        for k, v in x.items():
            if k != 'pl':
                _locals_read(v, out)
    elif isinstance(x, list):
        for v in x:
            _locals_read(v, out)


def returns_carry_sign(rep, F, rule='BITFIELD'):
    """Every definition of the return value of parse_from_fNN (and its subnormal sibling) that depends on the float
    depends on a value of type Sign, or hands the whole float (the parameter itself or its to_bits(), through copies
    only) to another function of this crate that returns the decimal - which is then checked by the same clause with
    that parameter in the float's place.  Backward data dependence over the MIR body, flow- and field-insensitive: the
    returns that do not depend on the float at all (the +-0 shortcut) are exempt.  A shortcut return built from the
    mantissa alone loses the sign of every negative input it serves."""
    n = 0
    work_fns = []
    for W in (32, 64):
        for nm in ('parsing::parse_from_f%d' % W, 'parsing::parse_from_f%d_subnormal' % W):
            fn = F.fns.get(nm)
            if fn is not None:
                work_fns.append((fn, {i for i in range(1, fn.argc + 1) if fn.ty(i) in ('f32', 'f64')}))
    done = set()
    while work_fns:
        fn, floats = work_fns.pop(0)
        if fn.key in done or not floats:
            continue
        done.add(fn.key)
        defs = {}          # local -> list of (reads:set, delegates:bool, line)
        sdefs = {}         # local -> list of ('copy', src local) | ('bits', src local) | ('other',)
        for b, st in fn.stmts():
            r = set()
            _locals_read(st['rv'], r)
            defs.setdefault(st['lhs']['l'], []).append((r, False, st.get('loc', {}).get('line')))
            rv = st['rv']
            src = op_local(rv['op']) if rv.get('r') == 'use' and isinstance(rv.get('op'), dict) and rv['op'].get('k') in ('copy', 'move') else None
            if not st['lhs']['p']:
                sdefs.setdefault(st['lhs']['l'], []).append(('copy', src) if src is not None else ('other',))

        def whole(l, depth=6):
            """local l holds the whole float (parameter, copy of it, or its to_bits())"""
            if l in floats:
                return True
            ds = sdefs.get(l)
            if not ds or depth <= 0:
                return False
            return all(d[0] in ('copy', 'bits') and whole(d[1], depth - 1) for d in ds)

        calls = list(fn.calls())
        for b, t in calls:
            res = TB._plain(cres(t) or '')
            if t.get('dest') and 'l' in t['dest'] and not t['dest'].get('p') and re.search(r'::to_bits$', res) and len(t['args']) == 1 and op_local(t['args'][0]) is not None:
                sdefs.setdefault(t['dest']['l'], []).append(('bits', op_local(t['args'][0])))
            elif t.get('dest') and 'l' in t['dest'] and not t['dest'].get('p'):
                sdefs.setdefault(t['dest']['l'], []).append(('other',))
        for b, t in calls:
            r = set()
            _locals_read(t['args'], r)
            callee = F.fns.get(cres(t) or '') or F.fns.get(TB._plain(cres(t) or ''))
            deleg = False
            if callee is not None and not callee.is_closure and re.search(r'(^|::)BigDecimal$', strip_lt(callee.locals[0])):
                idx = [i for i, a in enumerate(t['args'], 1) if op_local(a) is not None and whole(op_local(a))]
                if idx:
                    deleg = True
                    work_fns.append((callee, set(idx)))
            if t.get('dest') and 'l' in t['dest']:
                defs.setdefault(t['dest']['l'], []).append((r, deleg, t['loc']['line']))
        bad = None
        cnt = 0
        for reads, deleg, line in defs.get(0, []):
            seen = set()
            work = list(reads)
            has_sign = False
            dep_float = False
            delegated = deleg
            while work:
                l = work.pop()
                if l in seen:
                    continue
                seen.add(l)
                if l in floats:
                    dep_float = True
                if re.search(r'(^|::)Sign$', fn.ty(l).lstrip('&')):
                    has_sign = True
                for r2, d2, _ln in defs.get(l, []):
                    delegated = delegated or d2
                    work.extend(r2)
            cnt += 1
            if dep_float and not has_sign and not delegated:
                bad = line
        if not cnt:
            continue
        n += 1
        rep.add_functions([fn.name])
        key = fn.key + ':every-return-carries-the-sign'
        if bad is not None:
            rep.violation(rule, key, 'a return value computed from the float does not depend on any Sign value: every negative input served by this return comes out positive', fn.where(bad))
        else:
            rep.ok(rule, key, '%d definition(s) of the return value: each depends on a Sign value, delegates the whole float to a converter of this crate (checked in turn), or does not depend on the float' % cnt, fn.where())
    return n
