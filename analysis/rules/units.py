"""ASCII-vs-digit belief rule (contradiction rule, Engler et al.): within one function a byte
container is used either as ASCII text ('0' = 48 ...) or as numeric digit values (0..9), never
both.  A container whose elements are offset by / compared with b'0' in one place and tested
with `== 0` / `Zero::is_zero` in another carries two contradictory beliefs: one of them is wrong.
No statistics, no ranking: both beliefs are read off the function's own code."""
import re, collections
from facts import cdef, cres, op_local, strip_lt
from dataflow import Defs

ASCII_LITS = set(range(48, 58)) | {46, 43, 45, 101, 69, 95}
VIEW = re.compile(r'ops::Deref::deref$|ops::DerefMut::deref_mut$|Vec::as_slice$|Vec::as_mut_slice$|ops::Index::index$|ops::IndexMut::index_mut$'
                  r'|slice::iter$|slice::iter_mut$|Iterator::rev$|Iterator::take_while$|Iterator::skip$|Iterator::take$|Iterator::skip_while$|Iterator::peekable$'
                  r'|slice::split_at$|slice::split_last$|slice::split_first$|slice::first$|slice::last$|Option::unwrap$|Option::unwrap_or$|Option::expect$'
                  r'|IntoIterator::into_iter$|Iterator::by_ref$|Iterator::copied$|Iterator::cloned$|clone::Clone::clone$|String::into_bytes$|String::as_bytes$|str::as_bytes$|String::as_str$|String::from_utf8$')
PRED_ADAPTORS = re.compile(r'Iterator::(all|any|position|rposition|take_while|skip_while|find|filter|count)$')


def plain(s):
    prev = None
    while prev != s:
        prev = s
        s = re.sub(r'<[^<>]*>', '', s)
    return re.sub(r':{3,}', '::', s)


class UF:
    def __init__(self):
        self.p = {}

    def find(self, x):
        self.p.setdefault(x, x)
        while self.p[x] != x:
            self.p[x] = self.p[self.p[x]]
            x = self.p[x]
        return x

    def union(self, a, b):
        ra, rb = self.find(a), self.find(b)
        if ra != rb:
            self.p[ra] = rb


def byteish(ty):
    ty = strip_lt(ty)
    return re.search(r'\bu8\b', ty) is not None and ty != 'u8'


def analyse(F, fn):
    """returns {container root: {'ascii': [(line, why)], 'digit': [(line, why)]}} for byte containers"""
    uf = UF()
    # containers: locals whose type mentions u8 inside a slice / Vec / iterator
    for bid, st in fn.stmts():
        rv = st['rv']
        l = st['lhs']['l']
        src = None
        spl = None
        if rv['r'] in ('use', 'cast') and rv['op']['k'] in ('copy', 'move'):
            src = rv['op']['pl']['l']
            spl = rv['op']['pl']
        elif rv['r'] == 'ref':
            src = rv['pl']['l']
            spl = rv['pl']
        if fn.is_closure and src == 1 and spl is not None:
            fl = [p['f'] for p in spl['p'] if isinstance(p, dict) and 'f' in p]
            if fl and byteish(fn.locals[l]):
                uf.union(l, ('cap', fl[0]))       # captured variable number fl[0] of the parent
                continue
        if src is not None and (byteish(fn.locals[l]) or byteish(fn.locals[src])):
            uf.union(l, src)
        if rv['r'] == 'agg' and rv['kind']['a'] == 'tuple':
            for o in rv['ops']:
                if o['k'] in ('copy', 'move') and byteish(fn.locals[o['pl']['l']]):
                    uf.union(l, o['pl']['l'])
    elem_of = {}      # u8 local -> container root local
    for bid, t in fn.calls():
        d = plain(cdef(t))
        dl = t['dest']['l']
        if VIEW.search(d) and t['args'] and t['args'][0]['k'] in ('copy', 'move'):
            a0 = t['args'][0]['pl']['l']
            if byteish(fn.locals[a0]) or byteish(fn.locals[dl]):
                uf.union(dl, a0)
            if strip_lt(fn.locals[dl]) in ('&u8', '&mut u8', 'u8') and byteish(fn.locals[a0]):
                elem_of[dl] = a0
    # element reads: x = *(&u8 local)  /  x = copy (*_ref)
    changed = True
    while changed:
        changed = False
        for bid, st in fn.stmts():
            rv = st['rv']
            l = st['lhs']['l']
            if st['lhs']['p'] or l in elem_of:
                continue
            if rv['r'] == 'use' and rv['op']['k'] in ('copy', 'move'):
                s0 = rv['op']['pl']['l']
                if s0 in elem_of and strip_lt(fn.locals[l]).lstrip('&') in ('u8', 'mut u8'):
                    elem_of[l] = elem_of[s0]
                    changed = True
                # tuple field of split_last/first result: (&u8, &[u8])
                elif strip_lt(fn.locals[l]) in ('&u8', 'u8') and byteish(fn.locals[s0]):
                    elem_of[l] = s0
                    changed = True
            elif rv['r'] == 'ref' and rv['pl']['l'] in elem_of and strip_lt(fn.locals[l]) in ('&u8',):
                elem_of[l] = elem_of[rv['pl']['l']]
                changed = True
    beliefs = collections.defaultdict(lambda: {'ascii': [], 'digit': []})

    def lit(o):
        if o['k'] == 'const' and 'int' in o and 'named' not in o:
            return int(o['int'])
        return None

    def note(container, kind, line, why):
        beliefs[uf.find(container)][kind].append((line, why))

    for bid, st in fn.stmts():
        rv = st['rv']
        if rv['r'] != 'bin':
            continue
        bop = rv['bop'].replace('WithOverflow', '')
        for x, y in ((rv['a'], rv['b']), (rv['b'], rv['a'])):
            k = lit(y)
            xl = op_local(x)
            if k is None or xl is None or xl not in elem_of:
                continue
            if bop in ('Eq', 'Ne', 'Lt', 'Le', 'Gt', 'Ge'):
                if k in ASCII_LITS:
                    note(elem_of[xl], 'ascii', st['line'], '%s against %r' % (bop, chr(k)))
                elif 0 <= k <= 10:
                    note(elem_of[xl], 'digit', st['line'], '%s against %d' % (bop, k))
            elif bop in ('Sub', 'Add') and k == 48:
                note(elem_of[xl], 'ascii' if bop == 'Sub' and x is rv['a'] else 'digit', st['line'], '%s b\'0\'' % bop)
    for bid, t in fn.calls():
        d = plain(cdef(t))
        args = t['args']
        line = t['loc']['line']
        # writes of literal bytes into a container
        if re.search(r'Vec::(push|insert|resize)$|slice::fill$', d) and args and args[0]['k'] in ('copy', 'move') and byteish(fn.locals[args[0]['pl']['l']]):
            k = lit(args[-1])
            if k is not None and strip_lt(args[-1].get('ty', '')) == 'u8':
                if k in ASCII_LITS:
                    note(args[0]['pl']['l'], 'ascii', line, 'stores %r' % chr(k))
                elif 0 <= k <= 10:
                    note(args[0]['pl']['l'], 'digit', line, 'stores %d' % k)
        # predicates over the elements
        if PRED_ADAPTORS.search(d) and len(args) >= 2 and args[0]['k'] in ('copy', 'move') and byteish(fn.locals[args[0]['pl']['l']]):
            cont = args[0]['pl']['l']
            p = args[1]
            if p['k'] == 'const' and re.search(r'Zero>?::is_zero$', p.get('fn_def', '') or p.get('fn', '')):
                note(cont, 'digit', line, 'predicate Zero::is_zero')
            else:
                pl = op_local(p)
                if pl is not None:
                    for b2, st in fn.stmts():
                        if st['lhs']['l'] == pl and st['rv']['r'] == 'agg' and st['rv']['kind'].get('a') == 'closure':
                            cf = F.fns.get(st['rv']['kind'].get('def', ''))
                            if cf is not None:
                                for b3, st3 in cf.stmts():
                                    rv3 = st3['rv']
                                    if rv3['r'] == 'bin' and rv3['bop'] in ('Eq', 'Ne', 'Lt', 'Le', 'Gt', 'Ge'):
                                        for y in (rv3['a'], rv3['b']):
                                            k = lit(y)
                                            if k is not None and strip_lt(y.get('ty', '')) == 'u8':
                                                if k in ASCII_LITS:
                                                    note(cont, 'ascii', line, 'closure compares with %r' % chr(k))
                                                elif 0 <= k <= 10:
                                                    note(cont, 'digit', line, 'closure compares with %d' % k)
                                for b3, t3 in cf.calls():
                                    if re.search(r'Zero>?::is_zero$', plain(cdef(t3))):
                                        note(cont, 'digit', line, 'closure calls is_zero')
    if not fn.is_closure:
        for bid, st in fn.stmts():
            rv = st['rv']
            if rv['r'] == 'agg' and rv['kind'].get('a') == 'closure':
                cf = F.fns.get(rv['kind'].get('def', ''))
                if cf is None:
                    continue
                cb, cuf = analyse(F, cf)
                for i, o in enumerate(rv['ops']):
                    if o['k'] not in ('copy', 'move'):
                        continue
                    r = cuf.find(('cap', i))
                    if r in cb:
                        tgt = uf.find(o['pl']['l'])
                        for kind in ('ascii', 'digit'):
                            beliefs[tgt][kind] += [(ln, why + ' (in closure)') for ln, why in cb[r][kind]]
    return beliefs, uf


def check(rep, F, names, rule='UNITS'):
    n = 0
    for nme in sorted(names):
        fn = F.fns[nme]
        if fn.is_closure:
            continue
        beliefs, uf = analyse(F, fn)
        for root, b in sorted(beliefs.items()):
            if not b['ascii'] and not b['digit']:
                continue
            n += 1
            key = '%s|container#%s' % (fn.key, fn.dbg.get(root, 'tmp'))
            if b['ascii'] and b['digit']:
                rep.violation(rule, key, 'the same byte container is treated as ASCII text (%s at line %d) and as numeric digits (%s at line %d): one of the two is wrong'
                              % (b['ascii'][0][1], b['ascii'][0][0], b['digit'][0][1], b['digit'][0][0]), fn.where(b['digit'][0][0]))
            else:
                kind = 'ascii' if b['ascii'] else 'digit'
                rep.ok(rule, key, 'consistently %s (%d uses, e.g. %s)' % ('ASCII' if kind == 'ascii' else 'digit values', len(b[kind]), b[kind][0][1]), fn.where(b[kind][0][0]))
    return n
