"""POSITION: place-value typing of the digit-vector indices in BigDecimal::with_scale_round (C06).

The receiver's little-endian digit vector D = int_val.to_radix_le(10) has D[i] at the place 10^(i - scale).  Rounding to
new_scale keeps the places >= 10^(-new_scale), i.e. the indices >= k with k = scale - new_scale.  Hence, as linear
identities over (scale, new_scale, len(D)):
   the pair handed to round_pair is (D[k], D[k-1]), the tail flag is all_zero(D[0 .. k-1]);
   the rounded digit is written back at index k and the result is rebuilt from D[k ..];
   the regime test compares len(D) - scale with -new_scale; when they are equal the pair is (0, last digit) and the
   tail is everything below the last digit; when the number lies entirely below the rounding point the pair is (0, 0);
   round_pair and the rebuilt integer receive the sign returned by to_radix_le.
Decides the index arithmetic for every digit count and scale; does not decide the carry loop or num-bigint's radix conversion."""
import re
from rules import table as TB, numeral as N
from rules.table import Undecided


def _is(t, k):
    return isinstance(t, tuple) and t and t[0] == k


def check(rep, F, rule='POSITION'):
    fn = F.fns.get('BigDecimal::with_scale_round')
    if fn is None:
        rep.violation(rule, 'BigDecimal::with_scale_round:missing', 'anchor function not found (fail closed)')
        return 0
    try:
        pe = TB.PathEnum(F, fn, max_paths=4000, cut_loops=True)
        paths = pe.run()
    except Undecided as e:
        rep.undecided_anchor(rule, fn.key + ':positions', str(e), fn.where())
        return 0
    scale = N.lin(TB.T('field', TB.T('param', 1), 'scale'))
    new_scale = N.lin(TB.T('param', 2))
    k = N.add(scale, new_scale, -1)
    cells = {}

    def put(cell, status, why):
        cur = cells.get(cell)
        rank = {'ok': 0, 'undecided': 1, 'violation': 2}
        if cur is None or rank[status] > rank[cur[0]]:
            cells[cell] = (status, why)

    def is_D(t):
        t = N.norm(t)
        while _is(t, 'mutated'):
            t = N.norm(t[1])
        return _is(t, 'field') and t[2] == '1' and N._callp(N.norm(t[1]), r'to_radix_le$') and N.norm(N.norm(t[1])[2][0]) == ('field', ('param', 1), 'int_val')

    def sign_ok(t):
        t = N.norm(t)
        return _is(t, 'field') and t[2] == '0' and N._callp(N.norm(t[1]), r'to_radix_le$')

    def index_of(t):
        """linear form of i for a term D[i]; 'last' for the last digit; None otherwise"""
        t = N.norm(t)
        if N._callp(t, r'Index::index$|IndexMut::index_mut$') and is_D(t[2][0]):
            return N.lin(t[2][1])
        if _is(t, 'field') and t[2] == '0' and N._callp(N.norm(t[1]), r'Option::unwrap$') and N._callp(N.norm(N.norm(t[1])[2][0]), r'split_last$') and is_D(N.norm(N.norm(t[1])[2][0])[2][0]):
            return 'last'
        if t == ('const', 0):
            return 'zero'
        return None

    def same(a, b, facts=()):
        d = N.add(a, b, -1)
        return (not d) or N.multiple_of(d, list(facts))

    for (atoms, out), eff in zip(paths, pe.effects):
        if not N.consistent(atoms):
            continue
        regime = None
        lenD = None
        for a, c in atoms:
            a0 = N.norm(a)
            if _is(a0, 'discr') and _is(N.norm(a0[1]), 'cmp') and c[0] == 'eq':
                x, y = N.norm(a0[1])[1], N.norm(a0[1])[2]
                lx, ly = N.lin(x), N.lin(y)
                lens = [q for q in lx if isinstance(q, tuple) and q and q[0] == 'len']
                if lens:
                    lenD = {lens[0]: 1}
                    want = N.add(N.add(lenD, scale, -1), {}, 1)
                    regime = {255: 'below', 0: 'at', 1: 'inside'}.get(c[1])
                    if not same(lx, want) or not same(ly, N.add({}, new_scale, -1)):
                        put('regime-test', 'violation', 'the regime test must compare len(D) - scale with -new_scale; it compares %s with %s' % (N.show_lin(lx), N.show_lin(ly)))
                    else:
                        put('regime-test', 'ok', 'compares len(D) - scale with -new_scale')
        if regime is None:
            continue
        facts = []
        if regime == 'at' and lenD is not None:
            facts.append(N.add(lenD, k, -1))            # len(D) == k
        for callee, args in eff:
            c = TB._plain(callee)
            if c.endswith('RoundingMode::round_pair') and len(args) >= 4:
                cell = 'round_pair[%s]' % regime
                pair = N.norm(args[2])
                if not sign_ok(args[1]):
                    put(cell, 'violation', 'round_pair does not receive the sign returned by to_radix_le')
                    continue
                if not (_is(pair, 'tuple') and len(pair[1]) == 2):
                    put(cell, 'undecided', 'digit pair not recognised: %s' % TB.show(pair)[:60])
                    continue
                hi, lo = index_of(pair[1][0]), index_of(pair[1][1])
                tail = N.norm(args[3])
                if regime == 'inside':
                    okp = isinstance(hi, dict) and isinstance(lo, dict) and same(hi, k) and same(lo, N.add(k, {1: 1}, -1))
                    okt = False
                    if N._callp(tail, r'Iterator::all$'):
                        it = N.norm(tail[2][0])
                        sl = N.norm(it[2][0]) if N._callp(it, r'slice::iter$|::iter$') else None
                        if sl is not None and N._callp(sl, r'Index::index$') and is_D(sl[2][0]):
                            r = N.norm(sl[2][1])
                            if _is(r, 'adt') and r[2] == 'Range' and N.norm(r[3][0]) == ('const', 0):
                                okt = same(N.lin(r[3][1]), N.add(k, {1: 1}, -1))
                            elif _is(r, 'adt') and r[2] == 'RangeTo':
                                okt = same(N.lin(r[3][0]), N.add(k, {1: 1}, -1))
                    if not (isinstance(hi, dict) and isinstance(lo, dict)):
                        put(cell, 'undecided', 'digit pair not read by index from the digit vector')
                    elif not okp:
                        put(cell, 'violation', 'with k = scale - new_scale the pair must be (D[k], D[k-1]); found indices (%s, %s)' % (N.show_lin(hi) if isinstance(hi, dict) else hi, N.show_lin(lo) if isinstance(lo, dict) else lo))
                    elif not okt:
                        put(cell, 'violation', 'the tail flag must be all_zero(D[0 .. k-1]); found %s' % TB.show(tail)[:90])
                    else:
                        put(cell, 'ok', 'pair (D[k], D[k-1]), tail all_zero(D[0..k-1]), k = scale - new_scale')
                elif regime == 'at':
                    okp = hi == 'zero' and lo == 'last'
                    okt = N._callp(tail, r'Iterator::all$') and 'split_last' in TB.show(tail)
                    put(cell, 'ok' if okp and okt else 'violation', 'pair (0, last digit) = (D[k], D[k-1]) with len(D) = k; tail = the digits below the last' if okp and okt
                        else 'when the rounding point sits just above the leading digit the pair must be (0, last digit) and the tail the remaining digits; found (%s, %s)' % (hi, lo))
                else:
                    okp = hi == 'zero' and lo == 'zero' and tail == ('const', 0)
                    put(cell, 'ok' if okp else 'violation', 'pair (0, 0) with a non-zero tail' if okp else 'a number entirely below the rounding point must be rounded from the pair (0, 0) with the tail flag false; found (%s, %s, %s)' % (hi, lo, TB.show(tail)[:30]))
            elif re.search(r'BigInt::from_radix_le$', c) and len(args) >= 2:
                cell = 'rebuild[%s]' % regime
                sl = N.norm(args[1])
                if not sign_ok(args[0]):
                    put(cell, 'violation', 'the rebuilt integer does not receive the sign returned by to_radix_le')
                elif N._callp(sl, r'Index::index$') and is_D(sl[2][0]) and _is(N.norm(sl[2][1]), 'adt') and N.norm(sl[2][1])[2] == 'RangeFrom':
                    st = N.lin(N.norm(sl[2][1])[3][0])
                    put(cell, 'ok' if same(st, k) else 'violation', 'result rebuilt from D[k ..]' if same(st, k) else 'the result must be rebuilt from D[k ..] with k = scale - new_scale; it starts at %s' % N.show_lin(st))
                else:
                    put(cell, 'undecided', 'slice handed to from_radix_le not recognised')
        # the rebuilt integer carries the operand's sign: arithmetic applied to it afterwards (a carry added as an integer
        # instead of rippled through the magnitude digits) acts on the signed value and moves negative results toward zero
        if any(TB._plain(c).endswith('BigInt::from_radix_le') for c, a in eff):
            o = N.norm(out)
            coef = N.norm(o[2][0]) if _is(o, 'call') and o[2] else None
            while coef is not None and N._callp(coef, r'convert::(From::from|Into::into)$|Clone::clone$') and coef[2]:
                coef = N.norm(coef[2][0])
            if coef is not None and N._callp(coef, r'ops::(Add::add|Sub::sub)$') and len(coef[2]) == 2:
                x, y = N.norm(coef[2][0]), N.norm(coef[2][1])
                sx = TB.show(x)
                if 'from_radix_le(to_radix_le(' in sx and _is(y, 'const') and y != ('const', 0):
                    put('result[%s]' % regime, 'violation', 'a constant is %s the rebuilt integer, which already carries the sign of the operand: for a negative operand the carry moves the result toward zero (the carry belongs in the magnitude digits)' % ('added to' if 'Add' in TB._plain(coef[1]) else 'subtracted from'))
            elif coef is not None and N._callp(coef, r'Option::unwrap$|Option::expect$|Option::unwrap_unchecked$'):
                put('result[%s]' % regime, 'ok', 'the rebuilt integer is returned as it is')
    n = 0
    for cell, (status, why) in sorted(cells.items()):
        n += 1
        key = '%s:positions[%s]' % (fn.key, cell)
        if status == 'ok':
            rep.ok(rule, key, why, fn.where())
        elif status == 'violation':
            rep.violation(rule, key, why, fn.where())
        else:
            rep.undecided(rule, key, why, fn.where())
    return n
