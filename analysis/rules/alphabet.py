"""Alphabet confinement: every literal that can reach an output sink on the rendering paths lies in
the parser's alphabet, so whatever is printed is at least lexically re-parseable."""
import re
from facts import cdef, cres, op_local
from dataflow import Defs

ALPHABET = set('0123456789.eE+-_')
SINKS = re.compile(r'fmt::Write::write_str$|fmt::Write::write_char$|String::push$|String::push_str$|String::insert$|String::insert_str$'
                   r'|Vec::push$|Vec::insert$|Vec::resize$|Vec::extend_from_slice$|Formatter::pad_integral$|Formatter::write_str$|Formatter::pad$'
                   r'|fmt::Arguments::new$|fmt::Arguments::from_str$|fmt::Arguments::from_str_nonconst$|slice::fill$')


def strip_args(s):
    prev = None
    while prev != s:
        prev = s
        s = re.sub(r'<[^<>]*>', '', s)
    return re.sub(r':{3,}', '::', s)


def unescape(lit):
    """bytes of a pretty-printed rust (byte) string / char literal: const "…", const b"…", const '…'"""
    m = re.match(r'^const (b?)(["\'])(.*)\2$', lit, re.S)
    if not m:
        return None
    body = m.group(3)
    out = bytearray()
    i = 0
    while i < len(body):
        c = body[i]
        if c == '\\' and i + 1 < len(body):
            n = body[i + 1]
            if n == 'x':
                out.append(int(body[i + 2:i + 4], 16))
                i += 4
                continue
            if n == 'u':
                j = body.index('}', i)
                out += chr(int(body[i + 3:j], 16)).encode()
                i = j + 1
                continue
            out += {'n': b'\n', 't': b'\t', 'r': b'\r', '0': b'\0', '\\': b'\\', '"': b'"', "'": b"'"}.get(n, n.encode())
            i += 2
            continue
        out += c.encode()
        i += 1
    return bytes(out)


def template_pieces(raw):
    """literal pieces of a fmt::Arguments template (encoding documented in core::fmt)"""
    out = []
    i = 0
    while i < len(raw):
        n = raw[i]
        i += 1
        if n == 0:
            break
        if n < 128:
            out.append(raw[i:i + n])
            i += n
        elif n == 128:
            ln = raw[i] | (raw[i + 1] << 8)
            out.append(raw[i + 2:i + 2 + ln])
            i += 2 + ln
        else:
            i += (4 if n & 1 else 0) + (2 if n & 2 else 0) + (2 if n & 4 else 0) + (2 if n & 8 else 0)
    return out


def literal_of(fn, defs, o, depth=6):
    """the literal an operand is a (chain of copies/refs of), as ('str', bytes) / ('int', v) / None"""
    if o['k'] == 'const':
        ty = o.get('ty', '')
        if 'int' in o and 'named' not in o:
            if ty == 'char':
                return ('str', chr(int(o['int'])).encode())
            return ('int', int(o['int']))
        s = o.get('s', '')
        if s.startswith('const "') or s.startswith('const b"') or s.startswith("const '"):
            b = unescape(s)
            if b is not None:
                return ('str', b)
        if 'promoted' in o:
            return ('promoted', o['promoted'])
        return None
    l = op_local(o) if not o.get('pl', {}).get('p') else (o['pl']['l'] if all(p == '*' for p in o['pl']['p']) else None)
    if l is None or depth <= 0:
        return None
    ds = defs.defs.get(l, [])
    if len(ds) != 1 or ds[0][0] != 'assign':
        return None
    rv = ds[0][2]['rv']
    if rv['r'] in ('use', 'cast'):
        return literal_of(fn, defs, rv['op'], depth - 1)
    if rv['r'] == 'ref' and all(p == '*' for p in rv['pl']['p']):
        return literal_of(fn, defs, {'k': 'copy', 'pl': rv['pl']}, depth - 1)
    return None


def check(rep, F, names, rule='ALPHABET'):
    n_sinks = 0
    n_lits = 0
    for nme in sorted(names):
        fn = F.fns[nme]
        defs = None
        ordn = {}
        for bid, t in fn.calls():
            d = strip_args(cdef(t))
            local_callee = cres(t) in names
            if not SINKS.search(d) and not local_callee:
                continue
            if local_callee and not SINKS.search(d):
                # string literals handed to another rendering routine (e.g. the exponent symbol)
                defs = defs or Defs(fn)
                has_str = any((literal_of(fn, defs, a) or (None,))[0] == 'str' for a in t['args'])
                if not has_str:
                    continue
            n_sinks += 1
            defs = defs or Defs(fn)
            is_tmpl = d.endswith('Arguments::new')
            for ai, a in enumerate(t['args']):
                lit = literal_of(fn, defs, a)
                if lit is None:
                    continue
                if lit[0] == 'promoted':
                    pv = F.promoted_value(fn, lit[1])
                    if pv and pv[0] == 'int':
                        lit = ('int', pv[1])
                    elif pv and pv[0] == 'lit' and pv[1]:
                        b = unescape(pv[1])
                        lit = ('str', b) if b is not None else None
                    else:
                        continue
                    if lit is None:
                        continue
                texts = []
                if lit[0] == 'str':
                    if is_tmpl and ai == 0:
                        texts = template_pieces(lit[1])
                    else:
                        texts = [lit[1]]
                elif lit[0] == 'int':
                    ty = a.get('ty') or a.get('pl', {}).get('ty', '')
                    if ty in ('u8', 'char') or (ai >= 1 and re.search(r'Vec::(push|insert|resize)$|String::(push|insert)$|slice::fill$', d) and ty in ('u8',)):
                        texts = [bytes([lit[1] & 0xff])]
                    else:
                        continue      # an index / length, not a character
                for tx in texts:
                    n_lits += 1
                    bad = sorted({chr(c) if 32 <= c < 127 else '\\x%02x' % c for c in tx if chr(c) not in ALPHABET})
                    k = '%s|%s' % (fn.key, d.split('::')[-1])
                    o = ordn.get(k, 0)
                    ordn[k] = o + 1
                    if bad:
                        rep.violation(rule, '%s#%d' % (k, o), 'literal %r written on a rendering path contains %s, outside the parser\'s alphabet {0-9 . e E + - _}' % (tx.decode('latin1'), bad), fn.where(t['loc']['line']))
                    else:
                        rep.ok(rule, '%s#%d' % (k, o), 'literal %r' % tx.decode('latin1'), fn.where(t['loc']['line']))
    return n_sinks, n_lits
