"""R-PANIC: enumerate may-panic sites on must-not-panic paths; discharge or require review.

Sites: MIR Assert terminators (overflow, bounds, division), diverging calls (panic!, assert
failures, unreachable!) and calls to external functions whose contract says "may panic".
Keys are structural (function key, site kind, operand provenance, ordinal) -- never line numbers.
"""
import re, collections
from facts import cdef, cres, op_local, fmt_op, strip_lt
from dataflow import Defs, phi_stable

IGNORED_ASSERTS = ('MisalignedPointerDereference', 'NullPointerDereference', 'InvalidEnumConstruction')

MAYPANIC = [
    (re.compile(r'Option::unwrap$|Option::expect$'), 'unwrap-option'),
    (re.compile(r'Result::unwrap$|Result::expect$|Result::unwrap_err$|Result::expect_err$'), 'unwrap-result'),
    (re.compile(r'ops::Index::index$|ops::IndexMut::index_mut$'), 'index'),
    (re.compile(r'::split_at$|::split_at_mut$|::split_off$'), 'split_at'),
    (re.compile(r'::copy_within$|::copy_from_slice$|::clone_from_slice$|::swap$'), 'slice-range'),
    (re.compile(r'Vec::insert$|String::insert$|String::insert_str$|Vec::remove$|Vec::swap_remove$|String::remove$|Vec::drain$|String::drain$|String::replace_range$|Vec::splice$|::rotate_left$|::rotate_right$'), 'vec-index'),
    (re.compile(r'(?:core|std)::num::abs$|(?:core|std)::num::pow$|(?:core|std)::num::next_power_of_two$|(?:core|std)::num::div_euclid$|(?:core|std)::num::rem_euclid$|(?:core|std)::num::ilog10$|(?:core|std)::num::ilog2$|(?:core|std)::num::ilog$'), 'int-overflowing-fn'),
    (re.compile(r'::str::repeat$|::chunks$|::chunks_exact$|::rchunks$|::windows$|Iterator::step_by$'), 'size-arg'),
    (re.compile(r'from_str_radix$|to_radix_le$|to_radix_be$|to_str_radix$|from_radix_le$|from_radix_be$|char::from_digit$|::to_digit$'), 'radix'),
    (re.compile(r'RefCell::borrow$|RefCell::borrow_mut$'), 'refcell'),
]
BIGNUM_DIV = re.compile(r'ops::(Div|Rem|DivAssign|RemAssign)::(div|rem|div_assign|rem_assign)$|Integer::div_rem$|Integer::div_floor$|Integer::mod_floor$|Integer::div_mod_floor$')
DIVERGE_OK = ()


def strip_args(s):
    prev = None
    while prev != s:
        prev = s
        s = re.sub(r'<[^<>]*>', '', s)
    return re.sub(r':{3,}', '::', s)


def short(name):
    p = strip_args(name).split('::')
    return '::'.join(p[-2:]) if len(p) > 1 else p[0]


class Provenance:
    """short structural description of where an operand comes from (depth-limited def chain)"""

    def __init__(self, fn):
        self.fn = fn
        self.defs = Defs(fn)

    def of_op(self, o, depth=3):
        if o['k'] == 'const':
            if 'named' in o:
                return 'const:' + o['named'].split('::')[-1]
            if 'promoted' in o:
                return 'promoted'
            if 'int' in o:
                return 'lit:' + o['int']
            return 'lit'
        if o['k'] in ('copy', 'move'):
            return self.of_place(o['pl'], depth)
        return '?'

    def of_place(self, pl, depth=3):
        l = pl['l']
        fl = [p['n'] for p in pl['p'] if isinstance(p, dict) and 'f' in p]
        suffix = ''.join('.' + x for x in fl)
        if 1 <= l <= self.fn.argc:
            return 'param#%d%s' % (l, suffix)
        ds = self.defs.defs.get(l, [])
        if l in self.fn.dbg and (len(ds) != 1 or depth <= 0):
            return 'var' + suffix
        if len(ds) != 1 or depth <= 0:
            return 'tmp' + suffix
        d = ds[0]
        if d[0] == 'call':
            t = d[2]
            args = ','.join(self.of_op(a, depth - 1) for a in t['args'][:3])
            return '%s(%s)%s' % (short(cdef(t)) if 'def' in t['callee'] else 'indirect', args, suffix)
        st = d[2]
        rv = st['rv']
        r = rv['r']
        if r == 'use':
            return self.of_op(rv['op'], depth) + suffix
        if r == 'ref':
            return self.of_place(rv['pl'], depth) + suffix
        if r == 'cast':
            return 'as(%s)%s' % (self.of_op(rv['op'], depth - 1), suffix)
        if r == 'bin':
            bop = rv['bop'].replace('WithOverflow', '')
            xs = [self.of_op(rv['a'], depth - 1), self.of_op(rv['b'], depth - 1)]
            if bop in ('Add', 'Mul', 'Eq', 'Ne', 'BitAnd', 'BitOr'):
                xs.sort()
            return '%s(%s,%s)%s' % (bop, xs[0], xs[1], suffix)
        if r == 'un':
            return '%s(%s)%s' % (rv['uop'], self.of_op(rv['a'], depth - 1), suffix)
        if r == 'discr':
            return 'discr(%s)' % self.of_place(rv['pl'], depth - 1)
        if r == 'agg':
            k = rv['kind']
            nm = k.get('adt', k.get('a', 'agg')).split('::')[-1]
            if k.get('a') == 'adt' and k.get('variant') and k['variant'] != nm:
                nm += '::' + k['variant']
            if depth <= 1:
                return nm + suffix
            return '%s{%s}%s' % (nm, ','.join(self.of_op(o, depth - 1) for o in rv['ops'][:4]), suffix)
        return 'tmp' + suffix


class Site:
    def __init__(self, fn, bid, kind, desc, line, term, exp):
        self.fn = fn
        self.bid = bid
        self.kind = kind
        self.desc = desc
        self.line = line
        self.term = term
        self.exp = exp
        self.ord = 0

    @property
    def key(self):
        return '%s|%s|%s#%d' % (self.fn.key, self.kind, self.desc, self.ord)

    def where(self):
        return '%s:%d' % (self.term['loc']['file'] if not self.exp else self.fn.file, self.line)


def fn_sites(F, fn):
    prov = Provenance(fn)
    out = []
    for bid in sorted(fn.live_blocks()):
        t = fn.blocks[bid]['term']
        loc = t.get('loc', {})
        line = loc.get('line', fn.line)
        exp = loc.get('exp', False)
        if exp and not str(loc.get('file', '')).startswith('src/'):
            # site textually inside a std macro expansion: report at the enclosing statement line if known
            for st in fn.blocks[bid]['st']:
                line = st.get('line', line)
        if t['t'] == 'assert':
            k = t['kind']
            if any(k.startswith(x) for x in IGNORED_ASSERTS):
                continue
            descs = [prov.of_op(o) for o in t['ops']]
            if k in ('Overflow:Add', 'Overflow:Mul'):
                descs.sort()          # commutative: operand order must not change the key
            desc = ','.join(descs)
            out.append(Site(fn, bid, 'assert:' + k, desc, line, t, exp))
        elif t['t'] == 'call':
            c = t['callee']
            if 'def' not in c:
                continue
            d = strip_args(c['def'])
            res = c.get('resolved') or ''
            if t['to'] is None:
                out.append(Site(fn, bid, 'diverge:' + short(c['def']), ','.join(prov.of_op(a, 2) for a in t['args'][:2]), line, t, exp))
                continue
            if res in F.fns:
                continue
            hit = None
            for rx, label in MAYPANIC:
                if rx.search(d):
                    hit = label
                    break
            if hit is None and BIGNUM_DIV.search(d) and ('num_bigint' in c.get('static', '') or 'num_bigint' in res):
                hit = 'bignum-div'
            if hit:
                desc = '%s(%s)' % (short(c['def']), ','.join(prov.of_op(a, 2) for a in t['args'][:3]))
                out.append(Site(fn, bid, 'call:' + hit, desc, line, t, exp))
    cnt = collections.Counter()
    for s in out:
        k = (s.kind, s.desc)
        s.ord = cnt[k]
        cnt[k] += 1
    return out


# ---------------------------------------------------------------- automatic discharge
INT_BITS = {'u8': 8, 'u16': 16, 'u32': 32, 'u64': 64, 'u128': 128, 'usize': 64, 'i8': 8, 'i16': 16, 'i32': 32, 'i64': 64, 'i128': 128, 'isize': 64}


def ty_range(ty):
    b = INT_BITS.get(ty)
    if b is None:
        return None
    if ty.startswith('u'):
        return (0, (1 << b) - 1)
    return (-(1 << (b - 1)), (1 << (b - 1)) - 1)


class Intervals:
    """integer intervals for single-assignment temporaries, refined by dominating branch
    conditions (D2 + D3).  Values of multiply-assigned locals are the type range.  A refinement
    from a condition `x < c` is applied to x only when x is *stable* (a parameter that is never
    reassigned or mutably borrowed, or a local with exactly one definition), so the value
    tested is the value used."""

    def __init__(self, F, fn):
        self.F = F
        self.fn = fn
        self.defs = Defs(fn)
        self._views = {}
        self._stable = {}

    def stable(self, l):
        if l not in self._stable:
            ds = self.defs.defs.get(l, [])
            if l in self.defs.mut_borrowed or self.defs.partial.get(l) or not ds:
                self._stable[l] = False
            else:
                self._stable[l] = len(ds) == 1 or phi_stable(self.fn, self.defs, l)
        return self._stable[l]

    def canon(self, o, depth=8):
        """canonical (root local, projection tuple) of an operand, through single-def copies/refs"""
        if o['k'] not in ('copy', 'move'):
            return None
        return self.canon_place(o['pl'], depth)

    def canon_place(self, pl, depth=8):
        l = pl['l']
        projs = tuple(('f', p['f']) if isinstance(p, dict) and 'f' in p else ('*',) if p == '*' else ('?', str(p)) for p in pl['p'])
        projs = tuple(p for p in projs if p != ('*',))
        while depth > 0:
            depth -= 1
            ds = self.defs.defs.get(l, [])
            if len(ds) != 1 or ds[0][0] != 'assign' or l in self.defs.mut_borrowed or self.defs.partial.get(l):
                break
            rv = ds[0][2]['rv']
            src = None
            if rv['r'] == 'use' and rv['op']['k'] in ('copy', 'move'):
                src = rv['op']['pl']
            elif rv['r'] == 'ref':
                src = rv['pl']
            if src is None:
                break
            sp = tuple(('f', p['f']) if isinstance(p, dict) and 'f' in p else ('*',) if p == '*' else ('?', str(p)) for p in src['p'])
            sp = tuple(p for p in sp if p != ('*',))
            l = src['l']
            projs = sp + projs
        return (l, projs)

    def view(self, bid=None):
        if bid not in self._views:
            self._views[bid] = View(self, bid)
        return self._views[bid]

    # convenience for callers that do not care about the program point
    def of_op(self, o):
        return self.view(None).of_op(o)

    @staticmethod
    def arith(bop, a, b, full):
        if a is None or b is None:
            return None
        if bop in ('Add', 'AddUnchecked'):
            return (a[0] + b[0], a[1] + b[1])
        if bop in ('Sub', 'SubUnchecked'):
            return (a[0] - b[1], a[1] - b[0])
        if bop in ('Mul', 'MulUnchecked'):
            c = [a[0] * b[0], a[0] * b[1], a[1] * b[0], a[1] * b[1]]
            return (min(c), max(c))
        if bop in ('Shr', 'ShrUnchecked') and a[0] >= 0 and b[0] >= 0:
            return (a[0] >> min(b[1], 200), a[1] >> b[0])
        if bop in ('Shl', 'ShlUnchecked') and a[0] >= 0 and b[0] >= 0 and b[1] < 200:
            return (a[0] << b[0], a[1] << b[1])
        if bop == 'BitAnd' and a[0] >= 0 and b[0] >= 0:
            return (0, min(a[1], b[1]))
        if bop == 'Rem' and b[0] > 0 and a[0] >= 0:
            return (0, min(a[1], b[1] - 1))
        if bop == 'Div' and b[0] > 0 and a[0] >= 0:
            return (a[0] // b[1], a[1] // b[0])
        return None


class View:
    """interval environment at one program point (block id) -- overrides from dominating conditions"""

    def __init__(self, iv, bid):
        self.iv = iv
        self.fn = iv.fn
        self.F = iv.F
        self.defs = iv.defs
        self.bid = bid
        self.over = {}        # canonical (local, projs) -> interval
        self.nonempty = set()  # canonical places known to be non-empty collections/strings
        self.memo = {}
        self.unreachable = False
        if bid is not None:
            self._refine_from_dominators()

    # ----- refinement
    def _refine_from_dominators(self):
        fn = self.fn
        dom = fn.dominators()
        for d in sorted(dom.get(self.bid, ())):
            if d == self.bid:
                continue
            t = fn.blocks[d]['term']
            if t['t'] != 'switch':
                continue
            edges = [(v, tg) for v, tg in t['targets']] + [('otherwise', t['otherwise'])]
            taken = [v for v, tg in edges if tg in dom[self.bid] and tg != d]
            if len(taken) != 1 or len({tg for _, tg in edges}) < 2:
                continue
            vals = [v for v, _ in t['targets']]
            l = op_local(t['on'])
            if l is None:
                continue
            if vals == ['0']:
                truth = (taken[0] == 'otherwise')
            elif taken[0] in ('0', '1'):
                truth = taken[0] == '1'
            else:
                continue
            self._apply_cond(l, truth, 4)

    def _apply_cond(self, l, truth, depth):
        if depth <= 0:
            return
        ds = self.defs.defs.get(l, [])
        if len(ds) != 1:
            return
        d = ds[0]
        if d[0] == 'assign':
            rv = d[2]['rv']
            if rv['r'] == 'un' and rv['uop'] == 'Not':
                s = op_local(rv['a'])
                if s is not None:
                    self._apply_cond(s, not truth, depth - 1)
            elif rv['r'] == 'use':
                s = op_local(rv['op'])
                if s is not None:
                    self._apply_cond(s, truth, depth - 1)
            elif rv['r'] == 'bin' and rv['bop'] in ('Lt', 'Le', 'Gt', 'Ge', 'Eq', 'Ne'):
                self._apply_cmp(rv['bop'], rv['a'], rv['b'], truth)
        elif d[0] == 'call':
            t = d[2]
            dd = strip_args(cdef(t))
            if re.search(r'::is_empty$', dd) and t['args'] and not truth:
                c = self.iv.canon(t['args'][0])
                if c is not None and self.iv.stable(c[0]):
                    self.nonempty.add(c)
            for nm, op in (('PartialOrd::lt', 'Lt'), ('PartialOrd::le', 'Le'), ('PartialOrd::gt', 'Gt'), ('PartialOrd::ge', 'Ge'), ('PartialEq::eq', 'Eq'), ('PartialEq::ne', 'Ne')):
                if dd.endswith(nm) and len(t['args']) == 2:
                    self._apply_cmp(op, t['args'][0], t['args'][1], truth)

    def _apply_cmp(self, bop, a, b, truth):
        if not truth:
            bop = {'Lt': 'Ge', 'Le': 'Gt', 'Gt': 'Le', 'Ge': 'Lt', 'Eq': 'Ne', 'Ne': 'Eq'}[bop]
        ia, ib = self.of_op(a), self.of_op(b)
        for x, ix, iy, op in ((a, ia, ib, bop), (b, ib, ia, {'Lt': 'Gt', 'Le': 'Ge', 'Gt': 'Lt', 'Ge': 'Le', 'Eq': 'Eq', 'Ne': 'Ne'}[bop])):
            if iy is None or ix is None:
                continue
            c = self.iv.canon(x)
            if c is None or not self.iv.stable(c[0]):
                continue
            lo, hi = ix
            if op == 'Lt':
                hi = min(hi, iy[1] - 1)
            elif op == 'Le':
                hi = min(hi, iy[1])
            elif op == 'Gt':
                lo = max(lo, iy[0] + 1)
            elif op == 'Ge':
                lo = max(lo, iy[0])
            elif op == 'Eq':
                lo, hi = max(lo, iy[0]), min(hi, iy[1])
            elif op == 'Ne' and iy[0] == iy[1]:
                if lo == iy[0]:
                    lo += 1
                if hi == iy[0]:
                    hi -= 1
            if (lo, hi) != ix:
                self.over[c] = (lo, hi)
                self.memo = {}
                if lo > hi:
                    self.unreachable = True       # the dominating conditions contradict each other

    # ----- evaluation
    def of_op(self, o, depth=8):
        if o['k'] == 'const':
            if 'int' in o:
                v = int(o['int'])
                return (v, v)
            if 'promoted' in o:
                pv = self.F.promoted_value(self.fn, o['promoted'])
                if pv and pv[0] == 'int':
                    return (pv[1], pv[1])
            return None
        if o['k'] in ('copy', 'move'):
            return self.of_place(o['pl'], depth)
        return None

    def of_place(self, pl, depth=8):
        c = self.iv.canon_place(pl)
        if c in self.over:
            return self.over[c]
        ty = strip_lt(pl['ty']).lstrip('&')
        full = ty_range(ty)
        projs = [p for p in pl['p'] if p != '*' and not (isinstance(p, dict) and 'dc' in p)]
        has_dc = any(isinstance(p, dict) and 'dc' in p for p in pl['p'])
        if has_dc and len(projs) == 1 and isinstance(projs[0], dict) and projs[0].get('f') == 0:
            # payload of Some(..) returned by a search: an index below the length (<= isize::MAX)
            ds = self.defs.defs.get(pl['l'], [])
            if len(ds) == 1 and ds[0][0] == 'call' and re.search(r'::find$|::rfind$|::position$|::rposition$', strip_args(cdef(ds[0][2]))):
                return (0, (1 << 63) - 2)
            return full
        if not projs:
            r = self.of_local(pl['l'], depth)
            return r if r is not None else full
        if len(projs) == 1 and isinstance(projs[0], dict) and 'f' in projs[0]:
            r = self.of_local_field(pl['l'], projs[0]['f'], depth)
            if r is not None and full is not None:
                return (max(r[0], full[0]), min(r[1], full[1]))
        return full

    def of_local_field(self, l, fidx, depth):
        ds = self.defs.defs.get(l, [])
        if len(ds) != 1 or depth <= 0:
            return None
        d = ds[0]
        if d[0] == 'assign':
            rv = d[2]['rv']
            if rv['r'] == 'bin' and rv['bop'].endswith('WithOverflow') and fidx == 0:
                a = self.of_op(rv['a'], depth - 1)
                b = self.of_op(rv['b'], depth - 1)
                return Intervals.arith(rv['bop'].replace('WithOverflow', ''), a, b, None)
            if rv['r'] == 'agg' and rv['kind']['a'] == 'tuple' and fidx < len(rv['ops']):
                return self.of_op(rv['ops'][fidx], depth - 1)
            if rv['r'] == 'use' and rv['op']['k'] in ('copy', 'move') and not rv['op']['pl']['p']:
                return self.of_local_field(rv['op']['pl']['l'], fidx, depth - 1)
        elif d[0] == 'call':
            t = d[2]
            dd = strip_args(cdef(t))
            if re.search(r'Integer::div_rem$', dd) and len(t['args']) == 2:
                a = self.of_op(t['args'][0], depth - 1)
                b = self.of_op(t['args'][1], depth - 1)
                if a and b and a[0] >= 0 and b[0] > 0:
                    return (a[0] // b[1], a[1] // b[0]) if fidx == 0 else (0, b[1] - 1)
        return None

    def of_local(self, l, depth=8):
        if l in self.memo:
            return self.memo[l]
        ty = strip_lt(self.fn.locals[l]).lstrip('&')
        full = ty_range(ty)
        self.memo[l] = full
        c = self.iv.canon_place({'l': l, 'p': []})
        if c in self.over:
            self.memo[l] = self.over[c]
            return self.over[c]
        ds = self.defs.defs.get(l, [])
        if len(ds) != 1 or self.defs.partial.get(l) or depth <= 0 or l in self.defs.mut_borrowed:
            return full
        d = ds[0]
        r = full
        if d[0] == 'assign':
            rv = d[2]['rv']
            k = rv['r']
            if k == 'use':
                r = self.of_op(rv['op'], depth - 1) or full
            elif k == 'ref':
                r = self.of_place(rv['pl'], depth - 1) or full
            elif k == 'cast' and rv['kind'].startswith('IntToInt'):
                src = self.of_op(rv['op'], depth - 1)
                if src is not None and full is not None and src[0] >= full[0] and src[1] <= full[1]:
                    r = src
            elif k == 'bin':
                a = self.of_op(rv['a'], depth - 1)
                b = self.of_op(rv['b'], depth - 1)
                r = Intervals.arith(rv['bop'], a, b, full) or full
        elif d[0] == 'call':
            t = d[2]
            dd = strip_args(cdef(t))
            args = t['args']
            if re.search(r'::len$|::count$|::capacity$', dd):
                lo = 0
                if args:
                    c0 = self.iv.canon(args[0])
                    if c0 in self.nonempty:
                        lo = 1
                r = (lo, (1 << 63) - 1)   # allocation sizes never exceed isize::MAX
            elif re.search(r'::count_ones$|::leading_zeros$|::trailing_zeros$', dd):
                r = (0, 128)
            elif re.search(r'cmp::min$|Ord::min$', dd) and len(args) == 2:
                a, b = self.of_op(args[0], depth - 1), self.of_op(args[1], depth - 1)
                if a and b:
                    r = (min(a[0], b[0]), min(a[1], b[1]))
            elif re.search(r'cmp::max$|Ord::max$', dd) and len(args) == 2:
                a, b = self.of_op(args[0], depth - 1), self.of_op(args[1], depth - 1)
                if a and b:
                    r = (max(a[0], b[0]), max(a[1], b[1]))
            elif re.search(r'NonZero::get$', dd) and full is not None:
                r = (max(1, full[0]), full[1])
            elif re.search(r'::saturating_sub$', dd) and len(args) == 2:
                a, b = self.of_op(args[0], depth - 1), self.of_op(args[1], depth - 1)
                if a and b and full:
                    r = (max(full[0], a[0] - b[1]), max(full[0], a[1] - b[0]))
        if r is not None and full is not None:
            r = (max(r[0], full[0]), min(r[1], full[1]))
        self.memo[l] = r
        return r


TO_PRIM = re.compile(r'ToPrimitive::to_(usize|u8|u16|u32|u64|u128|isize|i8|i16|i32|i64|i128)$')


def _single_def(iv, l):
    ds = iv.defs.defs.get(l, [])
    return ds[0] if len(ds) == 1 else None


def _closure_arg(iv, l):
    """is local l (through single-definition copies) the closure's own argument?"""
    hops = 0
    while l is not None and hops < 6:
        hops += 1
        if l == 2 and [d_[0] for d_ in iv.defs.defs.get(l, [])] in ([], ['param']):
            return True
        d = _single_def(iv, l)
        if not d or d[0] != 'assign':
            return False
        rv = d[2]['rv']
        l = op_local(rv['op']) if rv['r'] == 'use' and rv['op']['k'] in ('copy', 'move') and not rv['op']['pl']['p'] else None
    return False


def _closure_fed_by_find(F, fn):
    """fn is a closure `|loc| ..` passed to Option::map/and_then/.. on the result of `X.find(pat)` in its parent:
    returns (parent fn, parent Intervals, find call terminator, capture operands of the closure) or None"""
    if not fn.is_closure:
        return None
    parent = F.fns.get(re.sub(r'::\{closure#\d+\}$', '', fn.name))
    if parent is None:
        return None
    piv = Intervals(F, parent)
    for bid, st in parent.stmts():
        rv = st['rv']
        if rv['r'] == 'agg' and rv['kind'].get('a') == 'closure' and rv['kind'].get('def') == fn.name and not st['lhs']['p']:
            cl = st['lhs']['l']
            for b2, t in parent.calls():
                if not re.search(r'Option::(map|and_then|map_or|map_or_else|filter|is_some_and|inspect)$', strip_args(cdef(t))):
                    continue
                if not any(op_local(a) == cl for a in t['args'][1:]):
                    continue
                d = _single_def(piv, op_local(t['args'][0])) if t['args'] and op_local(t['args'][0]) is not None else None
                hops = 0
                while d and d[0] == 'assign' and hops < 4:
                    hops += 1
                    rv2 = d[2]['rv']
                    nx = op_local(rv2['op']) if rv2['r'] == 'use' and rv2['op']['k'] in ('copy', 'move') and not rv2['op']['pl']['p'] else None
                    d = _single_def(piv, nx) if nx is not None else None
                if d and d[0] == 'call' and re.search(r'str::find$|str::rfind$', strip_args(cdef(d[2]))):
                    return parent, piv, d[2], rv['ops']
    return None


def _onebyte_pattern(F, fn, iv, pat):
    if pat['k'] == 'const' and 'int' in pat and 0 <= int(pat['int']) < 128:
        return True
    if pat['k'] == 'const' and re.match(r"^const '.'$", pat.get('s', '') or ''):
        return ord(pat['s'][7]) < 128
    l = op_local(pat)
    hops = 0
    while l is not None and hops < 6:
        hops += 1
        dd = _single_def(iv, l)
        if dd is None or dd[0] != 'assign':
            return False
        rv = dd[2]['rv']
        if rv['r'] == 'use' and rv['op']['k'] == 'const' and 'promoted' in rv['op']:
            pv = F.promoted_value(fn, rv['op']['promoted'])
            return bool(pv and pv[0] == 'array' and pv[1] and all(isinstance(x, int) and 0 <= x < 128 for x in pv[1]))
        if rv['r'] in ('use', 'cast') and rv['op']['k'] in ('copy', 'move'):
            l = op_local(rv['op'])
        elif rv['r'] == 'ref':
            l = rv['pl']['l']
        else:
            return False
    return False


def _str_find_slice(F, fn, iv, site, base, bound_op, is_range):
    """D4 (std contract): a `str` sliced / split at the byte index returned by `find` on that same string - or one
    past it when the pattern matched is a one-byte (ASCII) char - is on a char boundary and within bounds, provided
    the slice is taken under the `Some` arm of that very `find`"""
    ty = strip_lt(base.get('ty') or base.get('pl', {}).get('ty', '')).lstrip('&')
    if not (ty == 'str' or ty.startswith('str')):
        return None
    root_base = iv.canon(base)
    if root_base is None:
        return None

    def bound_sources(o):
        """-> list of (option local, plus) the usize operand is computed from, or None"""
        l = op_local(o)
        seen = 0
        plus = 0
        while l is not None and seen < 8:
            seen += 1
            if fn.is_closure and l == 2 and [d_[0] for d_ in iv.defs.defs.get(l, [])] in ([], ['param']):
                return ('closure-param', plus)
            d = _single_def(iv, l)
            if d is None or d[0] != 'assign':
                return None
            rv = d[2]['rv']
            if rv['r'] == 'use' and rv['op']['k'] in ('copy', 'move'):
                pl = rv['op']['pl']
                pr = [p for p in pl['p'] if p != '*']
                if len(pr) == 2 and isinstance(pr[0], dict) and 'dc' in pr[0] and pr[0]['dc'] == 'Some' and isinstance(pr[1], dict) and pr[1].get('f') == 0:
                    return (pl['l'], plus)
                if len(pr) == 1 and isinstance(pr[0], dict) and pr[0].get('f') == 0:
                    l = pl['l']          # `.0` of an AddWithOverflow pair
                    continue
                if not pr:
                    l = pl['l']
                    continue
                return None
            if rv['r'] == 'bin' and rv['bop'].replace('WithOverflow', '') == 'Add':
                for x, y in ((rv['a'], rv['b']), (rv['b'], rv['a'])):
                    if y['k'] == 'const' and y.get('int') == '1' and x['k'] in ('copy', 'move'):
                        plus += 1
                        l = op_local(x)
                        break
                else:
                    return None
                continue
            return None
        return None

    bounds = []
    if is_range:
        d = _single_def(iv, op_local(bound_op)) if op_local(bound_op) is not None else None
        if d is None or d[0] != 'assign' or d[2]['rv']['r'] != 'agg':
            return None
        for o in d[2]['rv']['ops']:
            bounds.append(o)
    else:
        bounds.append(bound_op)
    if not bounds:
        return None
    doms = fn.dominators().get(site.bid, set())
    whys = []
    for o in bounds:
        if o['k'] == 'const':
            if o.get('int') == '0':
                continue
            return None
        src = bound_sources(o)
        if src is None or src[1] > 1:
            return None
        opt, plus = src
        if opt == 'closure-param':
            fed = _closure_fed_by_find(F, fn)
            if fed is None:
                return None
            parent, piv, ftm, caps = fed
            # the string sliced here must be the captured string the parent searched
            if not (root_base[0] == 1 and root_base[1] and root_base[1][0][0] == 'f'):
                return None
            k = root_base[1][0][1]
            if k >= len(caps) or caps[k]['k'] not in ('copy', 'move') or piv.canon(caps[k]) != piv.canon(ftm['args'][0]):
                return None
            if plus and not _onebyte_pattern(F, parent, piv, ftm['args'][1]):
                return None
            whys.append('the closure argument is the payload of find(..) on the captured string%s' % (' +1 past a one-byte pattern' if plus else ''))
            continue
        dcall = _single_def(iv, opt)
        if dcall is None or dcall[0] != 'call' or not re.search(r'str::find$|str::rfind$', strip_args(cdef(dcall[2]))):
            return None
        fargs = dcall[2]['args']
        if iv.canon(fargs[0]) != root_base:
            return None
        if plus:
            pat = fargs[1]
            onebyte = False
            if pat['k'] == 'const' and 'int' in pat and 0 <= int(pat['int']) < 128:
                onebyte = True
            elif pat['k'] == 'const' and re.match(r"^const '.'$", pat.get('s', '') or ''):
                onebyte = ord(pat['s'][7]) < 128
            else:
                # a slice / array of chars: every element must be ASCII
                l = op_local(pat)
                hops = 0
                while l is not None and hops < 6:
                    hops += 1
                    dd = _single_def(iv, l)
                    if dd is None or dd[0] != 'assign':
                        break
                    rv = dd[2]['rv']
                    if rv['r'] == 'use' and rv['op']['k'] == 'const' and 'promoted' in rv['op']:
                        pv = F.promoted_value(fn, rv['op']['promoted'])
                        if pv and pv[0] == 'array' and pv[1] and all(isinstance(x, int) and 0 <= x < 128 for x in pv[1]):
                            onebyte = True
                        break
                    if rv['r'] in ('use', 'cast') and rv['op']['k'] in ('copy', 'move'):
                        l = op_local(rv['op'])
                    elif rv['r'] == 'ref':
                        l = rv['pl']['l']
                    else:
                        break
            if not onebyte:
                return None
        # under the Some arm of that find
        ok = False
        for bid, st in fn.stmts():
            if st['rv']['r'] == 'discr' and st['rv']['pl']['l'] == opt and not st['rv']['pl']['p'] and not st['lhs']['p']:
                dl = st['lhs']['l']
                tt = fn.blocks[bid]['term']
                if tt['t'] == 'switch' and op_local(tt['on']) == dl:
                    for val, tgt in tt['targets']:
                        if int(val) == 1 and tgt in doms:
                            ok = True
        if not ok:
            return None
        whys.append('find(..)%s' % ('+1 past a one-byte pattern' if plus else ''))
    if not whys:
        return None
    return 'D4: sliced at the byte index returned by str::find on the same string (%s), under its Some arm: a char boundary within bounds' % ', '.join(whys)


ADAPTORS = re.compile(r'Iterator::(rev|take_while|skip_while|filter|take|skip|enumerate|by_ref|copied|cloned|map|zip|peekable|fuse|inspect|step_by)$|IntoIterator::into_iter$')
ELEMENTS = re.compile(r'str::(bytes|chars|char_indices)$|slice::iter$|Vec::iter$|String::(bytes|chars)$')


def _len_minus_count(F, fn, iv, a, b):
    """D5: `x.len() - it.count()` cannot underflow when `it` walks the elements of x (through adaptors that only drop or
    pair elements): the count is at most the length"""
    la, lb = op_local(a), op_local(b)
    if la is None or lb is None:
        return None
    def to_call(l):
        d, hops = _single_def(iv, l), 0
        while d and d[0] == 'assign' and hops < 6:
            hops += 1
            rv = d[2]['rv']
            nx = op_local(rv['op']) if rv['r'] in ('use', 'cast') and rv['op']['k'] in ('copy', 'move') and not rv['op']['pl']['p'] else None
            d = _single_def(iv, nx) if nx is not None else None
        return d
    da, db = to_call(la), to_call(lb)
    if not da or not db or da[0] != 'call' or db[0] != 'call':
        return None
    # min(count, anything) <= count: look through Ord::min to the operand that is a count
    hops_ = 0
    while re.search(r'cmp::min$|Ord::min$', strip_args(cdef(db[2]))) and hops_ < 3:
        hops_ += 1
        nxt = None
        for x in db[2]['args']:
            lx = op_local(x)
            dx = to_call(lx) if lx is not None else None
            if dx and dx[0] == 'call' and re.search(r'Iterator::count$|cmp::min$|Ord::min$', strip_args(cdef(dx[2]))):
                nxt = dx
                break
        if nxt is None:
            return None
        db = nxt
    if not re.search(r'::len$', strip_args(cdef(da[2]))) or not re.search(r'Iterator::count$', strip_args(cdef(db[2]))):
        return None
    base = iv.canon(da[2]['args'][0])
    if base is None:
        return None
    work = [op_local(db[2]['args'][0])]
    seen = 0
    while work and seen < 24:
        l = work.pop()
        seen += 1
        if l is None:
            continue
        d = _single_def(iv, l)
        if d is None:
            continue
        if d[0] == 'assign':
            rv = d[2]['rv']
            if rv['r'] in ('use', 'cast') and rv['op']['k'] in ('copy', 'move'):
                work.append(op_local(rv['op']))
            elif rv['r'] == 'ref':
                work.append(rv['pl']['l'])
            continue
        dd = strip_args(cdef(d[2]))
        if ELEMENTS.search(dd) and d[2]['args']:
            src = d[2]['args'][0]
            c = iv.canon(src)
            if c == base:
                return 'D5: the count of an iterator over the elements of the same value cannot exceed its len()'
            # through Deref (String -> str, Vec -> [T])
            l2 = op_local(src)
            d2 = _single_def(iv, l2) if l2 is not None else None
            hops = 0
            while d2 and d2[0] == 'assign' and hops < 6:
                hops += 1
                rv2 = d2[2]['rv']
                nx = rv2['pl']['l'] if rv2['r'] == 'ref' else (op_local(rv2['op']) if rv2['r'] in ('use', 'cast') and rv2['op']['k'] in ('copy', 'move') else None)
                d2 = _single_def(iv, nx) if nx is not None else None
            if d2 and d2[0] == 'call' and re.search(r'Deref::deref$|String::as_str$|Vec::as_slice$|String::as_bytes$|str::as_bytes$', strip_args(cdef(d2[2]))) and iv.canon(d2[2]['args'][0]) == base:
                return 'D5: the count of an iterator over the elements of the same value cannot exceed its len()'
            continue
        if ADAPTORS.search(dd):
            for x in d[2]['args']:
                if x['k'] in ('copy', 'move'):
                    work.append(op_local(x))
    return None


_SEQ_IDENT = re.compile(r'ops::Deref::deref$|ops::DerefMut::deref_mut$|::as_slice$|::as_mut_slice$|convert::AsRef::as_ref$|borrow::Borrow::borrow$|::as_str$|::as_bytes$')


def _seq_base(iv, o, depth=10):
    """the local that owns the sequence an operand refers to (through borrows, re-borrows, copies, deref/as_slice)"""
    l = op_local(o)
    seen = set()
    while l is not None and l not in seen and depth > 0:
        seen.add(l)
        depth -= 1
        d = _single_def(iv, l)
        if d is None:
            return l
        if d[0] == 'call':
            if _SEQ_IDENT.search(strip_args(cdef(d[2]))) and d[2]['args'] and op_local(d[2]['args'][0]) is not None:
                l = op_local(d[2]['args'][0])
                continue
            return l
        rv = d[2]['rv']
        if rv['r'] == 'ref' and all(p == '*' for p in rv['pl']['p']):
            l = rv['pl']['l']
            continue
        if rv['r'] == 'use' and rv['op']['k'] in ('copy', 'move') and all(p == '*' for p in rv['op']['pl']['p']):
            l = rv['op']['pl']['l']
            continue
        return l
    return l


def _canon_len_source(iv, o, depth=6):
    """canonical description of the sequence whose length an operand is: len(X) -> canon(X)"""
    l = op_local(o)
    hops = 0
    while l is not None and hops < depth:
        hops += 1
        d = _single_def(iv, l)
        if d is None:
            return None
        if d[0] == 'call':
            if re.search(r'::len$', strip_args(cdef(d[2]))) and d[2]['args']:
                b_ = _seq_base(iv, d[2]['args'][0])
                if b_ is None or b_ in iv.defs.mut_borrowed:
                    return None        # the sequence may change length between the two uses
                return ('seq', b_)
            return None
        rv = d[2]['rv']
        if rv['r'] == 'use' and rv['op']['k'] in ('copy', 'move') and not rv['op']['pl']['p']:
            l = op_local(rv['op'])
            continue
        if rv['r'] == 'bin' and rv['bop'] in ('SubWithOverflow', 'Sub') :
            return None
        return None
    return None


def _minus_min_of_self(fn, iv, a, b):
    """D6: x - min(x, y) cannot underflow (min(x, y) <= x)"""
    l = op_local(b)
    hops = 0
    while l is not None and hops < 4:
        hops += 1
        d = _single_def(iv, l)
        if d is None:
            return None
        if d[0] == 'call':
            if re.search(r'cmp::min$|Ord::min$', strip_args(cdef(d[2]))) and len(d[2]['args']) == 2:
                ca = iv.canon(a)
                sa = _canon_len_source(iv, a)
                if (ca is not None and any(iv.canon(x) == ca for x in d[2]['args'])) or \
                        (sa is not None and any(_canon_len_source(iv, x) == sa for x in d[2]['args'])):
                    return 'D6: x - min(x, y): the subtrahend is the minimum of the minuend and another value, so it cannot exceed it'
            return None
        rv = d[2]['rv']
        if rv['r'] == 'use' and rv['op']['k'] in ('copy', 'move') and not rv['op']['pl']['p']:
            l = op_local(rv['op'])
            continue
        return None
    return None


def _split_at_len_minus(fn, iv, base, mid):
    """D7: s.split_at(s.len() - k) with a checked subtraction: mid <= len(s)"""
    l = op_local(mid)
    hops = 0
    while l is not None and hops < 5:
        hops += 1
        d = _single_def(iv, l)
        if d is None or d[0] != 'assign':
            return None
        rv = d[2]['rv']
        if rv['r'] == 'use' and rv['op']['k'] in ('copy', 'move'):
            pl = rv['op']['pl']
            if pl['p'] and isinstance(pl['p'][0], dict) and pl['p'][0].get('f') == 0:
                l = pl['l']          # the value field of a checked (a - b, overflow) pair
                continue
            if not pl['p']:
                l = pl['l']
                continue
            return None
        if rv['r'] == 'bin' and rv['bop'] in ('SubWithOverflow', 'Sub'):
            src = _canon_len_source(iv, rv['a'])
            cb = ('seq', _seq_base(iv, base))
            if src is not None and cb[1] is not None and src == cb:
                return 'D7: split_at(len(s) - k) on the same sequence: the (overflow-checked) difference is at most len(s)'
            return None
        return None
    return None


def _element_counter(fn, iv, a, b, opty):
    """D8: `n += 1` for a counter that starts at the literal 0 and is only ever incremented by one, in a function that walks
    an iterator with next(): one increment per element at most, and no sequence has more than isize::MAX elements, so a
    64-bit (or wider) counter cannot overflow"""
    for x, y in ((a, b), (b, a)):
        if not (y['k'] == 'const' and y.get('int') == '1' and x['k'] in ('copy', 'move') and not x['pl']['p']):
            continue
        if opty(x) not in ('u64', 'i64', 'usize', 'isize', 'u128', 'i128'):
            continue
        l = x['pl']['l']
        # through a copy of the counter
        d0 = iv.defs.defs.get(l, [])
        if len(d0) == 1 and d0[0][0] == 'assign' and d0[0][2]['rv']['r'] == 'use' and d0[0][2]['rv']['op']['k'] in ('copy', 'move') and not d0[0][2]['rv']['op']['pl']['p']:
            l = d0[0][2]['rv']['op']['pl']['l']
        ds = iv.defs.defs.get(l, [])
        if len(ds) != 2 or any(d[0] != 'assign' for d in ds):
            continue
        init = [d for d in ds if d[2]['rv']['r'] == 'use' and d[2]['rv']['op']['k'] == 'const' and d[2]['rv']['op'].get('int') == '0']
        step = [d for d in ds if d not in init]
        if len(init) != 1 or len(step) != 1:
            continue
        rv = step[0][2]['rv']
        # counter := (checked sum).0  where the checked sum is this very addition
        ok = False
        if rv['r'] == 'use' and rv['op']['k'] in ('copy', 'move') and rv['op']['pl']['p'] and isinstance(rv['op']['pl']['p'][0], dict) and rv['op']['pl']['p'][0].get('f') == 0:
            dd = iv.defs.defs.get(rv['op']['pl']['l'], [])
            if len(dd) == 1 and dd[0][0] == 'assign' and dd[0][2]['rv']['r'] == 'bin' and dd[0][2]['rv']['bop'] == 'AddWithOverflow':
                ok = True
        if not ok:
            continue
        if any(re.search(r'Iterator::next$', strip_args(cdef(tt))) for _, tt in fn.calls()) and fn.has_loop():
            return 'D8: a 64-bit-or-wider counter that starts at 0 and is incremented by one per element of an iterator cannot overflow (at most isize::MAX elements)'
    return None


def auto_discharge(F, site, iv=None):
    """returns reason string if the site provably cannot fire, else None"""
    t = site.term
    fn = site.fn
    iv = iv or Intervals(F, fn)
    V = iv.view(site.bid)
    if getattr(V, 'unreachable', False):
        return 'D9: the conditions that dominate this site contradict each other (an integer would have to lie in an empty interval): the site is unreachable'

    def opty(o):
        return strip_lt(o.get('ty') or o.get('pl', {}).get('ty', '')).lstrip('&')

    if site.kind == 'assert:Overflow:Add' and fn.is_closure:
        ops_ = t['ops']
        for x_, y_ in ((ops_[0], ops_[1]), (ops_[1], ops_[0])):
            if y_['k'] == 'const' and y_.get('int') == '1' and x_['k'] in ('copy', 'move') and not x_['pl']['p'] and _closure_arg(iv, x_['pl']['l']) \
                    and _closure_fed_by_find(F, fn) is not None:
                return 'D4: the closure argument is an index returned by str::find (< len <= isize::MAX): adding 1 cannot overflow'
    if site.kind == 'assert:Overflow:Sub':
        r = _len_minus_count(F, fn, iv, t['ops'][0], t['ops'][1])
        if r:
            return r
        r = _minus_min_of_self(fn, iv, t['ops'][0], t['ops'][1])
        if r:
            return r
    if site.kind == 'assert:Overflow:Add':
        r = _element_counter(fn, iv, t['ops'][0], t['ops'][1], opty)
        if r:
            return r
    if site.kind.startswith('assert:Overflow:'):
        op = site.kind.split(':')[2]
        a, b = t['ops']
        ia, ib = V.of_op(a), V.of_op(b)
        aty = opty(a)
        full = ty_range(aty)
        if op in ('Shl', 'Shr'):
            bits = INT_BITS.get(aty)
            if ib is not None and bits and 0 <= ib[0] and ib[1] < bits:
                return 'D1/D2: shift amount in [%d,%d] < %d bits' % (ib[0], ib[1], bits)
            return None
        r = Intervals.arith(op, ia, ib, full)
        if r is not None and full is not None and r[0] >= full[0] and r[1] <= full[1]:
            return 'D2: %s of [%d,%d] and [%d,%d] stays within %s' % (op, ia[0], ia[1], ib[0], ib[1], aty)
        return None
    if site.kind == 'assert:OverflowNeg':
        a = t['ops'][0]
        ia = V.of_op(a)
        full = ty_range(opty(a))
        if ia is not None and full is not None and ia[0] > full[0]:
            return 'D2: operand of negation in [%d,%d] excludes %s::MIN' % (ia[0], ia[1], opty(a))
        return None
    if site.kind in ('assert:DivisionByZero', 'assert:RemainderByZero'):
        ia = V.of_op(t['ops'][0])
        if ia is not None and (ia[0] > 0 or ia[1] < 0):
            return 'D2: divisor in [%d,%d] excludes zero' % ia
        return None
    if site.kind == 'assert:BoundsCheck':
        ln, idx = t['ops']
        il, ii = V.of_op(ln), V.of_op(idx)
        if il is not None and ii is not None and ii[0] >= 0 and ii[1] < il[0]:
            return 'D2: index in [%d,%d] below length >= %d' % (ii[0], ii[1], il[0])
        return None
    if site.kind == 'call:index' and len(t['args']) >= 2:
        if opty(t['args'][1]).endswith('RangeFull'):
            return 'D1: indexing with the full range `[..]` cannot fail'
        r = _str_find_slice(F, fn, iv, site, t['args'][0], t['args'][1], is_range=True)
        if r:
            return r
        return None
    if site.kind == 'call:split_at' and len(t['args']) >= 2:
        r = _str_find_slice(F, fn, iv, site, t['args'][0], t['args'][1], is_range=False)
        if r:
            return r
        r = _split_at_len_minus(fn, iv, t['args'][0], t['args'][1])
        if r:
            return r
        return None
    if site.kind == 'call:radix':
        cand = [a for a in t['args'] if a['k'] == 'const' and 'int' in a]
        if cand and all(2 <= int(a['int']) <= 36 for a in cand):
            return 'D1: constant radix %s in 2..=36' % ','.join(a['int'] for a in cand)
        for a in t['args']:
            if opty(a) == 'u32':
                ia = V.of_op(a)
                if ia is not None and 2 <= ia[0] and ia[1] <= 36:
                    return 'D3: radix argument refined to [%d,%d] by the dominating radix test' % ia
        return None
    if site.kind == 'call:bignum-div' and len(t['args']) >= 2:
        l = op_local(t['args'][1])
        seen = 0
        while l is not None and seen < 6:
            seen += 1
            d = _single_def(iv, l)
            if d is None:
                break
            if d[0] == 'call':
                r = cres(d[2])
                if re.search(r'arithmetic::ten_to_the(_uint|_u64)?$', r):
                    return 'D1: divisor is %s(..), a power of ten (never zero) by the helper summary' % r.split('::')[-1]
                if re.search(r'convert::(From::from|Into::into)$|Clone::clone$', strip_args(cdef(d[2]))) and d[2]['args']:
                    l = op_local(d[2]['args'][0])
                    continue
                break
            rv = d[2]['rv']
            if rv['r'] in ('use',) and rv['op']['k'] in ('copy', 'move'):
                l = op_local(rv['op'])
            elif rv['r'] == 'ref':
                l = rv['pl']['l'] if not rv['pl']['p'] else None
            else:
                break
        return None
    if site.kind == 'call:int-overflowing-fn':
        dd = strip_args(cdef(t))
        args = t['args']
        if dd.endswith('::pow') and len(args) == 2:
            ia, ib = V.of_op(args[0]), V.of_op(args[1])
            full = ty_range(opty(args[0]))
            if ia and ib and full and ia[0] >= 0 and 0 <= ib[1] <= 200 and ia[1] ** ib[1] <= full[1]:
                return 'D2: %d^%d fits %s' % (ia[1], ib[1], opty(args[0]))
        if dd.endswith('::abs') and args:
            ia = V.of_op(args[0])
            full = ty_range(opty(args[0]))
            if ia and full and ia[0] > full[0]:
                return 'D2: abs operand in [%d,%d] excludes MIN' % ia
        return None
    if site.kind == 'call:unwrap-option' and t['args']:
        # unwrap(to_<int>(x)) where x provably fits; unwrap(NumCast::from(lit)) for primitive instantiations
        l = op_local(t['args'][0])
        d = _single_def(iv, l) if l is not None else None
        if d is not None and d[0] == 'call':
            t2 = d[2]
            dd = strip_args(cdef(t2))
            m = TO_PRIM.search(dd)
            if m and t2['args']:
                ia = V.of_op(t2['args'][0])
                tgt = ty_range(m.group(1))
                srcty = opty(t2['args'][0])
                if ia is None and srcty in INT_BITS:
                    ia = ty_range(srcty)
                if ia is not None and tgt is not None and tgt[0] <= ia[0] and ia[1] <= tgt[1]:
                    return 'D2: to_%s of a value in [%d,%d] is always Some (64-bit usize)' % (m.group(1), ia[0], ia[1])
            if re.search(r'NumCast::from$', dd) and t2['args']:
                ia = V.of_op(t2['args'][0])
                g = [strip_lt(x) for x in t2['callee'].get('gargs', []) if not x.startswith("'")]
                if ia is not None and g:
                    selfty = g[0]
                    tys = [selfty]
                    if selfty in fn.d.get('generics', []):
                        inst = F.instantiations(fn).get(selfty)
                        tys = sorted(inst) if inst else []
                    if tys and all(ty_range(x) is not None and ty_range(x)[0] <= ia[0] and ia[1] <= ty_range(x)[1] for x in tys):
                        return 'D2: NumCast::from(%d) into %s is always Some' % (ia[0], '/'.join(tys))
            if re.search(r'NonZero::new$', dd) and t2['args']:
                ia = V.of_op(t2['args'][0])
                if ia is not None and (ia[0] > 0 or ia[1] < 0):
                    return 'D2: NonZero::new of a value in [%d,%d] is always Some' % ia
        return None
    return None


# ---------------------------------------------------------------- reviewed table + dominating conditions
def dominating_conditions(fn, bid, prov=None):
    """[(provenance string of the switch discriminant, edge value or 'otherwise')] for every switch
    that dominates block `bid` through exactly one outgoing edge"""
    prov = prov or Provenance(fn)
    dom = fn.dominators()
    out = []
    for d in sorted(dom.get(bid, ())):
        if d == bid:
            continue
        t = fn.blocks[d]['term']
        if t['t'] != 'switch':
            continue
        edges = [(v, tg) for v, tg in t['targets']] + [('otherwise', t['otherwise'])]
        taken = [v for v, tg in edges if tg in dom[bid] and tg != d]
        tgts = {tg for _, tg in edges}
        if len(taken) == 1 and len(tgts) > 1:
            out.append((prov.of_op(t['on'], 4), taken[0]))
    return out


def relax_desc(k):
    """provenance text modulo value-preserving wrappers: Try::branch(x) -> x, payload / tuple projections of temporaries"""
    prev = None
    while prev != k:
        prev = k
        k = re.sub(r'Try::branch\(([^()]*)\)', r'\1', k)
    k = re.sub(r'(\.0)+', '.0', k)
    return k


def check_requires(fn, site, requires, prov=None):
    """requires: list of {'cond': regex on the discriminant provenance, 'edge': '0'|'1'|'otherwise'|'nonzero'}"""
    conds = dominating_conditions(fn, site.bid, prov)
    missing = []
    def holds(r):
        for desc, edge in conds:
            if re.search(r['cond'], desc) or re.search(r['cond'], relax_desc(desc)):
                want = r.get('edge')
                if want is None or want == edge or (want == 'nonzero' and edge != '0') or (want == '1' and edge == 'otherwise'):
                    return True
        return False
    def top_split(desc):
        m = re.match(r'^(Gt|Lt|Ge|Le)\((.*)\)$', desc)
        if not m:
            return None
        body, depth = m.group(2), 0
        for i, ch in enumerate(body):
            if ch in '({':
                depth += 1
            elif ch in ')}':
                depth -= 1
            elif ch == ',' and depth == 0:
                return m.group(1), body[:i], body[i + 1:]
        return None

    def le_holds(r):
        # {'le': [A, B]}: a dominating comparison establishes A <= B, however it is written
        ra, rb = r['le']
        for desc, edge in conds:
            sp = top_split(desc)
            if not sp:
                continue
            op, x, y = sp
            true_edge = edge != '0'
            for (o, l, rr) in ((op, x, y), ({'Gt': 'Lt', 'Lt': 'Gt', 'Ge': 'Le', 'Le': 'Ge'}[op], y, x)):
                # normalised so that l is matched against A and rr against B
                if re.search(ra, l) and re.search(rb, rr) and ((o == 'Gt' and not true_edge) or (o == 'Le' and true_edge)):
                    return True
        return False
    _holds = holds
    holds = lambda r: le_holds(r) if 'le' in r else _holds(r)
    for r in requires:
        # {'any': [alt, ...]}: the same guard written in one of several equivalent ways (a >= b, b <= a, !(a < b), ...)
        ok = any(holds(a) for a in r['any']) if 'any' in r else holds(r)
        if not ok:
            missing.append(r)
    return missing, conds
