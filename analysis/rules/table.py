"""R-TABLE: finite decision tables extracted from the CFG of small loop-free functions.

The function's paths are enumerated over *term* values (parameters, constants, comparisons,
discriminants); every SwitchInt on a non-constant term forks and records an atom
(term, edge value).  The result is the complete table  atoms -> outcome term.  The table is then
compared with a specification by evaluating the atoms (predicates over a finite domain of
abstract inputs -- enum variants, digit values, booleans), never by running the function.
"""
import re
from facts import cdef, cres, op_local

MAX_PATHS = 4000


class Undecided(Exception):
    pass


def T(*a):
    return tuple(a)


class PathEnum:
    """enumerate (atoms, outcome) for a loop-free body"""

    def __init__(self, F, fn, inline=None, max_paths=MAX_PATHS, cut_loops=False):
        self.cut_loops = cut_loops      # a path that closes a back edge ends with outcome ('loop', bb) instead of making the body undecided
        self.F = F
        self.fn = fn
        self.paths = []
        self.effects = []      # per path (parallel to self.paths): ordered list of (callee, args) of every call executed
        self.max_paths = max_paths
        self.inline = inline or (lambda name: False)

    def run(self):
        store = {}
        for i in range(1, self.fn.argc + 1):
            store[i] = T('param', i)
        self._dfs(0, store, [], set(), (), {})
        return self.paths

    # ---- values
    def place(self, store, pl):
        v = store.get(pl['l'], T('undef', pl['l']))
        for p in pl['p']:
            if p == '*':
                if isinstance(v, tuple) and v and v[0] == 'ref':
                    v = v[1]
                continue
            if isinstance(p, dict) and 'f' in p:
                v = self.field(v, p['f'], p.get('n'))
            elif isinstance(p, dict) and 'dc' in p:
                v = T('downcast', v, p['dc'])
            elif isinstance(p, dict) and 'idx' in p:
                v = T('index', v, store.get(p['idx'], T('undef', p['idx'])))
            else:
                v = T('index', v)
        return v

    @staticmethod
    def field(v, idx, name=None):
        if isinstance(v, tuple) and v:
            if v[0] == 'ref':
                return PathEnum.field(v[1], idx, name)
            if v[0] == 'tuple' and idx < len(v[1]):
                return v[1][idx]
            if v[0] == 'adt' and idx < len(v[3]):
                return v[3][idx]
            if v[0] == 'downcast' and isinstance(v[1], tuple) and v[1] and v[1][0] == 'adt' and v[1][2] == v[2] and idx < len(v[1][3]):
                return v[1][3][idx]
            if v[0] == 'with_field' and name is not None:
                return v[3] if v[2] == name else PathEnum.field(v[1], idx, name)
            if v[0] == 'ovf' and idx == 0:
                return v[1]
            if v[0] == 'ovf' and idx == 1:
                return T('const', 0)
        return T('field', v, name if name is not None else idx)

    def operand(self, store, o):
        if o['k'] in ('copy', 'move'):
            return self.place(store, o['pl'])
        if o['k'] == 'const':
            if 'promoted' in o:
                pv = self.F.promoted_value(self.fn, o['promoted'])
                if pv:
                    if pv[0] == 'int':
                        return T('ref', T('const', pv[1]))
                    if pv[0] == 'variant':
                        return T('ref', T('adt', pv[1], pv[2], ()))
                return T('promoted', o['promoted'])
            if 'int' in o:
                return T('const', int(o['int']))
            if 'named' in o:
                return T('named', o['named'])
            if 'fn_def' in o:
                return T('fn', o['fn_def'])
            return T('lit', o.get('s'))
        return T('unknown')

    def rvalue(self, store, rv):
        r = rv['r']
        if r == 'use':
            return self.operand(store, rv['op'])
        if r == 'ref':
            return T('ref', self.place(store, rv['pl']))
        if r == 'cast':
            return T('cast', self.operand(store, rv['op']), rv['to'])
        if r == 'bin':
            a, b = self.operand(store, rv['a']), self.operand(store, rv['b'])
            bop = rv['bop']
            if bop.endswith('WithOverflow'):
                return T('ovf', fold(T('bin', bop.replace('WithOverflow', ''), a, b)))
            return fold(T('bin', bop, a, b))
        if r == 'un':
            return fold(T('un', rv['uop'], self.operand(store, rv['a'])))
        if r == 'discr':
            return fold(T('discr', deref(self.place(store, rv['pl']))))
        if r == 'agg':
            k = rv['kind']
            ops = tuple(self.operand(store, o) for o in rv['ops'])
            if k['a'] == 'tuple':
                return T('tuple', ops)
            if k['a'] == 'adt':
                return T('adt', k['adt'], k['variant'], ops)
            if k['a'] == 'closure':
                return T('closure', k.get('def', ''), ops)
            return T('agg', k['a'], ops)
        return T('unknown')

    def write(self, store, pl, v):
        if not pl['p']:
            store[pl['l']] = v
            return
        # field / deref writes: keep it simple -- model whole-local tuple updates, else forget
        base = store.get(pl['l'])
        if len(pl['p']) == 1 and isinstance(pl['p'][0], dict) and 'f' in pl['p'][0] and isinstance(base, tuple) and base and base[0] in ('tuple',):
            items = list(base[1])
            idx = pl['p'][0]['f']
            if idx < len(items):
                items[idx] = v
                store[pl['l']] = T('tuple', tuple(items))
                return
        # a single named field of a value held in the local is replaced: the value "base with field n := v"
        if len(pl['p']) == 1 and isinstance(pl['p'][0], dict) and 'f' in pl['p'][0] and pl['p'][0].get('n') and base is not None \
                and isinstance(base, tuple) and base and base[0] in ('call', 'param', 'with_field', 'adt', 'field', 'mutated'):
            store[pl['l']] = T('with_field', base, pl['p'][0]['n'], v)
            return
        store[pl['l']] = T('unknown-write', pl['l'])

    # ---- traversal
    def _dfs(self, bid, store, atoms, onpath, eff=(), mref=None):
        fn = self.fn
        if len(self.paths) > self.max_paths:
            raise Undecided('more than %d paths' % self.max_paths)
        if bid in onpath:
            if self.cut_loops:
                self.paths.append((list(atoms), T('loop', bid)))
                self.effects.append(list(eff))
                return
            raise Undecided('loop at bb%d' % bid)
        b = fn.blocks[bid]
        if b['cleanup']:
            return
        onpath = onpath | {bid}
        store = dict(store)
        mref = dict(mref or {})
        for st in b['st']:
            if st['s'] == 'assign':
                rv = st['rv']
                if not st['lhs']['p']:
                    if rv['r'] == 'ref' and rv.get('mut'):
                        if not rv['pl']['p']:
                            mref[st['lhs']['l']] = rv['pl']['l']
                        elif rv['pl']['p'] == ['*'] and rv['pl']['l'] in mref:
                            mref[st['lhs']['l']] = mref[rv['pl']['l']]
                    elif rv['r'] == 'use' and rv['op']['k'] in ('copy', 'move') and not rv['op']['pl']['p'] and rv['op']['pl']['l'] in mref:
                        mref[st['lhs']['l']] = mref[rv['op']['pl']['l']]
                self.write(store, st['lhs'], self.rvalue(store, st['rv']))
        t = b['term']
        k = t['t']
        if k == 'return':
            self.paths.append((list(atoms), store.get(0, T('unit'))))
            self.effects.append(list(eff))
            return
        if k == 'unreachable':
            return
        if k in ('goto', 'drop'):
            return self._dfs(t['to'], store, atoms, onpath, eff, mref)
        if k == 'assert':
            # the continuing edge: assertion holds
            return self._dfs(t['to'], store, atoms, onpath, eff, mref)
        if k == 'call':
            v = self.call(store, t)
            if t['to'] is None:
                self.paths.append((list(atoms), T('panic', cdef(t) or cres(t))))
                self.effects.append(list(eff))
                return
            if v[0] == 'call':
                eff = eff + ((v[1], v[2]),)
                # a callee receiving `&mut L` may change L: the local now holds "L as mutated by this call"
                for i, a in enumerate(t['args']):
                    if a['k'] in ('copy', 'move') and not a['pl']['p'] and a['pl']['l'] in mref:
                        L = mref[a['pl']['l']]
                        others = tuple(x for j, x in enumerate(v[2]) if j != i)
                        store[L] = T('mutated', store.get(L, T('undef', L)), v[1], others)
            self.write(store, t['dest'], v)
            return self._dfs(t['to'], store, atoms, onpath, eff, mref)
        if k == 'switch':
            v = self.operand(store, t['on'])
            v = fold(v)
            if v[0] == 'discr-of-variant':
                # the tag of a value built as a known variant on this path: only that arm is feasible
                dn = None
                for k_, vs_ in self.F.raw.get('enums', {}).items():
                    if k_.split('::')[-1] == str(v[1]).split('::')[-1]:
                        for x_ in vs_:
                            if x_['name'] == v[2]:
                                dn = int(x_['discr'])
                if dn is not None:
                    v = T('const', dn)
            if v[0] == 'const':
                for val, tgt in t['targets']:
                    if int(val) == v[1]:
                        return self._dfs(tgt, store, atoms, onpath, eff, mref)
                return self._dfs(t['otherwise'], store, atoms, onpath, eff, mref)
            vals = [int(x) for x, _ in t['targets']]
            for val, tgt in t['targets']:
                self._dfs(tgt, store, atoms + [(v, ('eq', int(val)))], onpath, eff, mref)
            self._dfs(t['otherwise'], store, atoms + [(v, ('notin', tuple(vals)))], onpath, eff, mref)
            return
        raise Undecided('terminator %s' % k)

    def call(self, store, t):
        d = cdef(t)
        args = tuple(self.operand(store, a) for a in t['args'])
        if re.search(r'cmp::Ord::cmp$', d) and len(args) == 2:
            return fold(T('cmp', deref(args[0]), deref(args[1])))
        if re.search(r'cmp::PartialEq::eq$', d) and len(args) == 2:
            return fold(T('bin', 'Eq', deref(args[0]), deref(args[1])))
        if re.search(r'cmp::PartialEq::ne$', d) and len(args) == 2:
            return fold(T('bin', 'Ne', deref(args[0]), deref(args[1])))
        if re.search(r'clone::Clone::clone$|ops::Deref::deref$', d) and args:
            return deref(args[0])
        res = t['callee'].get('resolved') or ''
        if res not in self.F.fns and re.search(r'convert::(Into::into|TryInto::try_into)$', d):
            tg = self.F.call_targets(self.fn, t)
            if len(tg) == 1:
                res = next(iter(tg))     # std trampoline with a unique local target (e.g. Into::into -> From::from)
        return T('call', res if res in self.F.fns else (d or res), args)


def deref(v):
    while isinstance(v, tuple) and v and v[0] == 'ref':
        v = v[1]
    return v


def fold(v):
    """constant folding on closed terms"""
    if not isinstance(v, tuple) or not v:
        return v
    if v[0] == 'bin':
        _, op, a, b = v
        a, b = fold(deref(a)), fold(deref(b))
        if a[0] == 'const' and b[0] == 'const':
            x, y = a[1], b[1]
            r = {'Eq': x == y, 'Ne': x != y, 'Lt': x < y, 'Le': x <= y, 'Gt': x > y, 'Ge': x >= y}.get(op)
            if r is not None:
                return T('const', int(r))
            if op == 'Add':
                return T('const', x + y)
            if op == 'Sub':
                return T('const', x - y)
            if op == 'Rem' and y != 0:
                return T('const', x % y)
            if op == 'BitAnd':
                return T('const', x & y)
        if a[0] == 'adt' and b[0] == 'adt' and not a[3] and not b[3] and op in ('Eq', 'Ne'):
            same = (a[1].split('::')[-1], a[2]) == (b[1].split('::')[-1], b[2])
            return T('const', int(same if op == 'Eq' else not same))
        return T('bin', op, a, b)
    if v[0] == 'un':
        a = fold(deref(v[2]))
        if a[0] == 'const' and v[1] == 'Not':
            return T('const', int(not a[1]))
        return T('un', v[1], a)
    if v[0] == 'discr':
        a = deref(v[1])
        if a[0] == 'adt':
            return T('discr-of-variant', a[1], a[2])
        return T('discr', a)
    return v


class Evaluator:
    """evaluate terms/atoms under an assignment of abstract inputs.
    env: dict term -> python value for the free terms (params, fields of params).
    enums: F.raw['enums'] to resolve discriminants."""

    def __init__(self, enums, env):
        self.enums = enums
        self.env = env

    def discr_of(self, adt, variant):
        for k, vs in self.enums.items():
            if k.split('::')[-1] == adt.split('::')[-1]:
                for v in vs:
                    if v['name'] == variant:
                        return int(v['discr'])
        raise Undecided('unknown enum %s::%s' % (adt, variant))

    def ev(self, t):
        t = deref(t)
        if t in self.env:
            return self.env[t]
        k = t[0]
        if k == 'const':
            return t[1]
        if k == 'adt' and not t[3]:
            return ('variant', t[1].split('::')[-1], t[2])
        if k == 'discr-of-variant':
            return self.discr_of(t[1], t[2])
        if k == 'discr':
            v = self.ev(t[1])
            if isinstance(v, tuple) and v[0] == 'variant':
                return self.discr_of(v[1], v[2])
            if isinstance(v, tuple) and v[0] == 'ordering':
                return {'Less': 255, 'Equal': 0, 'Greater': 1}[v[1]]
            raise Undecided('discr of %r' % (v,))
        if k == 'cmp':
            a, b = self.ev(t[1]), self.ev(t[2])
            return ('ordering', 'Less' if a < b else 'Equal' if a == b else 'Greater')
        if k == 'bin':
            op = t[1]
            a, b = self.ev(t[2]), self.ev(t[3])
            if op == 'Eq':
                return int(a == b)
            if op == 'Ne':
                return int(a != b)
            if isinstance(a, int) and isinstance(b, int):
                if op == 'Lt':
                    return int(a < b)
                if op == 'Le':
                    return int(a <= b)
                if op == 'Gt':
                    return int(a > b)
                if op == 'Ge':
                    return int(a >= b)
                if op == 'Add':
                    return a + b
                if op == 'Sub':
                    return a - b
                if op == 'Rem' and b != 0:
                    return a % b
                if op == 'BitAnd':
                    return a & b
            raise Undecided('bin %s on %r %r' % (op, a, b))
        if k == 'un' and t[1] == 'Not':
            return int(not self.ev(t[2]))
        if k == 'cast':
            return self.ev(t[1])
        if k == 'tuple':
            return tuple(self.ev(x) for x in t[1])
        raise Undecided('cannot evaluate %r' % (t,))

    def holds(self, atom):
        term, (rel, val) = atom
        v = self.ev(term)
        if isinstance(v, tuple) and v[0] == 'variant':
            v = self.discr_of(v[1], v[2])
        if isinstance(v, tuple) and v[0] == 'ordering':
            v = {'Less': 255, 'Equal': 0, 'Greater': 1}[v[1]]
        if isinstance(v, bool):
            v = int(v)
        # switch values are printed as unsigned bit patterns (Ordering::Less = 255)
        if rel == 'eq':
            return v == val or (isinstance(v, int) and v < 0 and (v & 0xff) == val)
        return v not in val

    def select(self, paths):
        """the unique path whose atoms all hold"""
        hits = [p for p in paths if all(self.holds(a) for a in p[0])]
        if len(hits) != 1:
            raise Undecided('%d paths match the abstract input' % len(hits))
        return hits[0]


def show(t, depth=0):
    if not isinstance(t, tuple) or not t:
        return str(t)
    k = t[0]
    if k == 'param':
        return 'arg%d' % t[1]
    if k == 'const':
        return str(t[1])
    if k == 'ref':
        return '&' + show(t[1])
    if k == 'field':
        return '%s.%s' % (show(t[1]), t[2])
    if k == 'bin':
        return '%s(%s,%s)' % (t[1], show(t[2]), show(t[3]))
    if k == 'adt':
        return '%s::%s%s' % (t[1].split('::')[-1], t[2], '(%s)' % ','.join(show(x) for x in t[3]) if t[3] else '')
    if k == 'call':
        return '%s(%s)' % (t[1].split('::')[-1], ','.join(show(x) for x in t[2]))
    if k == 'tuple':
        return '(%s)' % ','.join(show(x) for x in t[1])
    if k in ('discr', 'cast', 'downcast'):
        return '%s(%s)' % (k, show(t[1]))
    if k == 'cmp':
        return 'cmp(%s,%s)' % (show(t[1]), show(t[2]))
    return str(t)[:60]


# ---------------------------------------------------------------- term queries
def subterms(t):
    if isinstance(t, tuple) and t:
        if isinstance(t[0], str):
            yield t
        for x in t:
            if isinstance(x, tuple):
                for y in subterms(x):
                    yield y


def _plain(name):
    prev = None
    while prev != name:
        prev = name
        name = re.sub(r'<[^<>]*>', '', name)
    return re.sub(r':{3,}', '::', name)


def is_call(t, pat):
    """callee matches `pat` on its resolved path, either as printed or with generic arguments removed"""
    t = deref(t)
    return isinstance(t, tuple) and bool(t) and t[0] == 'call' and (re.search(pat, t[1]) is not None or re.search(pat, _plain(t[1])) is not None)


def find_calls(t, pat):
    return [s for s in subterms(t) if s and s[0] == 'call' and (re.search(pat, s[1]) or re.search(pat, _plain(s[1])))]


def mentions(t, needle):
    return any(s == needle for s in subterms(t))


# ---------------------------------------------------------------- normal forms
def substitute(t, args):
    if not isinstance(t, tuple) or not t:
        return t
    if t[0] == 'param':
        i = t[1] - 1
        return args[i] if i < len(args) else t
    return tuple(substitute(x, args) if isinstance(x, tuple) else ([substitute(y, args) for y in x] if isinstance(x, list) else x) for x in t)


def simplify(t):
    """re-apply field selection after substitution: field(adt/tuple, i) -> component; &*x -> x"""
    if not isinstance(t, tuple) or not t:
        return t
    t = tuple(simplify(x) if isinstance(x, tuple) else x for x in t)
    if t[0] == 'field':
        base = deref(t[1])
        if isinstance(base, tuple) and base and base[0] == 'with_field':
            return base[3] if base[2] == t[2] else simplify(T('field', base[1], t[2]))
        if isinstance(base, tuple) and base:
            if base[0] == 'tuple' and str(t[2]).isdigit() and int(t[2]) < len(base[1]):
                return base[1][int(t[2])]
            if base[0] == 'adt' and isinstance(t[2], str):
                # a named field of a struct literal: its position comes from the field projections seen in the crate
                idx_ = FIELD_INDEX.get((str(base[1]).split('::')[-1], t[2]))
                if idx_ is not None and idx_ < len(base[3]):
                    return base[3][idx_]
                return T('field', base, t[2])
    if t[0] == 'ref' and isinstance(t[1], tuple) and t[1] and t[1][0] == 'ref':
        return t[1]
    return t


_INLINE_CACHE = {}
FIELD_INDEX = {}


def _load_field_index(F):
    if getattr(F, '_field_index_loaded', False):
        return
    F._field_index_loaded = True

    def walk(o):
        if isinstance(o, dict):
            if 'f' in o and 'n' in o and 'adt' in o and o['adt'] and not str(o['n']).isdigit():
                FIELD_INDEX[(str(o['adt']).split('::')[-1], o['n'])] = int(o['f'])
            for v in o.values():
                walk(v)
        elif isinstance(o, list):
            for v in o:
                walk(v)
    walk(F.raw['bodies'])


def normalize(F, t, depth=4):
    """inline calls to local functions whose body is a single unconditional path (pure helpers /
    forwarders), so that outcomes are compared at the level of what is finally constructed"""
    if not isinstance(t, tuple) or not t or depth <= 0:
        return t
    _load_field_index(F)
    if t[0] == 'call':
        args = tuple(normalize(F, a, depth) for a in t[2])
        g = F.fns.get(t[1])
        if g is not None and not g.has_loop():
            key = g.name
            if key not in _INLINE_CACHE:
                try:
                    ps = PathEnum(F, g, max_paths=8).run()
                    _INLINE_CACHE[key] = ps[0][1] if len(ps) == 1 and not ps[0][0] else None
                except Undecided:
                    _INLINE_CACHE[key] = None
            body = _INLINE_CACHE[key]
            if body is not None and body[0] not in ('unknown-write', 'lit', 'unit', 'undef'):
                return normalize(F, simplify(substitute(body, args)), depth - 1)
        return T('call', t[1], args)
    return tuple(normalize(F, x, depth) if isinstance(x, tuple) and x and isinstance(x[0], str) else
                 (tuple(normalize(F, y, depth) for y in x) if isinstance(x, tuple) else x) for x in t)


def reduce_try(t):
    """the `?` operator on a value whose variant is known on this path (a spliced guard helper returning a literal Ok / Err):
       branch(Ok(v)) -> Continue(v), branch(Err(e)) -> Break(Err(e)), likewise Some / None;
       (X as V).i of a known variant V -> its i-th field;  from_residual(Err(e)) -> Err(e), from_residual(None) -> None.
    The error conversion `From::from` inside from_residual is not represented: the result says which variant, not which error."""
    if not isinstance(t, tuple) or not t:
        return t
    if t[0] == 'ref':
        return T('ref', reduce_try(t[1]))
    if t[0] == 'field' and isinstance(t[1], tuple) and t[1] and t[1][0] == 'downcast':
        inner = deref(reduce_try(t[1][1]))
        if isinstance(inner, tuple) and inner and inner[0] == 'adt' and inner[2] == t[1][2] and str(t[2]).isdigit() and int(t[2]) < len(inner[3]):
            return reduce_try(inner[3][int(t[2])])
        return t
    if t[0] == 'adt':
        return T('adt', t[1], t[2], tuple(reduce_try(x) for x in t[3]))
    if t[0] != 'call':
        return t
    name = _plain(t[1])
    args = tuple(reduce_try(a) for a in t[2])
    a0 = deref(args[0]) if args else None
    known = isinstance(a0, tuple) and a0 and a0[0] == 'adt' and a0[1].split('::')[-1] in ('Result', 'Option')
    if re.search(r'Try::branch$', name) and known:
        if a0[2] in ('Ok', 'Some'):
            return T('adt', 'std::ops::ControlFlow', 'Continue', tuple(a0[3][:1]))
        return T('adt', 'std::ops::ControlFlow', 'Break', (a0,))
    if re.search(r'FromResidual::from_residual$', name) and known and a0[2] in ('Err', 'None'):
        return a0
    return T('call', t[1], args)


def reduce_option(F, t, depth=6):
    """evaluate Option adaptors on a term whose Option operands are known variants on this path:
       unwrap_or(Some(v), d) -> v, unwrap_or(None, d) -> d, as_ref/as_mut/copied/cloned(x) -> x,
       map(Some(v), closure) -> Some(body[v]), map(None, _) -> None, unwrap_or_else likewise.
    Anything else is left as it is (the caller's comparison then fails to recognise it)."""
    if not isinstance(t, tuple) or not t or depth <= 0:
        return t
    if t[0] == 'ref':
        return T('ref', reduce_option(F, t[1], depth))
    if t[0] != 'call':
        return t
    name = _plain(t[1])
    args = tuple(reduce_option(F, a, depth) for a in t[2])

    def variant(x):
        x = deref(x)
        if isinstance(x, tuple) and x and x[0] == 'adt' and x[1].split('::')[-1] == 'Option':
            return x
        return None

    def apply(clo, vals):
        clo = deref(clo)
        if not (isinstance(clo, tuple) and clo and clo[0] == 'closure' and clo[1] in F.fns):
            return None
        try:
            ps = PathEnum(F, F.fns[clo[1]], max_paths=4).run()
        except Undecided:
            return None
        if len(ps) != 1 or ps[0][0]:
            return None
        env = T('tuple', tuple(clo[2]))
        return reduce_option(F, simplify(substitute(ps[0][1], (env,) + tuple(vals))), depth - 1)

    if re.search(r'Option::(as_ref|as_mut|copied|cloned|as_deref)$', name) and args:
        v = variant(args[0])
        if v is not None:
            return v
    elif re.search(r'Option::unwrap_or$', name) and len(args) == 2:
        v = variant(args[0])
        if v is not None:
            return v[3][0] if v[2] == 'Some' and v[3] else (args[1] if v[2] == 'None' else T('call', t[1], args))
    elif re.search(r'Option::unwrap_or_else$', name) and len(args) == 2:
        v = variant(args[0])
        if v is not None and v[2] == 'Some' and v[3]:
            return v[3][0]
        if v is not None and v[2] == 'None':
            r = apply(args[1], ())
            if r is not None:
                return r
    elif re.search(r'Option::map$', name) and len(args) == 2:
        v = variant(args[0])
        if v is not None and v[2] == 'None':
            return v
        if v is not None and v[2] == 'Some' and v[3]:
            r = apply(args[1], (v[3][0],))
            if r is not None:
                return T('adt', v[1], 'Some', (r,))
    return T('call', t[1], args)


def strip_refs(t):
    """drop reference wrappers everywhere (borrows do not change which value is projected)"""
    if not isinstance(t, tuple) or not t:
        return t
    if t[0] == 'ref':
        return strip_refs(t[1])
    return tuple(strip_refs(x) if isinstance(x, tuple) else x for x in t)


def normal_form(F, t):
    return show(simplify(strip_refs(normalize(F, t))))
