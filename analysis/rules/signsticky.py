"""R-SIGN (rounding must see the sign of the result) and R-STICKY (exactness information of an
integer root must reach the rounding decision)."""
import re, collections
from facts import cres, cdef, op_local, strip_lt
from dataflow import Defs, backward_calls, stmt_reads, term_reads, IDENT_CALLS
from rules import provrules as R

SIGN_CHANGE = re.compile(r'ops::Neg::neg$|ops::Neg for [^>]*>::neg$|BigDecimal::take_with_sign$|BigDecimal::abs$|Signed::abs$|BigInt::from_biguint$|BigInt::into_parts$')
SIGN_SRC = re.compile(r'^param:|^ret:.*(::sign|to_radix_le|to_radix_be|into_parts|as_parts)|\.sign$')
# exempt by specification: "the copy-sign variant returns that same root carrying the sign of x" (C10)
EXEMPT_RESIGN = {'sqrt_copysign_with_context': 'C10: the copy-sign variant returns the root of |x| carrying the sign of x'}


def sign_sinks(rep, F, E, fns, rule='R-SIGN'):
    """kind (i): every round_pair* call / NonDigitRoundingData construction with a non-constant mode
    takes a sign that derives from the number (never a literal)"""
    n = 0
    for f in fns:
        env = E.local[f.name]
        ordn = collections.Counter()
        sites = []
        for bid, st in f.stmts():
            rv = st['rv']
            if rv['r'] == 'agg' and rv['kind'].get('a') == 'adt' and rv['kind']['adt'].endswith('NonDigitRoundingData'):
                flds = rv['kind']['fields']
                sites.append(('NonDigitRoundingData', st['line'],
                              E.read_op(f, env, rv['ops'][flds.index('mode')]).all(), E.read_op(f, env, rv['ops'][flds.index('sign')]).all()))
        for bid, t in f.calls():
            g = F.fns.get(cres(t))
            if g is None or not re.search(r'RoundingMode::round_pair(_with_carry)?$|RoundingMode::round_u32$', g.name):
                continue
            mi = 0
            si = [i for i in range(1, g.argc + 1) if g.ty(i).endswith('Sign')]
            if not si or si[0] > len(t['args']):
                continue
            sites.append((g.name.split('::')[-1], t['loc']['line'], E.arg_prov(f, t, 0).all(), E.arg_prov(f, t, si[0] - 1).all()))
        for what, line, mode, sign in sites:
            n += 1
            k = '%s|%s' % (f.key, what)
            o = ordn[k]
            ordn[k] += 1
            key = '%s#%d' % (k, o)
            mode_const = bool(mode) and all(s.startswith('variant:') or s.startswith('const:') for s in mode)
            lit_sign = [s for s in sign if s.startswith('variant:')]
            from_number = any(SIGN_SRC.search(s) for s in sign)
            if mode_const and not any(re.search(R.C_MODE, s[6:]) for s in mode if s.startswith('const:')) and all(
                    s in ('variant:RoundingMode::Up', 'variant:RoundingMode::Down', 'variant:RoundingMode::HalfUp', 'variant:RoundingMode::HalfDown', 'variant:RoundingMode::HalfEven') for s in mode):
                rep.ok(rule, key, 'constant sign-symmetric mode %s: the sign cannot matter' % R.short(mode), f.where(line))
            elif lit_sign or not from_number:
                rep.violation(rule, key, 'a direction-dependent rounding is handed a sign that does not come from the number being rounded: sign sources %s (mode sources %s)'
                              % (R.short(sign), R.short(mode)), f.where(line))
            else:
                rep.ok(rule, key, 'sign sources %s' % R.short(sign), f.where(line))
    return n


def no_resign_after_rounding(rep, F, E, fns, rule='R-SIGN'):
    """kind (ii): the result of a context-mode rounding routine must not be re-signed on its way
    to the returned value (Floor/Ceiling are defined on the signed value), unless the directed
    modes were mirrored for the flipped sign"""
    n = 0
    for f in fns:
        ci = R.ctx_param_index(f)
        mi = R.mode_param_index(f)
        if ci is None and mi is None and 'rdata' not in R._param_kinds(f).values():
            continue

        def is_sink(t, F=F):
            g = F.fns.get(cres(t))
            if g is None or R.ACCESSOR.search(g.name):
                return False
            return any(k in ('ctx', 'mode', 'rdata') for k in R._param_kinds(g).values())

        stops, visited = backward_calls(f, R._out_locals(f), is_sink)
        if not stops:
            continue
        n += 1
        resign = []
        for b, t in visited:
            if not (SIGN_CHANGE.search(cres(t)) or SIGN_CHANGE.search(cdef(t))):
                continue
            a0 = t['args'][0] if t['args'] else None
            a0ty = strip_lt((a0.get('pl', {}).get('ty') or a0.get('ty') or '')) if a0 else ''
            if re.search(r'Neg', cdef(t)) and not re.search(r'BigInt|BigDecimal', a0ty):
                continue       # negating a primitive (scale arithmetic) is not a sign change of the number
            if re.search(r'BigInt::from_biguint$', cres(t)) and t['args'] and E.arg_prov(f, t, 0).all() == {'variant:Sign::Plus'}:
                continue       # building a non-negative integer is not a sign change
            resign.append((b, t))
        # also unary negation statements on the chain are sign changes; conservatively scan the body
        key = f.key + ':resign-after-rounding'
        if not resign:
            rep.ok(rule, key, 'no sign-changing operation between the rounding routine and the returned value', f.where())
            continue
        item = f.name.split('::')[-1]
        if item in EXEMPT_RESIGN:
            rep.reviewed(rule, key, 'exempt by specification: %s' % EXEMPT_RESIGN[item], f.where())
            continue
        # which mode reaches the sink?
        mirrored = False
        plain = False
        for bid, t in stops:
            g = F.fns[cres(t)]
            for i, kind in R._param_kinds(g).items():
                if kind in ('ctx', 'mode', 'rdata') and i <= len(t['args']):
                    srcs = E.arg_prov(f, t, i - 1).all()
                    if R.MIRROR <= srcs:
                        mirrored = True
                    elif any(s.startswith('param:') for s in srcs):
                        plain = True
        # a re-sign with the rounding data's own sign is consistent (sign was given to the rounding)
        names = sorted({cres(t).split('::')[-1] for _, t in resign})
        consistent = all(_resign_uses_rounding_sign(F, E, f, t) for _, t in resign)
        if consistent:
            rep.ok(rule, key, 're-signing %s uses the very sign that was handed to the rounding data' % names, f.where())
        elif mirrored and not plain:
            rep.ok(rule, key, 'magnitude is rounded then re-signed by %s, with Floor/Ceiling mirrored for the flipped sign' % names, f.where())
        else:
            rep.violation(rule, key, 'the magnitude is rounded under the caller\'s mode and the sign is attached afterwards (%s): Floor and Ceiling round in the wrong direction for negative results'
                          % names, f.where(resign[0][1]['loc']['line']))
    return n


def _resign_uses_rounding_sign(F, E, f, t):
    if not re.search(r'BigInt::from_biguint$', cres(t)) or not t['args']:
        return False
    srcs = E.arg_prov(f, t, 0).all()
    kinds = R._param_kinds(f)
    rd = [i for i, k in kinds.items() if k == 'rdata']
    return bool(rd) and srcs and all(s == 'param:%d.sign' % rd[0] for s in srcs)


# ---------------------------------------------------------------- R-STICKY
ROOT = re.compile(r'Roots::sqrt$|Roots::cbrt$|Roots::nth_root$|BigUint::sqrt$|BigUint::cbrt$|BigUint::nth_root$|BigInt::sqrt$|BigInt::nth_root$')


LOSSY_INT = re.compile(r'ops::(Div|Rem|Shr|DivAssign|RemAssign|ShrAssign)::|Integer::div_rem$|Integer::div_floor$|Integer::mod_floor$|::modpow$|BigU?int::(sqrt|cbrt|nth_root)$|Roots::')


def radicand_exact(rep, F, fns, rule='R-STICKY'):
    """the integer handed to the integer root is the operand scaled UP exactly: no truncating
    big-integer operation (division, remainder, shift, another root) lies on its dependence chain"""
    n = 0
    family = {g.name for g in fns}
    for f in fns:
        for rb, rt in f.calls():
            is_root = bool(ROOT.search(cdef(rt)) or ROOT.search(cres(rt)))
            to_family = cres(rt) in family
            if not (is_root or to_family):
                continue
            # operands carrying the number: the receiver of the root / big-integer arguments handed to the family
            ops = [rt['args'][0]] if is_root else [a for a in rt['args'] if re.search(r'BigUint|BigInt|WithScale', strip_lt(a.get('pl', {}).get('ty') or a.get('ty') or ''))]
            ops = [a for a in ops if a['k'] in ('copy', 'move')]
            if not ops:
                continue
            n += 1
            key = '%s|%s:radicand-not-truncated' % (f.key, (cdef(rt) if is_root else cres(rt)).split('::')[-1])
            stops, visited = backward_calls(f, [a['pl']['l'] for a in ops], lambda t: False)
            bad = []
            for b, t in visited:
                if t is rt:
                    continue
                d = cdef(t)
                if LOSSY_INT.search(d) or LOSSY_INT.search(cres(t)):
                    tys = [strip_lt(x.get('pl', {}).get('ty') or x.get('ty') or '') for x in t['args']]
                    if any(re.search(r'BigUint|BigInt|Cow<', ty) for ty in tys):
                        bad.append((d.split('::')[-1], t['loc']['line']))
            if bad:
                rep.violation(rule, key, 'the radicand is produced through a truncating big-integer operation (%s at line %d): low-order digits of the operand are dropped before the root is taken, so exactness is lost'
                              % bad[0], f.where(bad[0][1]))
            else:
                rep.ok(rule, key, 'radicand = operand scaled up by a power of ten: %d calls on its dependence chain, none truncating' % len(visited), f.where(rt['loc']['line']))
    return n


def sticky(rep, F, fns, rule='R-STICKY'):
    """in a function that takes an integer root and returns a rounded decimal, the radicand must
    have a use, other than the root call itself, whose value reaches the returned decimal"""
    n = 0
    for f in fns:
        roots = [(b, t) for b, t in f.calls() if ROOT.search(cdef(t)) or ROOT.search(cres(t))]
        if not roots:
            continue
        defs = Defs(f)
        for rb, rt in roots:
            n += 1
            key = '%s|%s:radicand-exactness' % (f.key, cdef(rt).split('::')[-1])
            a0 = rt['args'][0]
            l = a0['pl']['l'] if a0['k'] in ('copy', 'move') else None
            # walk back to the value local X
            seen = set()
            while l is not None and l not in seen:
                seen.add(l)
                ds = defs.defs.get(l, [])
                if len(ds) != 1:
                    break
                d = ds[0]
                nxt = None
                if d[0] == 'assign':
                    rv = d[2]['rv']
                    if rv['r'] == 'ref':
                        nxt = rv['pl']['l']
                    elif rv['r'] == 'use' and rv['op']['k'] in ('copy', 'move'):
                        nxt = rv['op']['pl']['l']
                elif d[0] == 'call' and IDENT_CALLS.search(cdef(d[2])) and d[2]['args'] and d[2]['args'][0]['k'] in ('copy', 'move'):
                    nxt = d[2]['args'][0]['pl']['l']
                if nxt is None:
                    break
                l = nxt
            X = l
            if X is None:
                rep.undecided(rule, key, 'radicand operand is not a local', f.where(rt['loc']['line']))
                continue
            # forward alias closure
            alias = {X}
            alias_def_sites = set()
            changed = True
            while changed:
                changed = False
                for bid, st in f.stmts():
                    rv = st['rv']
                    src = None
                    if rv['r'] == 'ref':
                        src = rv['pl']['l']
                    elif rv['r'] == 'use' and rv['op']['k'] in ('copy', 'move'):
                        src = rv['op']['pl']['l']
                    if src in alias and not st['lhs']['p']:
                        alias_def_sites.add(id(st))
                        if st['lhs']['l'] not in alias and (f.locals[st['lhs']['l']].startswith('&') or rv['r'] == 'use'):
                            alias.add(st['lhs']['l'])
                            changed = True
                for bid, t in f.calls():
                    if IDENT_CALLS.search(cdef(t)) and t['args'] and t['args'][0]['k'] in ('copy', 'move') and t['args'][0]['pl']['l'] in alias and not t['dest']['p']:
                        alias_def_sites.add(id(t))
                        if t['dest']['l'] not in alias and f.locals[t['dest']['l']].startswith('&'):
                            alias.add(t['dest']['l'])
                            changed = True
            # dependence closure of the result with the root call cut out
            closure = set()
            work = list(R._out_locals(f))
            while work:
                x = work.pop()
                if x in closure:
                    continue
                closure.add(x)
                for d in defs.defs.get(x, []) + defs.partial.get(x, []):
                    if d[0] == 'param':
                        continue
                    if d[0] == 'call':
                        if d[2] is rt:
                            continue
                        for a in d[2]['args']:
                            if a['k'] in ('copy', 'move'):
                                work.append(a['pl']['l'])
                    else:
                        for pl in stmt_reads(d[2]):
                            work.append(pl['l'])
            # control dependence: switch discriminants also decide the result
            for bid in f.live_blocks():
                t = f.blocks[bid]['term']
                if t['t'] == 'switch':
                    l0 = op_local(t['on'])
                    if l0 is not None and l0 not in closure:
                        # pull in the discriminant's own dependence chain
                        w2 = [l0]
                        while w2:
                            y = w2.pop()
                            if y in closure:
                                continue
                            closure.add(y)
                            for d in defs.defs.get(y, []) + defs.partial.get(y, []):
                                if d[0] == 'call' and d[2] is not rt:
                                    for a in d[2]['args']:
                                        if a['k'] in ('copy', 'move'):
                                            w2.append(a['pl']['l'])
                                elif d[0] == 'assign':
                                    for pl in stmt_reads(d[2]):
                                        w2.append(pl['l'])
            later_use = (alias & closure) - set()
            # X itself is in `closure` only if something other than alias definitions reads it
            real_use = False
            after = set()
            w3 = list(f.succ(rb))
            while w3:
                y = w3.pop()
                if y in after or y not in f.live_blocks():
                    continue
                after.add(y)
                w3.extend(f.succ(y))
            for bid in sorted(after):
                blk = f.blocks[bid]
                for st in blk['st']:
                    if st['s'] != 'assign' or id(st) in alias_def_sites:
                        continue
                    if any(pl['l'] in alias for pl in stmt_reads(st)) and st['lhs']['l'] in closure:
                        real_use = True
                t = blk['term']
                if t['t'] == 'call' and t is not rt and id(t) not in alias_def_sites:
                    if any(pl['l'] in alias for pl in term_reads(t)) and (t['dest']['l'] in closure):
                        real_use = True
                if t['t'] == 'switch' and any(pl['l'] in alias for pl in term_reads(t)):
                    real_use = True
            if real_use:
                rep.ok(rule, key, 'the radicand has a use other than the root call that reaches the result (exactness can influence rounding)', f.where(rt['loc']['line']))
            else:
                rep.violation(rule, key, 'after the integer root is taken the radicand is never consulted again: an inexact root whose guard digits are all zero is rounded as if exact (Up/Ceiling/ties wrong)', f.where(rt['loc']['line']))
    return n


# ---------------------------------------------------------------- R-SIGN (iii): sign-blind rounding increments
def rounding_term_sign(rep, F, rule='R-SIGN'):
    """`get_rounding_term(r)` decides "round up?" from the leading digit of a NON-NEGATIVE remainder (for a
    negative argument every comparison `r < 10^k` is true).  Each call site must therefore either pass a
    magnitude (abs / magnitude image) or be dominated by a test that establishes the operand's sign; and the
    increment must not be added blindly to a possibly negative integer."""
    from rules import panic
    n = 0
    helper = [f for f in F.real_fns() if f.name.split('::')[-1] == 'get_rounding_term' and not f.is_closure]
    if not helper:
        return 0
    h = helper[0]
    for g in F.real_fns():
        pv = None
        for bid, t in g.calls():
            if cres(t) != h.name:
                continue
            n += 1
            pv = pv or panic.Provenance(g)
            key = '%s|get_rounding_term:operand-sign-known' % g.key
            argp = pv.of_op(t['args'][0], 4)
            is_mag = re.search(r'abs\(|magnitude\(|unsigned_abs|BigUint', argp) is not None
            conds = panic.dominating_conditions(g, bid, pv)
            signed_ok = any(re.search(r'is_negative|is_positive|::sign|sign\(', c) for c, e in conds)
            if is_mag or signed_ok:
                rep.ok(rule, key, 'rounding term computed from %s' % ('a magnitude' if is_mag else 'an operand whose sign is established by a dominating test'), g.where(t['loc']['line']))
            else:
                rep.violation(rule, key, 'the rounding increment is computed from a possibly negative remainder (%s) and added without regard to the sign: negative values are truncated toward zero instead of rounded like their negation'
                              % argp[:80], g.where(t['loc']['line']))
    return n
