"""FLOAT-PATH: where to_f64 may use floating-point arithmetic (C14).

Decimals that are the exact image of a float with a fractional part have a positive scale.  They come back unchanged only if
the conversion of such decimals is correctly rounded - the implementation hands them to the standard library's float parser.
A shortcut of the form  to_f64(integer) / 10^k  (or  * 10^-k) rounds twice: once when the integer is converted (it has up to
~25 digits, more than 53 bits) and once in the division.  Necessary for "comes back unchanged": on every path of
BigDecimalRef::to_f64 whose result is float arithmetic on a converted big integer, either the path establishes that the decimal
exponent is non-negative and the operation is a multiplication (the integer-valued case, covered by the stated 2^-48 tolerance
only), or it bounds the integer's size (a test on bits() / a comparison with 2^53) so that both operands are exact.

Path terms only (PathEnum with loops cut); nothing is evaluated."""
import re
from rules import table as TB
from rules.table import Undecided


def _is(t, k):
    return isinstance(t, tuple) and bool(t) and t[0] == k


def _float_ops(out):
    res = []
    for s in TB.subterms(out):
        if _is(s, 'bin') and s[1] in ('Mul', 'Div', 'Add', 'Sub'):
            txt = TB.show(s)
            if re.search(r'to_f64\(|to_f32\(', txt) and re.search(r'powi\(|const [0-9.e+-]+f(64|32)|exp10|powf\(', txt + str(s)):
                res.append(s)
        if _is(s, 'call') and re.search(r'ops::(Mul|Div)::(mul|div)$', TB._plain(s[1])) and re.search(r'to_f64\(|to_f32\(', TB.show(s)):
            res.append(('bin', 'Mul' if 'mul' in s[1] else 'Div') + tuple(s[2]))
    return res


def check(rep, F, rule='FLOAT-PATH'):
    fns = [f for f in F.real_fns() if re.search(r'ToPrimitive for BigDecimalRef.*::to_f64$', f.name) and not f.is_closure]
    if not fns:
        rep.violation(rule, 'to_f64:missing', 'BigDecimalRef::to_f64 not found (fail closed)')
        return 0
    fn = fns[0]
    rep.add_functions([fn.name])
    key = fn.key + ':float-arithmetic-only-where-exact'
    try:
        pe = TB.PathEnum(F, fn, max_paths=600, cut_loops=True)
        paths = pe.run()
    except Undecided as e:
        rep.undecided(rule, key, str(e), fn.where())
        return 1
    n_arith = 0
    bad = []
    und = []
    for atoms, out in paths:
        ops = _float_ops(out)
        if not ops:
            continue
        n_arith += 1
        sized = False
        nonneg_exp = False
        for term, (rel, val) in atoms:
            t = TB.deref(term)
            if _is(t, 'bin') and t[1] in ('Le', 'Ge', 'Lt', 'Gt'):
                for x, y in ((TB.deref(t[2]), TB.deref(t[3])), (TB.deref(t[3]), TB.deref(t[2]))):
                    while _is(x, 'cast'):
                        x = TB.deref(x[1])
                    # bits(n) compared with a literal <= 64, or the integer itself compared with 2^53
                    if _is(x, 'call') and re.search(r'::bits$', TB._plain(x[1])) and _is(y, 'const') and isinstance(y[1], int) and y[1] <= 64:
                        sized = True
                    if _is(y, 'const') and y[1] in (9007199254740992, 9007199254740991):
                        sized = True
            if _is(t, 'bin') and t[1] in ('Le', 'Ge', 'Lt', 'Gt'):
                truth = not (rel == 'eq' and val == 0)
                a, b = TB.deref(t[2]), TB.deref(t[3])
                op = t[1]
                if a == ('const', 0):
                    a, b = b, a
                    op = {'Le': 'Ge', 'Ge': 'Le', 'Lt': 'Gt', 'Gt': 'Lt'}[op]
                if b == ('const', 0) and re.search(r'scale', TB.show(a)):
                    # a <op> 0 where a is the negated scale (the decimal exponent)
                    if (op == 'Ge' and truth) or (op == 'Lt' and not truth):
                        nonneg_exp = True
        kinds = {o[1] for o in ops}
        if sized:
            continue
        if kinds <= {'Mul'} and nonneg_exp:
            continue
        if 'Div' in kinds or not nonneg_exp:
            bad.append((sorted(kinds), TB.show(ops[0])[:90]))
        else:
            und.append(TB.show(ops[0])[:90])
    if bad:
        rep.violation(rule, key, 'a decimal with fraction digits (negative decimal exponent) is converted by float arithmetic (%s: %s) on an integer that need not fit 53 bits: the integer conversion and the operation each round, so the exact decimal image of a float does not always come back unchanged; such values must go through the correctly rounding parser'
                      % ('/'.join(bad[0][0]), bad[0][1]), fn.where())
    elif und:
        rep.undecided(rule, key, 'float arithmetic on a path whose guards are not recognised: %s' % und[0], fn.where())
    else:
        rep.ok(rule, key, '%d of %d paths use float arithmetic on a converted integer, all with a non-negative decimal exponent (multiplication) or a bound on the integer\'s size; decimals with fraction digits reach the parser' % (n_arith, len(paths)), fn.where())
    return 1


def no_float_casts(rep, F, rule='FLOAT-PATH'):
    """float -> decimal is exact only through the bit pattern: a numeric cast of the float (to an integer: saturating and
    truncating; from an integer back: rounding) on that path cannot be exact for every value, and a round-trip test built
    from such casts (`(n as i64) as f64 == n`) is fooled at the saturation boundary.  No FloatToInt / IntToFloat / FloatToFloat
    narrowing cast may occur in the functions reachable from the float classifiers"""
    ents = [f for f in F.real_fns() if re.search(r'parsing::try_parse_from_f(32|64)$', f.name) and not f.is_closure]
    if not ents:
        rep.violation(rule, 'try_parse_from_f*:missing', 'float classifiers not found (fail closed)')
        return 0
    names = [n for n in F.reach(ents) if re.search(r'(^|::)parsing::', n)]
    rep.add_functions(names)
    bad = []
    for nme in sorted(names):
        fn = F.fns[nme]
        for bid, st in fn.stmts():
            rv = st['rv']
            if rv['r'] == 'cast' and re.search(r'FloatToInt|IntToFloat', str(rv.get('kind', ''))):
                bad.append((fn, rv['kind'], rv.get('to'), st['line']))
            if rv['r'] == 'cast' and str(rv.get('kind', '')).startswith('FloatToFloat') and rv.get('to') == 'f32':
                bad.append((fn, rv['kind'], rv.get('to'), st['line']))
    key = 'parsing:float-to-decimal-through-bits-only'
    if bad:
        fn, kind, to, line = bad[0]
        rep.violation(rule, key, 'a numeric cast (%s to %s) of a float on the float -> decimal path in %s: such casts saturate, truncate or round, so the decimal is not the exact binary value for every float (the value at the saturation boundary slips through a cast round-trip test)' % (kind, to, fn.key), fn.where(line))
    else:
        rep.ok(rule, key, '%d functions on the float -> decimal path: the float is only taken apart through to_bits(); no float/integer numeric cast' % len(names))
    return 1
