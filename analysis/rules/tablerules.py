"""Table rules: round_pair vs the documented mode definitions; needs_trailing_zeros vs round_pair;
sign / FpCategory dispatch tables."""
import re
from rules import table as TB
from rules.table import T, Undecided

MODES = ['Up', 'Down', 'Ceiling', 'Floor', 'HalfUp', 'HalfDown', 'HalfEven']
SIGNS = ['Minus', 'NoSign', 'Plus']


def spec_round_pair(mode, sign, lhs, rhs, tz):
    """the documented definitions (RoundingMode docs == IEEE-754 / java.math.RoundingMode), on magnitudes:
    returns 'down' (keep lhs) or 'up' (lhs+1)"""
    if rhs == 0 and tz:
        return 'down'                      # exact: nothing discarded
    neg = sign == 'Minus'
    if mode == 'Up':
        return 'up'
    if mode == 'Down':
        return 'down'
    if mode == 'Ceiling':
        return 'down' if neg else 'up'
    if mode == 'Floor':
        return 'up' if neg else 'down'
    # half modes: position of the discarded tail relative to one half
    if rhs < 5:
        return 'down'
    if rhs > 5 or not tz:
        return 'up'
    return {'HalfUp': 'up', 'HalfDown': 'down', 'HalfEven': 'down' if lhs % 2 == 0 else 'up'}[mode]


def find_fn(F, pat):
    l = [f for f in F.real_fns() if not f.is_closure and re.search(pat, f.name)]
    return l[0] if len(l) == 1 else None


def round_pair_table(rep, F, rule='R-TABLE'):
    fn = find_fn(F, r'RoundingMode::round_pair$')
    if fn is None:
        rep.note('anchor RoundingMode::round_pair not found: table clause skipped')
        return 0, None
    rep.add_functions([fn.name])
    try:
        paths = TB.PathEnum(F, fn).run()
    except Undecided as e:
        rep.undecided(rule, fn.key + ':table', 'decision table not extractable: %s' % e, fn.where())
        return 0, None
    enums = F.raw['enums']
    lhs_t = T('field', T('param', 3), '0')
    rhs_t = T('field', T('param', 3), '1')
    up_t = TB.fold(T('bin', 'Add', lhs_t, T('const', 1)))
    cells = 0
    bad = []
    table = {}
    for mode in MODES:
        for sign in SIGNS:
            for lhs in range(10):
                for rhs in range(10):
                    for tz in (0, 1):
                        env = {T('param', 1): ('variant', 'RoundingMode', mode), T('param', 2): ('variant', 'Sign', sign),
                               lhs_t: lhs, rhs_t: rhs, T('param', 4): tz, T('param', 3): (lhs, rhs)}
                        ev = TB.Evaluator(enums, env)
                        cells += 1
                        try:
                            atoms, out = ev.select(paths)
                        except Undecided as e:
                            bad.append(((mode, sign, lhs, rhs, tz), 'undecided: %s' % e))
                            continue
                        out = TB.deref(out)
                        got = 'down' if out == lhs_t else 'up' if out == up_t else TB.show(out)
                        table[(mode, sign, lhs, rhs, tz)] = got
                        want = spec_round_pair(mode, sign, lhs, rhs, tz)
                        if got != want:
                            bad.append(((mode, sign, lhs, rhs, tz), 'table says %s, definition says %s' % (got, want)))
    und = [b for b in bad if b[1].startswith('undecided')]
    real = [b for b in bad if not b[1].startswith('undecided')]
    if und and not real:
        rep.undecided(rule, fn.key + ':table', '%d cells could not be evaluated (%s)' % (len(und), und[0]), fn.where())
    # group mismatches per mode so one defect is one report
    per_mode = {}
    for (cell, why) in real:
        per_mode.setdefault(cell[0], []).append((cell, why))
    for mode in MODES:
        key = '%s:mode=%s' % (fn.key, mode)
        if mode in per_mode:
            c, why = per_mode[mode][0]
            rep.violation(rule, key, 'round_pair deviates from the %s definition in %d of 600 cells, e.g. (mode,sign,lhs,rhs,trailing_zeros)=%s: %s'
                          % (mode, len(per_mode[mode]), c, why), fn.where())
        elif not und:
            rep.ok(rule, key, '600 cells (3 signs x 10 x 10 digit pairs x tail flag) agree with the definition; %d CFG paths' % len(paths), fn.where())
    rep.extra['round_pair_cells'] = cells
    rep.extra['round_pair_paths'] = len(paths)
    return cells, (table if not bad else None)


def needs_tz_crosscheck(rep, F, rp_table, rule='R-TABLE'):
    """writer/reader agreement: wherever needs_trailing_zeros(mode, d) is false, round_pair's outcome
    for insignificant digit d must not depend on the trailing_zeros flag"""
    fn = find_fn(F, r'RoundingMode::needs_trailing_zeros$')
    if fn is None:
        rep.note('anchor RoundingMode::needs_trailing_zeros not found: cross-check skipped')
        return 0
    rep.add_functions([fn.name])
    if rp_table is None:
        rep.undecided_anchor(rule, fn.key + ':lazy-flag', 'round_pair table unavailable or inconsistent; cross-check not performed', fn.where())
        return 0
    try:
        paths = TB.PathEnum(F, fn).run()
    except Undecided as e:
        rep.undecided_anchor(rule, fn.key + ':lazy-flag', 'table not extractable: %s' % e, fn.where())
        return 0
    enums = F.raw['enums']
    n = 0
    bad = []
    # the hint's two inputs by type: the mode (a RoundingMode parameter, or the `mode` field of a rounding-data parameter) and
    # the insignificant digit (the u8 parameter) - wherever they stand
    tys = fn.argtys()
    mode_terms = [T('param', i) for i, ty in enumerate(tys, 1) if re.search(r'RoundingMode$', ty.lstrip('&'))] + \
                 [T('field', T('param', i), 'mode') for i, ty in enumerate(tys, 1) if re.search(r'NonDigitRoundingData$', ty.lstrip('&'))]
    digit_terms = [T('param', i) for i, ty in enumerate(tys, 1) if ty.lstrip('&') == 'u8']
    if len(mode_terms) != 1 or len(digit_terms) != 1:
        mode_terms, digit_terms = [T('param', 1)], [T('param', 2)]
    for mode in MODES:
        for d in range(10):
            ev = TB.Evaluator(enums, {mode_terms[0]: ('variant', 'RoundingMode', mode), digit_terms[0]: d})
            n += 1
            try:
                atoms, out = ev.select(paths)
                need = ev.ev(out)
            except Undecided as e:
                rep.undecided(rule, fn.key + ':lazy-flag', 'cell (%s,%d): %s' % (mode, d, e), fn.where())
                return n
            if not need:
                for sign in SIGNS:
                    for lhs in range(10):
                        if rp_table[(mode, sign, lhs, d, 0)] != rp_table[(mode, sign, lhs, d, 1)]:
                            bad.append((mode, d, sign, lhs))
    if bad:
        rep.violation(rule, fn.key + ':lazy-flag',
                      'needs_trailing_zeros says the tail flag is irrelevant for (mode, digit)=%s but round_pair\'s outcome depends on it (e.g. sign=%s lhs=%d); %d such cells'
                      % (bad[0][:2], bad[0][2], bad[0][3], len(bad)), fn.where())
    else:
        rep.ok(rule, fn.key + ':lazy-flag', '70 (mode, digit) cells: wherever the hint is false round_pair ignores the tail flag for all signs and left digits', fn.where())
    return n


# ---------------------------------------------------------------- classification tables (sign / FpCategory)
def outcome_class(out):
    """structural class of a path outcome"""
    out = TB.deref(TB.reduce_try(TB.deref(out)))
    if out[0] == 'adt' and out[2] == 'None':
        return 'None'
    if out[0] == 'adt' and out[2] == 'Some':
        inner = TB.deref(out[3][0]) if out[3] else None
        if inner is not None and inner[0] == 'const':
            return 'Some(%d)' % inner[1]
        return 'Some(..)'
    if out[0] == 'adt' and out[2] in ('Err', 'Ok'):
        inner = TB.deref(out[3][0]) if out[3] else None
        if inner is not None and inner[0] == 'call':
            return '%s(call:%s)' % (out[2], inner[1].split('::')[-1])
        return out[2]
    if out[0] == 'call':
        return 'call:' + re.sub(r'<[^<>]*>', '', out[1]).split('::')[-1]
    if out[0] == 'panic':
        return 'panic'
    if out[0] == 'const':
        return 'const:%d' % out[1]
    return 'other'


def atoms_on(paths, term_pred):
    """restrict each path to its atoms whose term satisfies term_pred; returns list of (atoms, outcome)"""
    return [([a for a in atoms if term_pred(a[0])], out) for atoms, out in paths]


# ---------------------------------------------------------------- who may decide on a rounding mode
MODE_DISPATCH_ALLOWED = {
    'RoundingMode::round_pair': 'its complete table is checked against the mode definitions (C06)',
    'RoundingMode::needs_trailing_zeros': 'cross-checked against round_pair (C06/C11)',
    'BigDecimal::inverse_with_context': 'its (sign, mode) mirror table is checked exactly (C12)',
}


def mode_dispatch(rep, F, rule='MODE-DISPATCH'):
    """layering rule: a rounding decision is taken only inside the table-checked functions; any other
    function that branches on a RoundingMode value (match / == on the mode) carries its own,
    unchecked, mode table"""
    from dataflow import Defs
    from facts import op_local, strip_lt, cdef
    n = 0
    hits = []
    for fn in F.real_fns():
        if fn.trait and (fn.self_ty or '').endswith('RoundingMode') and fn.trait.startswith('std::'):
            continue          # derived Debug / PartialEq / Hash / Clone on the enum itself
        defs = None
        found = None
        for bid in sorted(fn.live_blocks()):
            t = fn.blocks[bid]['term']
            if t['t'] == 'switch':
                l = op_local(t['on'])
                if l is None:
                    continue
                defs = defs or Defs(fn)
                for dd in defs.defs.get(l, []):
                    if dd[0] == 'assign' and dd[2]['rv']['r'] == 'discr':
                        pl = dd[2]['rv']['pl']
                        if 'RoundingMode' in strip_lt(pl['ty']) and 'Option' not in strip_lt(pl['ty']):
                            found = ('match on the mode', t.get('loc', {}).get('line', fn.line))
            elif t['t'] == 'call' and re.search(r'cmp::PartialEq::(eq|ne)$', cdef(t)):
                tys = [strip_lt(a.get('pl', {}).get('ty') or a.get('ty') or '') for a in t['args']]
                if any(ty.lstrip('&').endswith('RoundingMode') for ty in tys):
                    found = ('== on the mode', t['loc']['line'])
        if found:
            n += 1
            key = fn.key
            base = re.sub(r'::\{closure#\d+\}.*$', '', key)
            if base in MODE_DISPATCH_ALLOWED:
                rep.ok(rule, key, 'dispatches on the rounding mode; allowed: %s' % MODE_DISPATCH_ALLOWED[base], fn.where(found[1]))
            else:
                hits.append(fn)
                rep.violation(rule, key, 'this function takes its own rounding decision (%s) instead of delegating to RoundingMode::round_pair, whose table is the only one checked against the mode definitions' % found[0], fn.where(found[1]))
    rep.add_functions([f.name for f in hits])
    return n
