"""COUNT-DIGITS: count_decimal_digits_uint (behind digits(), with_prec, every rounding to a precision) returns d with
uint < 10^d established by its own last test, and keeps num == 10^d in step.

  (a) lock-step: `num` starts as ten_to_the_uint(digits) and every update multiplies num by 10 and adds 1 to digits
      together (R-SCALE dims typing with an inductive loop invariant: the power of ten of `num` stays `digits`);
  (b) checked-after-last-update (typestate): on every path to the return of `digits`, after the last write to `num` or
      `digits` the test `uint >= num` was taken on its false edge.  A correction applied once (`if` instead of `while`)
      returns without re-testing: correct only if the floating-point estimate is never short by more than one.
The lower bound 10^(d-1) <= uint rests on the estimate being a lower bound of the digit count - a numeric fact that is not
decided here."""
import re
from facts import cdef, cres, op_local


MAXDIGITS = {'u8': 3, 'u16': 5, 'u32': 10, 'u64': 20, 'u128': 39, 'usize': 20}


def fast_path_cap(rep, F, fn, rule):
    """(c) a machine-word fast path (`if let Some(n) = uint.to_uNN()`) accepts every value of that type; the count it can
    return has a structural upper bound - the length of the table it counts over, or the literal its counter is capped at.
    A bound below the number of decimal digits of the type's largest value miscounts the longest values the path accepts.
    Decided only when nothing but the zero test and the to_uNN test guards the path; anything else is left alone."""
    dom = fn.dominators()
    live = fn.live_blocks()
    defs = {}
    for bid, st in fn.stmts():
        if bid in live and not st['lhs']['p']:
            defs.setdefault(st['lhs']['l'], []).append((bid, st))
    calls = {}
    for bid, t in fn.calls():
        if bid in live and t.get('dest') and not t['dest']['p']:
            calls.setdefault(t['dest']['l'], []).append((bid, t))
    # the guard: switch on discr(x) with x = to_uNN(..)
    guards = []
    for bid in sorted(live):
        t = fn.blocks[bid]['term']
        if t['t'] != 'switch' or op_local(t['on']) is None:
            continue
        for _, st in defs.get(op_local(t['on']), []):
            if st['rv']['r'] == 'discr' and not st['rv']['pl']['p']:
                for _, c in calls.get(st['rv']['pl']['l'], []):
                    m = re.search(r'ToPrimitive(?:>| for [^>]*>)?::to_(u8|u16|u32|u64|u128|usize)$', (cres(c) or '')) or re.search(r'ToPrimitive>?::to_(u8|u16|u32|u64|u128|usize)$', cdef(c) or '')
                    if m:
                        some = [tg for v, tg in t['targets'] if str(v) == '1']
                        if some:
                            guards.append((bid, some[0], m.group(1)))
    n = 0
    for gb, some_bb, ty in guards:
        for bid, st in fn.stmts():
            if bid not in live or st['lhs']['l'] != 0 or st['lhs']['p'] or some_bb not in dom.get(bid, ()):
                continue
            # other tests between the guard and this return: only the path's own loop tests are tolerated
            cap = why = None
            src = st['rv']
            loc = None
            for _ in range(4):
                if src['r'] in ('use', 'cast') and op_local(src['op']) is not None:
                    loc = op_local(src['op'])
                    ds = defs.get(loc, [])
                    if len(ds) == 1 and ds[0][1]['rv']['r'] in ('use', 'cast') and loc not in calls:
                        src = ds[0][1]['rv']
                        continue
                break
            if loc is None:
                continue
            key = '%s:fast-path-%s-cap' % (fn.key, ty)
            if loc in calls and len(calls[loc]) == 1 and re.search(r'Iterator::count$', cres(calls[loc][0][1]) or cdef(calls[loc][0][1]) or ''):
                # count() over adaptors over the iterator of a fixed-size array
                cur = calls[loc][0][1]
                for _ in range(6):
                    a = op_local(cur['args'][0]) if cur.get('args') else None
                    if a is None:
                        break
                    if a in calls and len(calls[a]) == 1:
                        cur = calls[a][0][1]
                        continue
                    ds = defs.get(a, [])
                    if len(ds) == 1 and ds[0][1]['rv']['r'] in ('use', 'cast', 'ref'):
                        rv = ds[0][1]['rv']
                        inner = op_local(rv['op']) if rv['r'] != 'ref' else rv['pl']['l']
                        m = re.search(r'\[[^;\]]+; (\d+)\]', fn.locals[inner] if inner is not None else '')
                        if m and re.search(r'::iter$', cres(cur) or cdef(cur) or ''):
                            cap, why = int(m.group(1)), 'it counts entries of a table of %s elements' % m.group(1)
                        break
                    break
                # every switch dominating the return besides the zero test and the guard disqualifies
                others = [b for b in dom[bid] if fn.blocks[b]['term']['t'] == 'switch' and b != gb and some_bb in dom[b]]
                if others:
                    cap = None
            else:
                # a counter: const init, +1 steps, every step dominated by the true edge of `counter < K`
                ds = defs.get(loc, [])
                inits = [d for d in ds if d[1]['rv']['r'] == 'use' and d[1]['rv']['op'].get('k') == 'const' and 'int' in d[1]['rv']['op']]
                steps = [d for d in ds if d not in inits]
                lim = None
                for b2, st2 in fn.stmts():
                    rv = st2['rv']
                    if b2 in live and rv['r'] == 'bin' and rv['bop'] == 'Lt' and rv['b'].get('k') == 'const' and 'int' in rv['b'] and op_local(rv['a']) is not None:
                        a = op_local(rv['a'])
                        da = defs.get(a, [])
                        if a == loc or (len(da) == 1 and da[0][1]['rv']['r'] == 'use' and op_local(da[0][1]['rv']['op']) == loc):
                            tsw = fn.blocks[b2]['term']
                            if tsw['t'] == 'switch' and op_local(tsw['on']) == st2['lhs']['l']:
                                true_bb = tsw['otherwise'] if [str(v) for v, _ in tsw['targets']] == ['0'] else next((tg for v, tg in tsw['targets'] if str(v) == '1'), None)
                                lim = (int(rv['b']['int']), true_bb, b2)
                if lim and inits and steps and all(int(d[1]['rv']['op']['int']) <= lim[0] for d in inits) and all(lim[1] in dom.get(d[0], ()) for d in steps):
                    ok_steps = True
                    for d in steps:
                        rv = d[1]['rv']
                        srcl = rv['op']['pl']['l'] if rv['r'] == 'use' and rv['op'].get('k') in ('copy', 'move') else None
                        sd = defs.get(srcl, []) if srcl is not None else []
                        if not (len(sd) == 1 and sd[0][1]['rv']['r'] == 'bin' and sd[0][1]['rv']['bop'] in ('AddWithOverflow', 'Add') and op_local(sd[0][1]['rv']['a']) == loc
                                and sd[0][1]['rv']['b'].get('k') == 'const' and sd[0][1]['rv']['b'].get('int') == '1'):
                            ok_steps = False
                    # a further test between the guard and the loop may narrow the accepted values: not decided then
                    others = [b for b in dom[bid] if fn.blocks[b]['term']['t'] == 'switch' and b != gb and some_bb in dom[b] and b != lim[2] and lim[2] not in dom[b]]
                    if ok_steps and not others:
                        cap, why = lim[0], 'its counter stops at the literal %d' % lim[0]
            if cap is None:
                continue
            n += 1
            if cap < MAXDIGITS[ty]:
                rep.violation(rule, key, 'the %s fast path can return at most %d (%s) but accepts every %s, whose largest values have %d decimal digits' % (ty, cap, why, ty, MAXDIGITS[ty]), fn.where(st.get('line')))
            else:
                rep.ok(rule, key, 'the %s fast path can count up to %d digits (%s); the type needs %d' % (ty, cap, why, MAXDIGITS[ty]), fn.where(st.get('line')))
    return n


def check(rep, F, rule='COUNT-DIGITS'):
    fn = F.fns.get('arithmetic::count_decimal_digits_uint')
    if fn is None:
        rep.violation(rule, 'count_decimal_digits_uint:missing', 'anchor function not found (fail closed)')
        return 0
    rep.add_functions([fn.name])
    n = 0
    # ---- (b) typestate
    num = digits = None
    for bid, t in fn.calls():
        if re.search(r'ten_to_the(_uint)?$', cres(t) or '') and t.get('dest') and not t['dest']['p']:
            num = t['dest']['l']
            a = op_local(t['args'][0]) if t['args'] else None
            # resolve the argument to the variable it copies
            for b2, st in fn.stmts():
                if a is not None and st['lhs']['l'] == a and not st['lhs']['p'] and st['rv']['r'] == 'use' and st['rv']['op'].get('k') in ('copy', 'move'):
                    digits = st['rv']['op']['pl']['l']
            if digits is None:
                digits = a
    key = fn.key + ':checked-after-last-update'
    n += 1
    if num is None or digits is None:
        rep.undecided(rule, key, 'the pair (num, digits) was not recognised', fn.where())
    else:
        refs = {}
        for bid, st in fn.stmts():
            if not st['lhs']['p'] and st['rv']['r'] == 'ref':
                refs[st['lhs']['l']] = st['rv']['pl']['l']
        tests = {}        # bool local -> True if it is `uint >= num` (or `num <= uint`), False for the negated forms
        for bid, t in fn.calls():
            m = re.search(r'PartialOrd::(ge|le|lt|gt)$', cdef(t) or '')
            if m and len(t['args']) == 2 and t.get('dest'):
                a0, a1 = refs.get(op_local(t['args'][0])), refs.get(op_local(t['args'][1]))
                op = m.group(1)
                if a1 == num and op in ('ge', 'lt'):
                    tests[t['dest']['l']] = (op == 'ge')
                elif a0 == num and op in ('le', 'gt'):
                    tests[t['dest']['l']] = (op == 'le')
        live = fn.live_blocks()
        IN = {0: None}      # None = unvisited marker handled below; state: True (verified) / False
        state_in = {0: False}
        work = [0]
        bad_ret = []
        while work:
            b = work.pop()
            st_ = state_in[b]
            blk = fn.blocks[b]
            if blk['cleanup']:
                continue
            ret_of_digits = False
            for s0 in blk['st']:
                if s0['s'] != 'assign':
                    continue
                if not s0['lhs']['p'] and s0['lhs']['l'] in (num, digits):
                    st_ = False
                if not s0['lhs']['p'] and s0['lhs']['l'] == 0 and s0['rv']['r'] == 'use' and s0['rv']['op'].get('k') in ('copy', 'move') and s0['rv']['op']['pl']['l'] == digits:
                    ret_of_digits = True
                    if not st_:
                        bad_ret.append(s0.get('line'))
            t = blk['term']
            outs = []
            if t['t'] == 'call':
                if any(refs.get(op_local(a)) in (num, digits) and fn.locals[op_local(a)].startswith('&mut') for a in t['args'] if op_local(a) is not None):
                    st_ = False
                if t.get('dest') and not t['dest']['p'] and t['dest']['l'] in (num, digits):
                    st_ = False
                if t.get('to') is not None:
                    outs.append((t['to'], st_))
            elif t['t'] == 'switch' and t['on'].get('k') in ('copy', 'move') and t['on']['pl']['l'] in tests:
                ge_true = tests[t['on']['pl']['l']]
                for val, tgt in t['targets']:
                    truth = int(val) != 0
                    # the false edge of `uint >= num` establishes uint < num
                    outs.append((tgt, True if (truth != ge_true) else st_))
                outs.append((t['otherwise'], True if (True != ge_true) else st_))
            else:
                for nx in fn.succ(b):
                    outs.append((nx, st_))
            for nx, v in outs:
                if nx not in live:
                    continue
                old = state_in.get(nx)
                new = v if old is None else (old and v)
                if old is None or new != old:
                    state_in[nx] = new
                    work.append(nx)
        adaptors = [cres(t) or '' for _, t in fn.calls() if re.search(r'Iterator::(take_while|skip_while|position|find|count|successors)$|iter::successors', cres(t) or cdef(t) or '')]
        if not tests and adaptors:
            # the correction written with iterator adaptors: the test lives in a closure this typestate does not follow
            rep.undecided_anchor(rule, key, 'the correction is written with iterator adaptors (%s); the explicit-loop shape this rule decides is absent' % adaptors[0].split('::')[-1], fn.where())
        elif not tests:
            rep.violation(rule, key, 'no test `uint >= num` found: the count returned is never checked against 10^digits', fn.where())
        elif bad_ret:
            rep.violation(rule, key, '`digits` is returned on a path where `num`/`digits` were updated after the last `uint >= num` test: uint < 10^digits is not established (a single correction instead of a loop)', fn.where(bad_ret[0]))
        else:
            rep.ok(rule, key, 'every return of `digits` follows the false edge of `uint >= num` with no later update of num or digits', fn.where())
    # ---- (c) machine-word fast paths
    n += fast_path_cap(rep, F, fn, rule)
    # ---- (a) lock-step through the loop
    from rules import scale
    n += 1
    key = fn.key + ':num-is-ten-to-the-digits'
    v, msgs, paths = scale.analyse(fn, 'dims')
    a = scale.analyse.last
    if v == 'violation' and any('LOOP STEP' in m for m in msgs):
        rep.violation(rule, key, [m for m in msgs if 'LOOP STEP' in m][0][:300], fn.where())
    elif getattr(a, 'loop_ok', 0) >= 1 and not any('LOOP STEP' in m for m in msgs):
        rep.ok(rule, key, 'the loop multiplies num by 10 and adds 1 to digits together: num stays 10^digits (inductive step proved)', fn.where())
    else:
        rep.undecided(rule, key, (msgs or a.undec or ['no loop invariant established'])[0][:200], fn.where())
    return n
