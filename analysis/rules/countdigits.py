"""COUNT-DIGITS: count_decimal_digits_uint (behind digits(), with_prec, every rounding to a precision) returns d with
uint < 10^d established by its own last test, and keeps num == 10^d in step.

  (a) lock-step: `num` starts as ten_to_the_uint(digits) and every update multiplies num by 10 and adds 1 to digits
      together (R-SCALE dims typing with an inductive loop invariant: the power of ten of `num` stays `digits`);
  (b) checked-after-last-update (typestate): on every path to the return of `digits`, after the last write to `num` or
      `digits` the test `uint >= num` was taken on its false edge.  A correction applied once (`if` instead of `while`)
      returns without re-testing: correct only if the floating-point estimate is never short by more than one.
The lower bound 10^(d-1) <= uint rests on the estimate being a lower bound of the digit count - a numeric fact that is not
decided here."""
import re
from facts import cdef, cres, op_local


def check(rep, F, rule='COUNT-DIGITS'):
    fn = F.fns.get('arithmetic::count_decimal_digits_uint')
    if fn is None:
        rep.violation(rule, 'count_decimal_digits_uint:missing', 'anchor function not found (fail closed)')
        return 0
    rep.add_functions([fn.name])
    n = 0
    # ---- (b) typestate
    num = digits = None
    for bid, t in fn.calls():
        if re.search(r'ten_to_the(_uint)?$', cres(t) or '') and t.get('dest') and not t['dest']['p']:
            num = t['dest']['l']
            a = op_local(t['args'][0]) if t['args'] else None
            # resolve the argument to the variable it copies
            for b2, st in fn.stmts():
                if a is not None and st['lhs']['l'] == a and not st['lhs']['p'] and st['rv']['r'] == 'use' and st['rv']['op'].get('k') in ('copy', 'move'):
                    digits = st['rv']['op']['pl']['l']
            if digits is None:
                digits = a
    key = fn.key + ':checked-after-last-update'
    n += 1
    if num is None or digits is None:
        rep.undecided(rule, key, 'the pair (num, digits) was not recognised', fn.where())
    else:
        refs = {}
        for bid, st in fn.stmts():
            if not st['lhs']['p'] and st['rv']['r'] == 'ref':
                refs[st['lhs']['l']] = st['rv']['pl']['l']
        tests = {}        # bool local -> True if it is `uint >= num` (or `num <= uint`), False for the negated forms
        for bid, t in fn.calls():
            m = re.search(r'PartialOrd::(ge|le|lt|gt)$', cdef(t) or '')
            if m and len(t['args']) == 2 and t.get('dest'):
                a0, a1 = refs.get(op_local(t['args'][0])), refs.get(op_local(t['args'][1]))
                op = m.group(1)
                if a1 == num and op in ('ge', 'lt'):
                    tests[t['dest']['l']] = (op == 'ge')
                elif a0 == num and op in ('le', 'gt'):
                    tests[t['dest']['l']] = (op == 'le')
        live = fn.live_blocks()
        IN = {0: None}      # None = unvisited marker handled below; state: True (verified) / False
        state_in = {0: False}
        work = [0]
        bad_ret = []
        while work:
            b = work.pop()
            st_ = state_in[b]
            blk = fn.blocks[b]
            if blk['cleanup']:
                continue
            ret_of_digits = False
            for s0 in blk['st']:
                if s0['s'] != 'assign':
                    continue
                if not s0['lhs']['p'] and s0['lhs']['l'] in (num, digits):
                    st_ = False
                if not s0['lhs']['p'] and s0['lhs']['l'] == 0 and s0['rv']['r'] == 'use' and s0['rv']['op'].get('k') in ('copy', 'move') and s0['rv']['op']['pl']['l'] == digits:
                    ret_of_digits = True
                    if not st_:
                        bad_ret.append(s0.get('line'))
            t = blk['term']
            outs = []
            if t['t'] == 'call':
                if any(refs.get(op_local(a)) in (num, digits) and fn.locals[op_local(a)].startswith('&mut') for a in t['args'] if op_local(a) is not None):
                    st_ = False
                if t.get('dest') and not t['dest']['p'] and t['dest']['l'] in (num, digits):
                    st_ = False
                if t.get('to') is not None:
                    outs.append((t['to'], st_))
            elif t['t'] == 'switch' and t['on'].get('k') in ('copy', 'move') and t['on']['pl']['l'] in tests:
                ge_true = tests[t['on']['pl']['l']]
                for val, tgt in t['targets']:
                    truth = int(val) != 0
                    # the false edge of `uint >= num` establishes uint < num
                    outs.append((tgt, True if (truth != ge_true) else st_))
                outs.append((t['otherwise'], True if (True != ge_true) else st_))
            else:
                for nx in fn.succ(b):
                    outs.append((nx, st_))
            for nx, v in outs:
                if nx not in live:
                    continue
                old = state_in.get(nx)
                new = v if old is None else (old and v)
                if old is None or new != old:
                    state_in[nx] = new
                    work.append(nx)
        if not tests:
            rep.violation(rule, key, 'no test `uint >= num` found: the count returned is never checked against 10^digits', fn.where())
        elif bad_ret:
            rep.violation(rule, key, '`digits` is returned on a path where `num`/`digits` were updated after the last `uint >= num` test: uint < 10^digits is not established (a single correction instead of a loop)', fn.where(bad_ret[0]))
        else:
            rep.ok(rule, key, 'every return of `digits` follows the false edge of `uint >= num` with no later update of num or digits', fn.where())
    # ---- (a) lock-step through the loop
    from rules import scale
    n += 1
    key = fn.key + ':num-is-ten-to-the-digits'
    v, msgs, paths = scale.analyse(fn, 'dims')
    a = scale.analyse.last
    if v == 'violation' and any('LOOP STEP' in m for m in msgs):
        rep.violation(rule, key, [m for m in msgs if 'LOOP STEP' in m][0][:300], fn.where())
    elif getattr(a, 'loop_ok', 0) >= 1 and not any('LOOP STEP' in m for m in msgs):
        rep.ok(rule, key, 'the loop multiplies num by 10 and adds 1 to digits together: num stays 10^digits (inductive step proved)', fn.where())
    else:
        rep.undecided(rule, key, (msgs or a.undec or ['no loop invariant established'])[0][:200], fn.where())
    return n
