"""R-PROJ: constructors, accessors and views are pure projections (tables/projection_spec.json)."""
import json, os, re
from rules import table as TB

VERIF = os.path.dirname(os.path.dirname(os.path.dirname(os.path.abspath(__file__))))


def check(rep, F, rule='R-PROJ'):
    with open(os.path.join(VERIF, 'tables', 'projection_spec.json')) as fh:
        spec = json.load(fh)['spec']
    n = 0
    for ent in spec:
        fns = [f for f in F.real_fns() if not f.is_closure and re.search(ent['fn'], f.name)]
        if not fns:
            rep.note('R-PROJ anchor %s not present in this tree: skipped' % ent['fn'])
            continue
        for fn in fns:
            rep.add_functions([fn.name])
            key = fn.key + ':projection'
            try:
                paths = TB.PathEnum(F, fn, max_paths=16).run()
            except TB.Undecided as e:
                rep.undecided(rule, key, 'not loop-free (%s): projection shape not decided' % e, fn.where())
                continue
            n += 1
            if len(paths) != 1 or paths[0][0]:
                rep.undecided(rule, key, 'body has %d conditional paths: no longer a plain projection; not decided structurally' % len(paths), fn.where())
                continue
            nf = TB.normal_form(F, paths[0][1])
            if nf in ent['expect']:
                rep.ok(rule, key, '%s (%s)' % (nf, ent['meaning']), fn.where())
            else:
                rep.violation(rule, key, 'must be a pure projection returning %s (%s); it returns %s' % (' or '.join(ent['expect']), ent['meaning'], nf), fn.where())
    return n
