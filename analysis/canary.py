#!/usr/bin/env python3
"""Canary self-test: apply each canaries/*.patch to a scratch copy of /repo (outside /repo and
/verif, removed afterwards), re-run the named property checks against the copy and require the
expected violation key.  A canary whose patch no longer applies is skipped with a note.

usage: canary.py [--only SUBSTR] [--prop Cxx] [--jobs N] [--keep]
Patch header lines (before the diff):
   # property: C20[,C08]      which checks must fire
   # expect: <substring that must occur in a reported violation key or detail>
   # note: free text
"""
import argparse, concurrent.futures, json, os, re, shutil, subprocess, sys, tempfile

HERE = os.path.dirname(os.path.abspath(__file__))
VERIF = os.path.dirname(HERE)
REPO = os.environ.get('VERIF_REPO', '/repo')


def parse_header(path):
    meta = {'property': [], 'expect': [], 'note': ''}
    with open(path) as fh:
        for line in fh:
            if line.startswith('diff ') or line.startswith('--- '):
                break
            m = re.match(r'^#\s*(\w+):\s*(.*)$', line)
            if m:
                k, v = m.group(1), m.group(2).strip()
                if k == 'property':
                    meta['property'] += [x.strip() for x in v.split(',') if x.strip()]
                elif k == 'expect':
                    meta['expect'].append(v)
                else:
                    meta[k] = v
    return meta


def run_canary(path, props=None, keep=False):
    meta = parse_header(path)
    name = os.path.basename(path)
    tmp = tempfile.mkdtemp(prefix='canary-')
    try:
        dst = os.path.join(tmp, 'repo')
        subprocess.check_call(['rsync', '-a', '--exclude', 'target', '--exclude', '.git', REPO + '/', dst + '/'])
        p = subprocess.run(['patch', '-p1', '--no-backup-if-mismatch', '-s', '-i', os.path.abspath(path)], cwd=dst,
                           stdout=subprocess.PIPE, stderr=subprocess.STDOUT, text=True)
        if p.returncode != 0:
            return {'canary': name, 'status': 'skipped', 'why': 'patch does not apply: ' + p.stdout.strip()[:200]}
        res = {'canary': name, 'status': 'caught', 'props': {}}
        env = dict(os.environ, VERIF_REPO=dst, VERIF_EVIDENCE_DIR=os.path.join(tmp, 'evidence'))
        for pid in (props or meta['property']):
            q = subprocess.run([sys.executable, os.path.join(HERE, 'main.py'), pid, '--tier', 'quick'], cwd=VERIF, env=env,
                               stdout=subprocess.PIPE, stderr=subprocess.STDOUT, text=True)
            out = q.stdout
            viol = 'VIOLATION property=%s' % pid in out
            exp_ok = all(e in out for e in meta['expect']) if meta['expect'] else True
            res['props'][pid] = {'violation': viol, 'expected_key_seen': exp_ok, 'exit': q.returncode}
            if 'does not compile' in out or 'extraction failed' in out:
                res['status'] = 'broken-canary'
                res['why'] = 'patched tree does not compile'
            elif not viol or not exp_ok:
                res['status'] = 'MISSED'
                res['why'] = [l for l in out.splitlines() if 'violation' in l.lower()][:5]
        return res
    finally:
        if not keep:
            shutil.rmtree(tmp, ignore_errors=True)


def main():
    ap = argparse.ArgumentParser()
    ap.add_argument('--only', default=None)
    ap.add_argument('--prop', default=None)
    ap.add_argument('--jobs', type=int, default=8)
    ap.add_argument('--dir', default=os.path.join(VERIF, 'canaries'))
    ap.add_argument('files', nargs='*')
    a = ap.parse_args()
    files = a.files or sorted(os.path.join(a.dir, f) for f in os.listdir(a.dir) if f.endswith('.patch'))
    if a.only:
        files = [f for f in files if a.only in f]
    if a.prop:
        files = [f for f in files if a.prop in parse_header(f)['property']]
    results = []
    with concurrent.futures.ThreadPoolExecutor(max_workers=a.jobs) as ex:
        for r in ex.map(lambda f: run_canary(f, [a.prop] if a.prop else None), files):
            results.append(r)
            print('%-10s %s %s' % (r['status'], r['canary'], r.get('why', '')))
    missed = [r for r in results if r['status'] == 'MISSED']
    print(json.dumps({'total': len(results), 'caught': sum(r['status'] == 'caught' for r in results),
                      'missed': len(missed), 'skipped': sum(r['status'] == 'skipped' for r in results)}))
    return 1 if missed else 0


if __name__ == '__main__':
    sys.exit(main())
