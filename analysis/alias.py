"""Renamed crate-internal functions are analysed under their reference names.

Rules find their anchors (kernels, helpers, reviewed sites) by function path.  A behaviour-preserving rename of a private
function would make every such rule fail closed - an alarm on code where the property holds.  So before the fact base is
indexed, functions whose path is unknown to the reference table (tables/fn_fingerprints.json, generated from the tree the
rules were written against) are matched against reference paths that have disappeared: same parameter and return types,
and the most similar multiset of callees (unique best match, similarity >= 0.5).  A match only RENAMES: the body that is
analysed is the current one, so a changed body is still judged by every rule; an unmatched disappearance still fails closed."""
import collections, json, os, re

VERIF = os.path.dirname(os.path.dirname(os.path.abspath(__file__)))
TABLE = os.path.join(VERIF, 'tables', 'fn_fingerprints.json')


def strip_lt(t):
    return re.sub(r"'[a-z_][A-Za-z0-9_]*\s*", '', t or '')


def _callee_names(body):
    out = collections.Counter()
    for b in body['blocks']:
        t = b['term']
        if t.get('t') == 'call':
            c = t.get('callee') or {}
            n = c.get('resolved') or c.get('def') or ''
            n = re.sub(r'<[^<>]*>', '', re.sub(r'<[^<>]*>', '', n))
            if n.startswith(body['name'] + '::') or n == body['name']:
                n = 'SELF' + n[len(body['name']):]       # own closures / recursion: independent of the item's name
            out[n] += 1
    return out


def fingerprint(body):
    loc = body['locals']
    return {'args': [strip_lt(x) for x in loc[1:1 + body['argc']]], 'ret': strip_lt(loc[0]), 'file': body['span']['file'],
            'callees': dict(_callee_names(body)), 'kind': body['kind'], 'vis': body.get('vis')}


def eligible(body):
    n = body['name']
    return body['kind'] in ('Fn', 'AssocFn') and '::promoted[' not in n and '{closure' not in n and '{impl' not in n


def table_of(raw):
    return {b['name']: fingerprint(b) for b in raw['bodies'] if eligible(b)}


def _sim(a, b):
    ka, kb = collections.Counter(a), collections.Counter(b)
    inter = sum((ka & kb).values())
    union = sum((ka | kb).values())
    return 1.0 if union == 0 else inter / union


def find_aliases(raw):
    """-> {current path: reference path}"""
    try:
        ref = json.load(open(TABLE))
    except Exception:
        return {}
    cur = table_of(raw)
    missing = {n: fp for n, fp in ref.items() if n not in cur}
    extra = {n: fp for n, fp in cur.items() if n not in ref}
    if not missing or not extra:
        return {}
    cands = []
    for m, fm in missing.items():
        for e, fe in extra.items():
            if fm['args'] != fe['args'] or fm['ret'] != fe['ret'] or fm['kind'] != fe['kind']:
                continue
            # same enclosing path (module / type): a rename changes the last segment only; a move keeps the last segment
            if m.rpartition('::')[0] != e.rpartition('::')[0] and m.rpartition('::')[2] != e.rpartition('::')[2]:
                continue
            # callee names may themselves have been renamed: compare with the renamed item's own last segment neutralised
            s = _sim(fm['callees'], fe['callees'])
            cands.append((s, m, e))
    cands.sort(reverse=True)
    out, used_m, used_e = {}, set(), set()
    for s, m, e in cands:
        if m in used_m or e in used_e or s < 0.5:
            continue
        # unique best: no other candidate for m or e within 0.1
        rivals = [s2 for s2, m2, e2 in cands if (m2 == m) != (e2 == e) and (m2 == m or e2 == e) and m2 not in used_m and e2 not in used_e and s2 > s - 0.1]
        if rivals:
            continue
        out[e] = m
        used_m.add(m)
        used_e.add(e)
    return out


def apply(txt, aliases):
    for new, old in sorted(aliases.items(), key=lambda kv: -len(kv[0])):
        txt = re.sub(r'(?<![A-Za-z0-9_])%s(?![A-Za-z0-9_])' % re.escape(new), old.replace('\\', '\\\\'), txt)
        # call sites print the path relative to the crate root as well as bare last segments in closures' parents
    return txt


if __name__ == '__main__':
    import sys
    sys.path.insert(0, os.path.dirname(os.path.abspath(__file__)))
    import extract
    tab = {}
    for feat in ('default', 'serde', 'nostd'):
        for prof in ('rel', 'dbg'):
            try:
                d, info = extract.extract(feat, prof)
            except Exception as e:
                print('skip', feat, prof, e)
                continue
            txt = open(os.path.join(d, 'bigdecimal.json')).read()
            txt = re.sub(r'\b(?:core|alloc)::(?=[a-z_]+::|[A-Z])', 'std::', txt)
            for k, v in table_of(json.loads(txt)).items():
                tab.setdefault(k, v)
    json.dump(tab, open(TABLE, 'w'), indent=0, sort_keys=True)
    print('%d reference functions written to %s' % (len(tab), TABLE))
