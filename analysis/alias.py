"""Renamed crate-internal functions are analysed under their reference names.

Rules find their anchors (kernels, helpers, reviewed sites) by function path.  A behaviour-preserving rename of a private
function would make every such rule fail closed - an alarm on code where the property holds.  So before the fact base is
indexed, functions whose path is unknown to the reference table (tables/fn_fingerprints.json, generated from the tree the
rules were written against) are matched against reference paths that have disappeared: same parameter and return types,
and the most similar multiset of callees (unique best match, similarity >= 0.5).  A match only RENAMES: the body that is
analysed is the current one, so a changed body is still judged by every rule; an unmatched disappearance still fails closed."""
import collections, json, os, re

VERIF = os.path.dirname(os.path.dirname(os.path.abspath(__file__)))
TABLE = os.path.join(VERIF, 'tables', 'fn_fingerprints.json')


def strip_lt(t):
    return re.sub(r"'[a-z_][A-Za-z0-9_]*\s*", '', t or '')


def _callee_names(body):
    out = collections.Counter()
    for b in body['blocks']:
        t = b['term']
        if t.get('t') == 'call':
            c = t.get('callee') or {}
            n = c.get('resolved') or c.get('def') or ''
            n = re.sub(r'<[^<>]*>', '', re.sub(r'<[^<>]*>', '', n))
            if n.startswith(body['name'] + '::') or n == body['name']:
                n = 'SELF' + n[len(body['name']):]       # own closures / recursion: independent of the item's name
            out[n] += 1
    return out


def fingerprint(body):
    loc = body['locals']
    return {'args': [strip_lt(x) for x in loc[1:1 + body['argc']]], 'ret': strip_lt(loc[0]), 'file': body['span']['file'],
            'callees': dict(_callee_names(body)), 'kind': body['kind'], 'vis': body.get('vis')}


def eligible(body):
    n = body['name']
    return body['kind'] in ('Fn', 'AssocFn') and '::promoted[' not in n and '{closure' not in n and '{impl' not in n


def table_of(raw):
    return {b['name']: fingerprint(b) for b in raw['bodies'] if eligible(b)}


def _sim(a, b):
    ka, kb = collections.Counter(a), collections.Counter(b)
    inter = sum((ka & kb).values())
    union = sum((ka | kb).values())
    return 1.0 if union == 0 else inter / union


def find_aliases(raw):
    """-> {current path: reference path}"""
    ref = {k: v for k, v in ref_table().items() if not k.startswith('__')}
    if not ref:
        return {}
    cur = table_of(raw)
    missing = {n: fp for n, fp in ref.items() if n not in cur}
    extra = {n: fp for n, fp in cur.items() if n not in ref}
    if not missing or not extra:
        return {}
    cands = []
    for m, fm in missing.items():
        for e, fe in extra.items():
            if fm['ret'] != fe['ret']:
                continue          # (a free function may have become an associated one or the reverse)
            s = _sim(fm['callees'], fe['callees'])
            if fm['args'] != fe['args']:
                # parameter passing changed (a value instead of a reference, a derived quantity instead of the object): accepted
                # only for a renamed sibling in the same place whose name shares a word with the old one
                wa = set(re.split(r'[_:]+', m.rpartition('::')[2])) - {''}
                wb = set(re.split(r'[_:]+', e.rpartition('::')[2])) - {''}
                if m.rpartition('::')[0] != e.rpartition('::')[0] or len(wa & wb) < 2 or s < 0.2:
                    continue
                s = s + 0.5 if s < 0.5 else s
            # same enclosing path (module / type): a rename changes the last segment only; a move keeps the last segment;
            # renamed AND moved is accepted only for a near-identical body with real content (>= 3 calls, similarity >= 0.8)
            if m.rpartition('::')[0] != e.rpartition('::')[0] and m.rpartition('::')[2] != e.rpartition('::')[2]:
                if s < 0.8 or sum(fm['callees'].values()) < 3:
                    continue
            cands.append((s, m, e))
    cands.sort(reverse=True)
    out, used_m, used_e = {}, set(), set()
    for s, m, e in cands:
        if m in used_m or e in used_e or s < 0.5:
            continue
        # unique best: no other candidate for m or e within 0.1
        rivals = [s2 for s2, m2, e2 in cands if (m2 == m) != (e2 == e) and (m2 == m or e2 == e) and m2 not in used_m and e2 not in used_e and s2 > s - 0.1]
        if rivals:
            continue
        out[e] = m
        used_m.add(m)
        used_e.add(e)
    # one-for-one replacement within a file: exactly one function of a given (return type, arity) disappeared from the file
    # and exactly one of that shape appeared in it (a helper moved to another type, renamed, receiver changed)
    left_m = {m: f for m, f in missing.items() if m not in used_m}
    left_e = {e: f for e, f in extra.items() if e not in used_e}
    by_shape_m, by_shape_e = {}, {}
    for m, f in left_m.items():
        by_shape_m.setdefault((f['file'], f['ret'], len(f['args']), f['kind'] in ('Fn', 'AssocFn')), []).append(m)
    for e, f in left_e.items():
        by_shape_e.setdefault((f['file'], f['ret'], len(f['args']), f['kind'] in ('Fn', 'AssocFn')), []).append(e)
    for shape, ms in by_shape_m.items():
        es = by_shape_e.get(shape, [])
        if len(ms) == 1 and len(es) == 1 and shape[2] >= 1:
            out[es[0]] = ms[0]
    # the same across a change of arity (loose parameters gathered into a carrier whose method the helper became): the one
    # function of that return type that left the file and the one that entered it call exactly the same things (>= 2 calls)
    left_m = {m: f for m, f in left_m.items() if m not in out.values()}
    left_e = {e: f for e, f in left_e.items() if e not in out}
    for m, fm in left_m.items():
        es = [e for e, fe in left_e.items() if fe['file'] == fm['file'] and fe['ret'] == fm['ret']]
        ms = [m2 for m2, f2 in left_m.items() if f2['file'] == fm['file'] and f2['ret'] == fm['ret']]
        if len(es) == 1 and len(ms) == 1 and sum(fm['callees'].values()) >= 2 and _sim(fm['callees'], left_e[es[0]]['callees']) >= 0.99:
            out[es[0]] = m
    return out


def adt_fields(raw):
    """{adt path: {field index: field name}} for the crate's own types, from the field projections in the bodies"""
    out = {}

    def walk(o):
        if isinstance(o, dict):
            if 'f' in o and 'n' in o and 'adt' in o and o['adt'] and not o['adt'].startswith('std::'):
                out.setdefault(o['adt'], {})[str(o['f'])] = o['n']
            for v in o.values():
                walk(v)
        elif isinstance(o, list):
            for v in o:
                walk(v)
    walk(raw['bodies'])
    return out


def find_type_aliases(raw, ref_adts):
    """crate-internal types that were renamed: {current last segment: reference last segment}"""
    cur = adt_fields(raw)
    missing = {a: f for a, f in ref_adts.items() if a not in cur}
    extra = {a: f for a, f in cur.items() if a not in ref_adts}
    out = {}
    for m, fm in missing.items():
        c = [e for e, fe in extra.items() if fe == {k: v for k, v in fm.items() if k in fe} and len(fe) >= 1 and e.rpartition('::')[0] == m.rpartition('::')[0]]
        if len(c) == 1:
            out[c[0].rpartition('::')[2]] = m.rpartition('::')[2]
    return out


def field_aliases(raw, ref_adts):
    """{(adt, index): reference name} for fields of known types whose name changed (same position)"""
    cur = adt_fields(raw)
    out = {}
    for a, fs in cur.items():
        rf = ref_adts.get(a)
        if not rf:
            continue
        for i, n in fs.items():
            if i in rf and rf[i] != n and not n.isdigit():
                out[(a, i)] = rf[i]
    return out


def rename_fields(raw, fa):
    def walk(o):
        if isinstance(o, dict):
            if 'f' in o and 'n' in o and 'adt' in o and (o['adt'], str(o['f'])) in fa:
                o['n'] = fa[(o['adt'], str(o['f']))]
            if o.get('a') == 'adt' and isinstance(o.get('fields'), list) and o.get('vidx', 0) == 0:
                # struct literals name their fields too
                o['fields'] = [fa.get((o.get('adt'), str(i)), n) for i, n in enumerate(o['fields'])]
            for v in o.values():
                walk(v)
        elif isinstance(o, list):
            for v in o:
                walk(v)
    walk(raw['bodies'])


def ref_table():
    try:
        return json.load(open(TABLE))
    except Exception:
        return {}


def apply(txt, aliases):
    for new, old in sorted(aliases.items(), key=lambda kv: -len(kv[0])):
        txt = re.sub(r'(?<![A-Za-z0-9_])%s(?![A-Za-z0-9_])' % re.escape(new), old.replace('\\', '\\\\'), txt)
        # call sites print the path relative to the crate root as well as bare last segments in closures' parents
    return txt


if __name__ == '__main__':
    import sys
    sys.path.insert(0, os.path.dirname(os.path.abspath(__file__)))
    import extract
    tab = {}
    adts = {}
    for feat in ('default', 'serde', 'nostd'):
        for prof in ('rel', 'dbg'):
            try:
                d, info = extract.extract(feat, prof)
            except Exception as e:
                print('skip', feat, prof, e)
                continue
            txt = open(os.path.join(d, 'bigdecimal.json')).read()
            txt = re.sub(r'\b(?:core|alloc)::(?=[a-z_]+::|[A-Z])', 'std::', txt)
            raw_ = json.loads(txt)
            for k, v in table_of(raw_).items():
                tab.setdefault(k, v)
            for a, fs in adt_fields(raw_).items():
                adts.setdefault(a, {}).update(fs)
    tab['__adts__'] = adts
    try:
        d, info = extract.extract('default', 'rel')
        bs = json.load(open(os.path.join(d, 'build_script_build.json')))
        tab['__build__'] = sorted(b['name'] for b in bs['bodies'] if eligible(b))
    except Exception as e:
        print('build script table skipped:', e)
    json.dump(tab, open(TABLE, 'w'), indent=0, sort_keys=True)
    print('%d reference functions written to %s' % (len(tab), TABLE))
