#!/usr/bin/env python3
"""Negative tests for rules whose verdict on today's tree is a recorded finding: on a scratch copy of /repo with the
repair in /verif/repairs/<patch> applied, the check must no longer report that key (neither as violation nor as known
finding) and must exit 0.  usage: repairs.py"""
import json, os, shutil, subprocess, sys, tempfile

HERE = os.path.dirname(os.path.abspath(__file__))
VERIF = os.path.dirname(HERE)
REPO = os.environ.get('VERIF_SRC_REPO', os.environ.get('VERIF_REPO', '/repo'))


def main():
    idx = json.load(open(os.path.join(VERIF, 'repairs', 'index.json')))
    bad = 0
    for e in idx:
        tmp = tempfile.mkdtemp(prefix='repair-')
        try:
            dst = os.path.join(tmp, 'repo')
            subprocess.check_call(['rsync', '-a', '--exclude', 'target', '--exclude', '.git', REPO + '/', dst + '/'])
            p = subprocess.run(['patch', '-p1', '--no-backup-if-mismatch', '-s', '-i', os.path.join(VERIF, 'repairs', e['patch'])], cwd=dst, stdout=subprocess.PIPE, stderr=subprocess.STDOUT, text=True)
            if p.returncode != 0:
                print('BROKEN   %s: patch does not apply: %s' % (e['patch'], p.stdout[-200:]))
                bad += 1
                continue
            env = dict(os.environ, VERIF_REPO=dst, VERIF_EVIDENCE_DIR=os.path.join(tmp, 'ev'))
            r = subprocess.run([sys.executable, os.path.join(HERE, 'main.py'), e['property'], '--tier', 'quick'], cwd=VERIF, env=env, stdout=subprocess.PIPE, stderr=subprocess.STDOUT, text=True)
            if r.returncode != 0 or e['absent_key'] in r.stdout:
                print('ALARM    %s: %s still reported / exit %d on the repaired copy' % (e['patch'], e['absent_key'], r.returncode))
                bad += 1
            else:
                print('silent   %s' % e['patch'])
        finally:
            shutil.rmtree(tmp, ignore_errors=True)
    print(json.dumps({'total': len(idx), 'bad': bad}))
    return 1 if bad else 0


if __name__ == '__main__':
    sys.exit(main())
