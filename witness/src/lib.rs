//! Type-level witnesses for akubera/bigdecimal-rs (compile-only doc tests).
//!
//! Each `compile_fail,E0xxx` test is paired with a compiling twin (`no_run`) that differs only in
//! the offending line, so a witness that fails to compile for the wrong reason (bad path, missing
//! import) is exposed by its twin failing too.  Run with `cargo +nightly test --doc --offline`
//! (the stable toolchain ignores the error code).

/// C07 / C12: "for every precision from 1 upwards" -- a precision of zero is not expressible.
/// ```compile_fail,E0308
/// use bigdecimal::{Context, RoundingMode};
/// let _ctx = Context::new(0u64, RoundingMode::HalfEven); // precision is NonZeroU64
/// ```
/// ```no_run
/// use bigdecimal::{Context, RoundingMode};
/// let _ctx = Context::new(std::num::NonZeroU64::new(1).unwrap(), RoundingMode::HalfEven);
/// ```
pub struct W1ContextPrecisionIsNonZero;

/// C07: with_precision_round cannot be asked for zero digits either.
/// ```compile_fail,E0308
/// use bigdecimal::{BigDecimal, RoundingMode};
/// let x = BigDecimal::from(5);
/// let _y = x.with_precision_round(0u64, RoundingMode::Down);
/// ```
/// ```no_run
/// use bigdecimal::{BigDecimal, RoundingMode};
/// let x = BigDecimal::from(5);
/// let _y = x.with_precision_round(std::num::NonZeroU64::new(1).unwrap(), RoundingMode::Down);
/// ```
pub struct W2PrecisionRoundIsNonZero;

/// C18: the representation is reachable only through the accessors: fields are private ...
/// ```compile_fail,E0616
/// use bigdecimal::BigDecimal;
/// let x = BigDecimal::from(5);
/// let _s = x.scale; // private field
/// ```
/// ```no_run
/// use bigdecimal::BigDecimal;
/// let x = BigDecimal::from(5);
/// let _s = x.fractional_digit_count();
/// ```
pub struct W3FieldsArePrivate;

/// C18: ... and a decimal cannot be assembled from raw parts outside the crate.
/// ```compile_fail,E0451
/// use bigdecimal::BigDecimal;
/// let _x = BigDecimal { int_val: num_bigint::BigInt::from(5), scale: 0 };
/// ```
/// ```no_run
/// use bigdecimal::BigDecimal;
/// let _x = BigDecimal::new(num_bigint::BigInt::from(5), 0);
/// ```
pub struct W4NoRawConstruction;

/// C18: a reference view cannot observe a mutation of its owner ("reference views all agree").
/// ```compile_fail,E0506
/// use bigdecimal::BigDecimal;
/// let mut x = BigDecimal::from(5);
/// let r = x.to_ref();
/// x = BigDecimal::from(6);      // assignment while borrowed
/// let _ = r.sign();
/// ```
/// ```no_run
/// use bigdecimal::BigDecimal;
/// let mut x = BigDecimal::from(5);
/// let r = x.to_ref();
/// let _ = r.sign();
/// x = BigDecimal::from(6);
/// let _ = x;
/// ```
pub struct W5ViewFreezesOwner;

/// C18: a reference view cannot outlive the decimal it views.
/// ```compile_fail,E0597
/// use bigdecimal::BigDecimal;
/// let r;
/// {
///     let x = BigDecimal::from(5);
///     r = x.to_ref();
/// }
/// let _ = r.sign();
/// ```
/// ```no_run
/// use bigdecimal::BigDecimal;
/// let x = BigDecimal::from(5);
/// let r;
/// {
///     r = x.to_ref();
/// }
/// let _ = r.sign();
/// ```
pub struct W6ViewDoesNotOutliveOwner;

/// C01 / C19: an accumulator cannot be updated through a shared reference.
/// ```compile_fail,E0596
/// use bigdecimal::BigDecimal;
/// let acc = BigDecimal::from(5);
/// let r = &acc;
/// *r += 1;                      // `+=` needs &mut
/// ```
/// ```no_run
/// use bigdecimal::BigDecimal;
/// let mut acc = BigDecimal::from(5);
/// let r = &mut acc;
/// *r += 1;
/// ```
pub struct W7AssignNeedsUniqueAccess;
