#![feature(rustc_private)]
#![allow(unused)]
extern crate rustc_driver;
extern crate rustc_hir;
extern crate rustc_interface;
extern crate rustc_middle;
extern crate rustc_span;
extern crate rustc_abi;

use rustc_driver::Compilation;
use rustc_hir::def::DefKind;
use rustc_interface::interface::Compiler;
use rustc_middle::mir::{
    self, AggregateKind, AssertKind, BasicBlock, Body, Const, ConstValue, Operand, Place,
    ProjectionElem, Rvalue, StatementKind, TerminatorKind,
};
use rustc_middle::ty::{self, Ty, TyCtxt};
use rustc_middle::ty::print::PrintTraitRefExt;
use rustc_span::def_id::{DefId, LOCAL_CRATE};
use rustc_span::Span;
use std::fmt::Write as _;

fn esc(s: &str) -> String {
    let mut o = String::with_capacity(s.len() + 2);
    o.push('"');
    for c in s.chars() {
        match c {
            '"' => o.push_str("\\\""),
            '\\' => o.push_str("\\\\"),
            '\n' => o.push_str("\\n"),
            '\r' => o.push_str("\\r"),
            '\t' => o.push_str("\\t"),
            c if (c as u32) < 0x20 => {
                let _ = write!(o, "\\u{:04x}", c as u32);
            }
            c => o.push(c),
        }
    }
    o.push('"');
    o
}

struct Cx<'tcx> {
    tcx: TyCtxt<'tcx>,
    out_dir: Option<String>,
}

impl<'tcx> Cx<'tcx> {
    fn loc(&self, sp: Span) -> String {
        let sm = self.tcx.sess.source_map();
        let lo = sm.lookup_char_pos(sp.lo());
        let fname = format!("{}", lo.file.name.prefer_local_unconditionally());
        format!("{{\"file\":{},\"line\":{},\"col\":{},\"exp\":{}}}", esc(&fname), lo.line, lo.col.0 + 1, sp.from_expansion())
    }
    fn macro_chain(&self, sp: Span) -> String {
        let mut v = vec![];
        for e in sp.macro_backtrace() {
            v.push(esc(&format!("{}", e.kind.descr())));
            if v.len() > 6 { break; }
        }
        format!("[{}]", v.join(","))
    }
    fn in_out_dir(&self, did: DefId) -> bool {
        let sp = self.tcx.def_span(did);
        let sm = self.tcx.sess.source_map();
        let lo = sm.lookup_char_pos(sp.lo());
        let fname = format!("{}", lo.file.name.prefer_local_unconditionally());
        match &self.out_dir { Some(o) => fname.starts_with(o.as_str()), None => false }
    }
    fn ty(&self, t: Ty<'tcx>) -> String { esc(&format!("{}", t)) }

    fn place(&self, body: &Body<'tcx>, p: &Place<'tcx>) -> String {
        let mut s = format!("{{\"l\":{},\"p\":[", p.local.as_usize());
        let mut pty = mir::PlaceTy::from_ty(body.local_decls[p.local].ty);
        let mut first = true;
        for elem in p.projection.iter() {
            if !first { s.push(','); }
            first = false;
            match elem {
                ProjectionElem::Deref => s.push_str("\"*\""),
                ProjectionElem::Field(f, _) => {
                    let mut name = format!("{}", f.as_usize());
                    let mut adt_name = String::new();
                    if let ty::Adt(adt, _) = pty.ty.kind() {
                        adt_name = self.tcx.def_path_str(adt.did());
                        let vidx = pty.variant_index.unwrap_or(rustc_abi::FIRST_VARIANT);
                        if let Some(fd) = adt.variant(vidx).fields.get(f) { name = fd.name.to_string(); }
                    }
                    let _ = write!(s, "{{\"f\":{},\"n\":{},\"adt\":{}}}", f.as_usize(), esc(&name), esc(&adt_name));
                }
                ProjectionElem::Downcast(sym, v) => {
                    let n = sym.map(|x| x.to_string()).unwrap_or_default();
                    let _ = write!(s, "{{\"dc\":{},\"v\":{}}}", esc(&n), v.as_usize());
                }
                ProjectionElem::Index(l) => { let _ = write!(s, "{{\"idx\":{}}}", l.as_usize()); }
                other => { let _ = write!(s, "{{\"o\":{}}}", esc(&format!("{:?}", other))); }
            }
            pty = pty.projection_ty(self.tcx, elem);
        }
        let _ = write!(s, "],\"ty\":{}}}", self.ty(pty.ty));
        s
    }

    fn konst(&self, c: &mir::ConstOperand<'tcx>) -> String {
        let pretty = format!("{}", c);
        let ty = c.const_.ty();
        let mut s = format!("{{\"k\":\"const\",\"ty\":{},\"s\":{}", self.ty(ty), esc(&pretty));
        match c.const_ {
            Const::Unevaluated(uv, _) => {
                if let Some(p) = uv.promoted {
                    let _ = write!(s, ",\"promoted\":{}", p.as_usize());
                } else {
                    let _ = write!(s, ",\"named\":{},\"out_dir\":{}", esc(&self.tcx.def_path_str(uv.def)), self.in_out_dir(uv.def));
                }
            }
            _ => {}
        }
        if let ty::FnDef(did, args) = ty.kind() {
            let _ = write!(s, ",\"fn\":{},\"fn_def\":{}", esc(&self.tcx.def_path_str_with_args(*did, args)), esc(&self.tcx.def_path_str(*did)));
            let gas: Vec<String> = args.iter().map(|a| esc(&format!("{}", a))).collect();
            let _ = write!(s, ",\"fn_gargs\":[{}]", gas.join(","));
        }
        // scalar value
        if ty.is_integral() || ty.is_bool() || ty.is_char() {
            let env = ty::TypingEnv::fully_monomorphized();
            if let Some(sc) = c.const_.try_eval_scalar_int(self.tcx, env) {
                let size = sc.size();
                let bits = sc.to_bits(size);
                if ty.is_signed() {
                    let v = size.sign_extend(bits) as i128;
                    let _ = write!(s, ",\"int\":\"{}\"", v);
                } else {
                    let _ = write!(s, ",\"int\":\"{}\"", bits);
                }
            }
        }
        s.push('}');
        s
    }

    fn operand(&self, body: &Body<'tcx>, o: &Operand<'tcx>) -> String {
        match o {
            Operand::Copy(p) => format!("{{\"k\":\"copy\",\"pl\":{}}}", self.place(body, p)),
            Operand::Move(p) => format!("{{\"k\":\"move\",\"pl\":{}}}", self.place(body, p)),
            Operand::Constant(c) => self.konst(c),
            other => format!("{{\"k\":\"other\",\"s\":{}}}", esc(&format!("{:?}", other))),
        }
    }

    fn rvalue(&self, body: &Body<'tcx>, rv: &Rvalue<'tcx>) -> String {
        match rv {
            Rvalue::Use(o, _) => format!("{{\"r\":\"use\",\"op\":{}}}", self.operand(body, o)),
            Rvalue::Ref(_, bk, p) => format!("{{\"r\":\"ref\",\"mut\":{},\"pl\":{}}}", matches!(bk, mir::BorrowKind::Mut { .. }), self.place(body, p)),
            Rvalue::RawPtr(_, p) => format!("{{\"r\":\"rawptr\",\"pl\":{}}}", self.place(body, p)),
            Rvalue::Cast(k, o, t) => format!("{{\"r\":\"cast\",\"kind\":{},\"op\":{},\"to\":{}}}", esc(&format!("{:?}", k)), self.operand(body, o), self.ty(*t)),
            Rvalue::BinaryOp(op, ab) => format!("{{\"r\":\"bin\",\"bop\":{},\"a\":{},\"b\":{}}}", esc(&format!("{:?}", op)), self.operand(body, &ab.0), self.operand(body, &ab.1)),
            Rvalue::UnaryOp(op, a) => format!("{{\"r\":\"un\",\"uop\":{},\"a\":{}}}", esc(&format!("{:?}", op)), self.operand(body, a)),
            Rvalue::Discriminant(p) => format!("{{\"r\":\"discr\",\"pl\":{}}}", self.place(body, p)),
            Rvalue::CopyForDeref(p) => format!("{{\"r\":\"use\",\"op\":{{\"k\":\"copy\",\"pl\":{}}}}}", self.place(body, p)),
            Rvalue::Aggregate(k, fields) => {
                let kind = match &**k {
                    AggregateKind::Array(_) => "{\"a\":\"array\"}".to_string(),
                    AggregateKind::Tuple => "{\"a\":\"tuple\"}".to_string(),
                    AggregateKind::Adt(did, vidx, _, _, _) => {
                        let adt = self.tcx.adt_def(*did);
                        let v = adt.variant(*vidx);
                        let fnames: Vec<String> = v.fields.iter().map(|f| esc(&f.name.to_string())).collect();
                        format!("{{\"a\":\"adt\",\"adt\":{},\"variant\":{},\"vidx\":{},\"fields\":[{}]}}", esc(&self.tcx.def_path_str(*did)), esc(&v.name.to_string()), vidx.as_usize(), fnames.join(","))
                    }
                    AggregateKind::Closure(did, _) => format!("{{\"a\":\"closure\",\"def\":{}}}", esc(&self.tcx.def_path_str(*did))),
                    other => format!("{{\"a\":\"other\",\"s\":{}}}", esc(&format!("{:?}", other))),
                };
                let ops: Vec<String> = fields.iter().map(|o| self.operand(body, o)).collect();
                format!("{{\"r\":\"agg\",\"kind\":{},\"ops\":[{}]}}", kind, ops.join(","))
            }
            other => format!("{{\"r\":\"other\",\"s\":{}}}", esc(&format!("{:?}", other))),
        }
    }

    fn body(&self, did: DefId, body: &Body<'tcx>, promoted_of: Option<(DefId, usize)>) -> String {
        let tcx = self.tcx;
        let mut s = String::new();
        let name = match promoted_of { Some((p, i)) => format!("{}::promoted[{}]", tcx.def_path_str(p), i), None => tcx.def_path_str(did) };
        let _ = write!(s, "{{\"name\":{},\"kind\":{},\"span\":{},\"macros\":{},\"argc\":{}", esc(&name), esc(&format!("{:?}", tcx.def_kind(did))), self.loc(tcx.def_span(did)), self.macro_chain(tcx.def_span(did)), body.arg_count);
        if promoted_of.is_none() && matches!(tcx.def_kind(did), DefKind::Fn | DefKind::AssocFn) {
            let _ = write!(s, ",\"vis\":{}", esc(&format!("{:?}", tcx.visibility(did))));
        }
        // impl info
        if promoted_of.is_none() {
            if let Some(impl_did) = tcx.impl_of_assoc(did) {
                let self_ty = tcx.type_of(impl_did).instantiate_identity().skip_norm_wip();
                let _ = write!(s, ",\"impl_self\":{}", self.ty(self_ty));
                if let Some(tr) = tcx.impl_opt_trait_ref(impl_did) {
                    let tr = tr.instantiate_identity().skip_norm_wip();
                    let _ = write!(s, ",\"impl_trait\":{},\"impl_trait_def\":{}", esc(&format!("{}", tr.print_only_trait_path())), esc(&tcx.def_path_str(tr.def_id)));
                }
                let _ = write!(s, ",\"item\":{}", esc(&tcx.item_name(did).to_string()));
            }
        }
        // generic type parameters in scope (own + parents)
        {
            let mut groups: Vec<Vec<String>> = vec![];
            let mut g = Some(tcx.generics_of(did));
            while let Some(gen) = g {
                let mut own = vec![];
                for p in &gen.own_params {
                    if matches!(p.kind, ty::GenericParamDefKind::Type { .. }) { own.push(esc(&p.name.to_string())); }
                }
                groups.push(own);
                g = gen.parent.map(|p| tcx.generics_of(p));
            }
            groups.reverse();
            let names: Vec<String> = groups.into_iter().flatten().collect();
            let _ = write!(s, ",\"generics\":[{}]", names.join(","));
        }
        // locals
        s.push_str(",\"locals\":[");
        for (i, (_l, d)) in body.local_decls.iter_enumerated().enumerate() {
            if i > 0 { s.push(','); }
            s.push_str(&self.ty(d.ty));
        }
        s.push_str("],\"dbg\":{");
        let mut first = true;
        for vdi in &body.var_debug_info {
            if let mir::VarDebugInfoContents::Place(p) = &vdi.value {
                if p.projection.is_empty() {
                    if !first { s.push(','); }
                    first = false;
                    let _ = write!(s, "{}:{}", esc(&format!("{}", p.local.as_usize())), esc(&vdi.name.to_string()));
                }
            }
        }
        s.push_str("},\"blocks\":[");
        let typing_env = ty::TypingEnv::post_analysis(tcx, did);
        for (bi, (bb, data)) in body.basic_blocks.iter_enumerated().enumerate() {
            if bi > 0 { s.push(','); }
            let _ = write!(s, "{{\"id\":{},\"cleanup\":{},\"st\":[", bb.as_usize(), data.is_cleanup);
            let mut firsts = true;
            for st in &data.statements {
                let js = match &st.kind {
                    StatementKind::Assign(b) => {
                        let (pl, rv) = &**b;
                        Some(format!("{{\"s\":\"assign\",\"lhs\":{},\"rv\":{},\"line\":{}}}", self.place(body, pl), self.rvalue(body, rv), tcx.sess.source_map().lookup_char_pos(st.source_info.span.lo()).line))
                    }
                    StatementKind::SetDiscriminant { place, variant_index } => Some(format!("{{\"s\":\"setdiscr\",\"pl\":{},\"v\":{}}}", self.place(body, place), variant_index.as_usize())),
                    _ => None,
                };
                if let Some(js) = js {
                    if !firsts { s.push(','); }
                    firsts = false;
                    s.push_str(&js);
                }
            }
            s.push_str("],\"term\":");
            let term = data.terminator();
            let tl = self.loc(term.source_info.span);
            match &term.kind {
                TerminatorKind::Goto { target } => { let _ = write!(s, "{{\"t\":\"goto\",\"to\":{}}}", target.as_usize()); }
                TerminatorKind::SwitchInt { discr, targets } => {
                    let mut tv = vec![];
                    for (v, t) in targets.iter() { tv.push(format!("[\"{}\",{}]", v, t.as_usize())); }
                    let _ = write!(s, "{{\"t\":\"switch\",\"on\":{},\"targets\":[{}],\"otherwise\":{},\"loc\":{}}}", self.operand(body, discr), tv.join(","), targets.otherwise().as_usize(), tl);
                }
                TerminatorKind::Return => s.push_str("{\"t\":\"return\"}"),
                TerminatorKind::Unreachable => s.push_str("{\"t\":\"unreachable\"}"),
                TerminatorKind::UnwindResume => s.push_str("{\"t\":\"resume\"}"),
                TerminatorKind::UnwindTerminate(_) => s.push_str("{\"t\":\"terminate\"}"),
                TerminatorKind::Drop { place, target, .. } => { let _ = write!(s, "{{\"t\":\"drop\",\"pl\":{},\"to\":{}}}", self.place(body, place), target.as_usize()); }
                TerminatorKind::Call { func, args, destination, target, fn_span, .. } => {
                    let fty = func.ty(body, tcx);
                    let mut cal = String::new();
                    if let ty::FnDef(cdid, gargs) = fty.kind() {
                        let stat = tcx.def_path_str_with_args(*cdid, gargs);
                        let res = ty::Instance::try_resolve(tcx, typing_env, *cdid, gargs);
                        let (rs, rlocal, rdid) = match res {
                            Ok(Some(i)) => (tcx.def_path_str(i.def_id()), i.def_id().is_local(), Some(i.def_id())),
                            _ => (String::new(), false, None),
                        };
                        let mut trait_s = String::new();
                        if let Some(tr) = tcx.trait_of_assoc(*cdid) { trait_s = tcx.def_path_str(tr); }
                        let gas: Vec<String> = gargs.iter().map(|a| esc(&format!("{}", a))).collect();
                        let _ = write!(cal, "{{\"static\":{},\"def\":{},\"resolved\":{},\"local\":{},\"trait\":{},\"gargs\":[{}],\"krate\":{}}}",
                            esc(&stat), esc(&tcx.def_path_str(*cdid)), esc(&rs), rlocal, esc(&trait_s), gas.join(","), esc(&tcx.crate_name(cdid.krate).to_string()));
                    } else {
                        let _ = write!(cal, "{{\"indirect\":{}}}", self.operand(body, func));
                    }
                    let av: Vec<String> = args.iter().map(|a| self.operand(body, &a.node)).collect();
                    let tgt = match target { Some(t) => format!("{}", t.as_usize()), None => "null".into() };
                    let _ = write!(s, "{{\"t\":\"call\",\"callee\":{},\"args\":[{}],\"dest\":{},\"to\":{},\"loc\":{}}}", cal, av.join(","), self.place(body, destination), tgt, tl);
                }
                TerminatorKind::Assert { cond, expected, msg, target, .. } => {
                    let (kind, ops): (String, Vec<String>) = match &**msg {
                        AssertKind::Overflow(op, a, b) => (format!("Overflow:{:?}", op), vec![self.operand(body, a), self.operand(body, b)]),
                        AssertKind::OverflowNeg(a) => ("OverflowNeg".into(), vec![self.operand(body, a)]),
                        AssertKind::DivisionByZero(a) => ("DivisionByZero".into(), vec![self.operand(body, a)]),
                        AssertKind::RemainderByZero(a) => ("RemainderByZero".into(), vec![self.operand(body, a)]),
                        AssertKind::BoundsCheck { len, index } => ("BoundsCheck".into(), vec![self.operand(body, len), self.operand(body, index)]),
                        other => (format!("{:?}", other), vec![]),
                    };
                    let _ = write!(s, "{{\"t\":\"assert\",\"cond\":{},\"expected\":{},\"kind\":{},\"ops\":[{}],\"to\":{},\"loc\":{}}}", self.operand(body, cond), expected, esc(&kind), ops.join(","), target.as_usize(), tl);
                }
                other => { let _ = write!(s, "{{\"t\":\"other\",\"s\":{}}}", esc(&format!("{:?}", other))); }
            }
            s.push('}');
        }
        s.push_str("]}");
        s
    }
}

struct Cb;
impl rustc_driver::Callbacks for Cb {
    fn after_analysis<'tcx>(&mut self, _c: &Compiler, tcx: TyCtxt<'tcx>) -> Compilation {
        let krate = tcx.crate_name(LOCAL_CRATE).to_string();
        let want = std::env::var("BDFACTS_CRATES").unwrap_or("bigdecimal,build_script_build".into());
        if !want.split(',').any(|w| w == krate) { return Compilation::Continue; }
        let outdir = match std::env::var("BDFACTS_OUT") { Ok(o) => o, Err(_) => return Compilation::Continue };
        let cx = Cx { tcx, out_dir: std::env::var("OUT_DIR").ok() };
        let mut out = String::new();
        let _ = write!(out, "{{\"crate\":{},\"out_dir\":{},\"bodies\":[", esc(&krate), esc(&cx.out_dir.clone().unwrap_or_default()));
        let mut first = true;
        let mut consts = vec![];
        let mut enums: std::collections::BTreeMap<String, String> = std::collections::BTreeMap::new();
        for ldid in tcx.mir_keys(()) {
            let did = ldid.to_def_id();
            let kind = tcx.def_kind(did);
            match kind {
                DefKind::Fn | DefKind::AssocFn | DefKind::Closure => {
                    let body = tcx.optimized_mir(did);
                    for d in body.local_decls.iter() {
                        let mut t = d.ty;
                        loop {
                            match t.kind() {
                                ty::Ref(_, inner, _) => { t = *inner; }
                                _ => break,
                            }
                        }
                        if let ty::Adt(adt, _) = t.kind() {
                            if adt.is_enum() {
                                let name = tcx.def_path_str(adt.did());
                                if !enums.contains_key(&name) {
                                    let mut vs = vec![];
                                    for (vidx, discr) in adt.discriminants(tcx) {
                                        let v = adt.variant(vidx);
                                        vs.push(format!("{{\"name\":{},\"discr\":\"{}\",\"nfields\":{}}}", esc(&v.name.to_string()), discr.val, v.fields.len()));
                                    }
                                    enums.insert(name, format!("[{}]", vs.join(",")));
                                }
                            }
                        }
                    }
                    if !first { out.push(','); }
                    first = false;
                    out.push_str(&cx.body(did, body, None));
                    let proms = tcx.promoted_mir(did);
                    for (i, pb) in proms.iter_enumerated() {
                        out.push(',');
                        out.push_str(&cx.body(did, pb, Some((did, i.as_usize()))));
                    }
                }
                DefKind::Const { .. } | DefKind::AssocConst { .. } => {
                    let ty = tcx.type_of(did).instantiate_identity().skip_norm_wip();
                    let mut val = String::from("null");
                    if ty.is_integral() {
                        if let Ok(v) = tcx.const_eval_poly(did) {
                            if let Some(sc) = v.try_to_scalar_int() {
                                let size = sc.size();
                                let bits = sc.to_bits(size);
                                val = if ty.is_signed() { format!("\"{}\"", size.sign_extend(bits) as i128) } else { format!("\"{}\"", bits) };
                            }
                        }
                    }
                    consts.push(format!("{{\"name\":{},\"ty\":{},\"out_dir\":{},\"val\":{},\"span\":{}}}", esc(&tcx.def_path_str(did)), cx.ty(ty), cx.in_out_dir(did), val, cx.loc(tcx.def_span(did))));
                }
                _ => {}
            }
        }
        let es: Vec<String> = enums.iter().map(|(k, v)| format!("{}:{}", esc(k), v)).collect();
        let _ = write!(out, "],\"consts\":[{}],\"enums\":{{{}}}}}", consts.join(","), es.join(","));
        let path = format!("{}/{}.json", outdir, krate);
        std::fs::write(&path, out).expect("write facts");
        Compilation::Continue
    }
}

fn main() {
    let mut args: Vec<String> = std::env::args().collect();
    args.remove(1);
    rustc_driver::run_compiler(&args, &mut Cb);
}
