# ---- C20
m('c20-ctx-default-literal-precision', ['C20'], 'PROV-CTXDEFAULT', [
  ('src/context.rs', 'precision: NonZeroU64::new(DEFAULT_PRECISION).unwrap(),', 'precision: NonZeroU64::new(100).unwrap(),')],
  'Context::default hard-codes 100')
m('c20-div-literal-precision', ['C20'], 'impl_division:max_precision', [
  ('src/impl_ops_div.rs', """        let max_precision = DEFAULT_PRECISION;

        return impl_division(num_int.clone(), den_int, scale, max_precision);""", """        let max_precision = 100;

        return impl_division(num_int.clone(), den_int, scale, max_precision);""")],
  '&a / &b hard-codes 100 digits')
m('c20-round-literal-mode', ['C20'], 'BigDecimal::round->', [
  ('src/lib.rs', 'self.with_scale_round(round_digits, Context::default().rounding_mode())', 'self.with_scale_round(round_digits, RoundingMode::HalfEven)')],
  'round(n) hard-codes HalfEven')
m('c20-display-thresholds-swapped', ['C20'], ':thresholds', [
  ('src/impl_fmt.rs', """            *self,
            f,
            EXPONENTIAL_FORMAT_LEADING_ZERO_THRESHOLD,
            EXPONENTIAL_FORMAT_TRAILING_ZERO_THRESHOLD,""", """            *self,
            f,
            EXPONENTIAL_FORMAT_TRAILING_ZERO_THRESHOLD,
            EXPONENTIAL_FORMAT_LEADING_ZERO_THRESHOLD,""")],
  'Display for BigDecimalRef passes the thresholds in the wrong order')
m('c20-display-literal-20', ['C20'], 'Gt-lit', [
  ('src/impl_fmt.rs', 'integer_zero_count > EXPONENTIAL_FORMAT_TRAILING_ZERO_THRESHOLD {', 'integer_zero_count > 20 {')],
  'the original hard-coded notation threshold (fixed in ce8e298)')
m('c20-sqrt-literal-context', ['C20'], 'BigDecimal::sqrt->', [
  ('src/lib.rs', """    pub fn sqrt(&self) -> Option<BigDecimal> {
        self.sqrt_with_context(&Context::default())""", """    pub fn sqrt(&self) -> Option<BigDecimal> {
        self.sqrt_with_context(&Context::default().with_prec(100u64).unwrap())""")],
  'sqrt() pins the precision to 100')
m('c20-fmt-rounding-literal-mode', ['C20'], 'PROV-FMTROUND', [
  ('src/rounding.rs', """    pub fn default_with_sign(sign: Sign) -> Self {
        NonDigitRoundingData { sign, mode: RoundingMode::default() }""", """    pub fn default_with_sign(sign: Sign) -> Self {
        NonDigitRoundingData { sign, mode: RoundingMode::HalfEven }""")],
  'precision formatting hard-codes HalfEven')
m('c20-build-wrong-env-var', ['C20'], 'const:EXPONENTIAL_FORMAT_TRAILING_ZERO_THRESHOLD', [
  ('build.rs', 'let high_value = load_env!(env, "RUST_BIGDECIMAL_FMT_EXPONENTIAL_UPPER_THRESHOLD", FMT_EXPONENTIAL_UPPER_THRESHOLD);', 'let high_value = load_env!(env, "RUST_BIGDECIMAL_FMT_EXPONENTIAL_LOWER_THRESHOLD", FMT_EXPONENTIAL_UPPER_THRESHOLD);')],
  'build.rs reads the LOWER variable for the upper threshold')
m('c20-exp-literal-precision', ['C20'], 'with_prec:result', [
  ('src/lib.rs', 'return trimmed_result.with_prec(target_precision);', 'return trimmed_result.with_prec(100);')],
  'exp() pins the result precision to 100')
# ---- C08
m('c08-divassign-zero-silent', ['C08'], 'DivAssign<{int}> for BigDecimal>::div_assign:unguarded-return', [
  ('src/impl_ops.rs', """                if rhs.is_zero() {
                    panic!("Division by zero");
                } else if rhs.is_one() {""", """                if rhs.is_zero() {
                    *self = BigDecimal::zero()
                } else if rhs.is_one() {""")],
  'the original x /= 0 -> 0 defect (fixed in 730eb3c)')
m('c08-one-over-zero', ['C08'], 'Div<BigDecimal> for {int}>::div:unguarded-return', [
  ('src/impl_ops.rs', """            fn div(self, denom: BigDecimal) -> BigDecimal {
                if denom.is_zero() {
                    panic!("Division by zero");
                }
                if self.is_one() {""", """            fn div(self, denom: BigDecimal) -> BigDecimal {
                if self.is_one() {""")],
  'the original 1 / zero defect (fixed in 2a0e04b)')
m('c08-ref-kernel-zero-check-after-shortcut', ['C08'], 'Div<&BigDecimal> for &BigDecimal>::div', [
  ('src/impl_ops_div.rs', """    fn div(self, other: &BigDecimal) -> BigDecimal {
        if other.is_zero() {
            panic!("Division by zero");
        }
        // TODO: Fix setting scale
        if self.is_zero() || other.is_one() {
            return self.clone();
        }
""", """    fn div(self, other: &BigDecimal) -> BigDecimal {
        // TODO: Fix setting scale
        if self.is_zero() || other.is_one() {
            return self.clone();
        }
        if other.is_zero() {
            panic!("Division by zero");
        }
""")],
  '&0 / &0 returns 0: the zero-numerator shortcut is taken before the divisor test')
m('c08-bigint-divisor-shortcut', ['C08'], 'unguarded-return', [
  ('src/impl_ops.rs', """                if denom.is_one() {
                    self
                } else if denom.checked_neg().is_some_and(|n| n == 1) {""", """                if denom.is_one() || self.is_zero() {
                    self
                } else if denom.checked_neg().is_some_and(|n| n == 1) {""")],
  'x / 0 returns x when x is zero (primitive divisor forms)')
# ---- C02
m('c02-carry-overflow', ['C02'], 'check_equality_bigdecimal_ref|assert:Overflow:Add', [
  ('src/impl_cmp.rs', """                    let wide_b = match (next_b as u64).checked_mul(pow).and_then(|tmp| tmp.checked_add(carry)) {
                        Some(wide_b) => wide_b,
                        None => break,
                    };""", """                    let wide_b = match (next_b as u64).checked_mul(pow) {
                        Some(tmp) => tmp + carry,
                        None => break,
                    };""")],
  'the original u64 carry overflow (fixed in 3ce4acd)')
m('c02-split-at-guard-removed', ['C02'], 'guard-lost', [
  ('src/impl_cmp.rs', """    if trailing_zero_count > unscaled_digits.len() {
        return false;
    }
""", "")],
  'digit-wise equality slices past the end when the scale gap exceeds the digit count')
m('c02-cmp-unchecked-scale-diff', ['C02'], 'R-PANIC', [
  ('src/impl_cmp.rs', "if trailing_zero_count < 20 {\n        let pow = ten_to_the_u64(trailing_zero_count as u8);", "if trailing_zero_count < 25 {\n        let pow = ten_to_the_u64(trailing_zero_count as u8);")],
  'u64 power of ten overflows for gaps 20..24')
# ---- C03
m('c03-hash-unchecked-neg', ['C03'], 'R-PANIC', [
  ('src/lib.rs', 'dec_str.push_str(&"0".repeat(self.scale.abs() as usize));', 'dec_str.push_str(&"0".repeat((-self.scale) as usize + dec_str.len() - dec_str.len()));')],
  'new arithmetic on the hash path')
# ---- C05
m('c05-exponent-slice-off-by-one', ['C05'], 'R-PANIC', [
  ('src/impl_num.rs', "(base, i128::from_str(&e_exp[1..])?)", "(base, i128::from_str(&e_exp[2..])?)")],
  'panics on "1e" (slice start beyond the end)')
m('c05-empty-check-removed', ['C05'], 'R-PANIC', [
  ('src/impl_num.rs', """        if base_part.is_empty() {
            return Err(ParseBigDecimalError::Empty);
        }
""", "")],
  'panics on "" and "e5": len()-1 underflows')
# ---- C06
m('c06-floor-ceiling-swapped', ['C06'], 'round_pair:mode=', [
  ('src/rounding.rs', "(Floor,     _) => if sign == Sign::Minus { up } else { down },", "(Floor,     _) => if sign == Sign::Minus { down } else { up },")],
  'Floor rounds like Ceiling')
m('c06-halfeven-parity', ['C06'], 'round_pair:mode=HalfEven', [
  ('src/rounding.rs', "(HalfEven, Equal) => if lhs % 2 == 0 { down } else { up },", "(HalfEven, Equal) => if lhs % 2 == 0 { up } else { down },")],
  'ties go to odd')
m('c06-tie-ignores-tail', ['C06'], 'round_pair:mode=Half', [
  ('src/rounding.rs', "            (_,        Equal) if !trailing_zeros => up,\n", "")],
  '..5000..1 treated as a tie')
m('c06-exact-ignores-tail', ['C06'], 'round_pair:mode=', [
  ('src/rounding.rs', "if rhs == 0 && trailing_zeros {\n            return lhs;", "if rhs == 0 {\n            return lhs;")],
  'x.0000001 under Up treated as exact')
m('c06-lazy-flag-hint-wrong', ['C06'], 'needs_trailing_zeros:lazy-flag', [
  ('src/rounding.rs', "if matches!(self, HalfUp | HalfDown | HalfEven) {\n            insig_digit == 5", "if matches!(self, HalfUp | HalfDown | HalfEven | Up) {\n            insig_digit == 5")],
  'Up no longer asks for the tail when the digit is 0')
m('c06-halfdown-boundary', ['C06'], 'round_pair:mode=', [
  ('src/rounding.rs', "match (*self, rhs.cmp(&5)) {", "match (*self, rhs.cmp(&6)) {")],
  'half-way point moved to 6')
# ---- C14
m('c14-5pow149-word-typo', ['C14'], 'R-CONST', [
  ('src/parsing.rs', "3843013918, 3873995871, 858643596, 3706384338, 65604258", "3843013918, 3873995871, 858643569, 3706384338, 65604258")],
  'one digit transposed in the 5^149 table (only f32 subnormals are affected)')
m('c14-subnormal-scale-off-by-one', ['C14'], 'R-CONST', [
  ('src/parsing.rs', "let scale = 149;", "let scale = 148;")],
  'scale literal disagrees with the table')
m('c14-infinite-accepted', ['C14'], 'FpCategory::Infinite', [
  ('src/parsing.rs', """        Infinite => Err(ParseBigDecimalError::Other("Infinite".into())),
        Subnormal => Ok(parse_from_f64_subnormal(n)),""", """        Subnormal => Ok(parse_from_f64_subnormal(n)),
        Infinite => Ok(parse_from_f64(n)),""")],
  'f64 infinities converted as if finite')
m('c14-from-f64-bypasses-classifier', ['C14'], 'R-NOCALL', [
  ('src/impl_num.rs', """    fn from_f64(n: f64) -> Option<Self> {
        BigDecimal::try_from(n).ok()""", """    fn from_f64(n: f64) -> Option<Self> {
        Some(crate::parsing::parse_from_f64(n))""")],
  'FromPrimitive::from_f64 converts NaN')
# ---- C15
m('c15-negative-to-unsigned', ['C15'], 'to_u64:sign=Minus', [
  ('src/impl_num.rs', """    fn to_u64(&self) -> Option<u64> {
        match self.sign() {
            Sign::Plus if self.scale == 0 => self.digits.to_u64(),
            Sign::Plus => self.to_owned_with_scale(0).int_val.to_u64(),
            Sign::NoSign => Some(0),
            Sign::Minus => None,""", """    fn to_u64(&self) -> Option<u64> {
        match self.sign() {
            Sign::Plus | Sign::Minus if self.scale == 0 => self.digits.to_u64(),
            Sign::Plus => self.to_owned_with_scale(0).int_val.to_u64(),
            Sign::NoSign => Some(0),
            Sign::Minus => None,""")],
  '-5 (scale 0) converts to 5u64')
m('c15-owned-forwards-wrong-method', ['C15'], 'ToPrimitive for BigDecimal>::to_u128:forwards', [
  ('src/impl_num.rs', """    fn to_u128(&self) -> Option<u128> {
        self.to_ref().to_u128()""", """    fn to_u128(&self) -> Option<u128> {
        self.to_ref().to_u64().map(u128::from)""")],
  'owned to_u128 silently limited to u64 range')
m('c15-from-ref-int-wrong-scale', ['C15'], 'From<&i16> for BigDecimal>::from:projection', [
  ('src/impl_convert.rs', """                BigDecimal {
                    int_val: (*n).into(),
                    scale: 0,""", """                BigDecimal {
                    int_val: (*n).into(),
                    scale: 1,""")],
  'From<&int> divides by ten')
m('c15-to-bigint-rounds', ['C15'], 'to_bigint:projection', [
  ('src/impl_num.rs', "Some(self.with_scale(0).int_val)", "Some(self.with_scale_round(0, crate::RoundingMode::HalfUp).int_val)")],
  'to_bigint rounds instead of truncating')
m('c15-truncation-floors', ['C15'], 'R-NOCALL', [
  ('src/lib.rs', "                    self.digits / ten_to_the_uint(scale_diff)\n                }\n            }\n        };\n\n        BigDecimal {\n            scale: scale,\n            int_val: BigInt::from_biguint(self.sign, digits),", "                    num_integer::Integer::div_floor(&BigInt::from_biguint(self.sign, self.digits.clone()), &BigInt::from(ten_to_the_uint(scale_diff))).magnitude().clone()\n                }\n            }\n        };\n\n        BigDecimal {\n            scale: scale,\n            int_val: BigInt::from_biguint(self.sign, digits),")],
  'negative values floor for scale gaps >= 20')
# ---- C10 / C11 / C12
m('c10-sqrt-ignores-ctx-mode', ['C10'], 'impl_sqrt->BigDecimal::with_precision_round', [
  ('src/arithmetic/sqrt.rs', "unrounded_result.with_precision_round(ctx.precision(), ctx.rounding_mode())", "unrounded_result.with_precision_round(ctx.precision(), RoundingMode::HalfEven)")],
  'sqrt_with_context ignores the context rounding mode')
m('c10-sqrt-default-precision-in-impl', ['C10'], 'PROV-CTX', [
  ('src/arithmetic/sqrt.rs', "unrounded_result.with_precision_round(ctx.precision(), ctx.rounding_mode())", "unrounded_result.with_precision_round(Context::default().precision(), ctx.rounding_mode())")],
  'sqrt_with_context rounds to the default precision')
m('c10-ref-sqrt-negative-not-none', ['C10'], 'R-TABLE', [
  ('src/lib.rs', """            Minus => None,
            NoSign => Some(Zero::zero()),
            Plus => Some(arithmetic::sqrt::impl_sqrt(uint, scale, ctx)),""", """            NoSign => Some(Zero::zero()),
            Plus | Minus => Some(arithmetic::sqrt::impl_sqrt(uint, scale, ctx)),""")],
  'reference sqrt of a negative returns the root of |x|')
m('c11-cbrt-sign-hardcoded', ['C11'], 'R-SIGN', [
  ('src/arithmetic/cbrt.rs', """        sign: n.sign(),
        mode: ctx.rounding_mode(),""", """        sign: Sign::Plus,
        mode: ctx.rounding_mode(),""")],
  'cbrt rounds negative numbers as if positive (and loses the sign)')
m('c11-cbrt-ignores-ctx-precision', ['C11'], 'PROV-CTX', [
  ('src/arithmetic/cbrt.rs', "impl_cbrt_uint_scale((n.magnitude(), scale).into(), ctx.precision(), rounding_data)", "impl_cbrt_uint_scale((n.magnitude(), scale).into(), Context::default().precision(), rounding_data)")],
  'cbrt_with_context uses the default precision')
m('c11-cbrt-resign-flipped', ['C11'], 'R-SIGN', [
  ('src/arithmetic/cbrt.rs', "let result = BigInt::from_biguint(rounding_data.sign, result_digits);", "let result = BigInt::from_biguint(rounding_data.sign, result_digits).neg().neg().abs();")],
  'result re-signed with something other than the rounding sign')
m('c12-inverse-no-mirror', ['C12'], 'R-SIGN', [
  ('src/lib.rs', """        let mirrored_ctx;
        let ctx = match (self.sign(), ctx.rounding_mode()) {
            (Sign::Minus, RoundingMode::Floor) => {
                mirrored_ctx = ctx.with_rounding_mode(RoundingMode::Ceiling);
                &mirrored_ctx
            }
            (Sign::Minus, RoundingMode::Ceiling) => {
                mirrored_ctx = ctx.with_rounding_mode(RoundingMode::Floor);
                &mirrored_ctx
            }
            _ => ctx,
        };
""", "")],
  'the original sign-blind rounding of inverse (fixed in ade36ad)')
m('c12-inverse-mirror-wrong-sign', ['C12'], 'mirror-table', [
  ('src/lib.rs', "(Sign::Minus, RoundingMode::Ceiling) => {\n                mirrored_ctx = ctx.with_rounding_mode(RoundingMode::Floor);", "(Sign::Plus, RoundingMode::Ceiling) => {\n                mirrored_ctx = ctx.with_rounding_mode(RoundingMode::Floor);")],
  'Ceiling mirrored for positive numbers instead of negative ones')
m('c12-inverse-ignores-ctx-mode', ['C12'], 'PROV-CTX', [
  ('src/arithmetic/inverse.rs', "running_result.with_precision_round(ctx.precision(), ctx.rounding_mode())", "running_result.with_precision_round(ctx.precision(), RoundingMode::HalfUp)")],
  'inverse_with_context ignores the context mode')
# ---- C17
m('c17-option-adapter-no-limit', ['C17'], 'SIBLING-LIMIT', [
  ('src/impl_serde.rs', """                                     .transpose()?
                                     .map(|n: BigDecimal| {
                                         // enforce the same scale limit as `arbitrary_precision`
                                         if n.scale.checked_abs().map_or(true, |s| s > SERDE_SCALE_LIMIT) && SERDE_SCALE_LIMIT > 0 {
                                             let msg = format!("Calculated exponent '{}' out of bounds", -(n.scale as i128));
                                             Err(serde::de::Error::custom(msg))
                                         } else {
                                             Ok(n)
                                         }
                                     })
                                     .transpose()""", """                                     .transpose()""")],
  'the original missing scale limit in json_num_option (fixed in 828d656)')
m('c17-adapter-abs-overflow', ['C17'], 'R-PANIC', [
  ('src/impl_serde.rs', """        // checked_abs: i64::MIN has no absolute value and is certainly out of bounds
        if n.scale.checked_abs().map_or(true, |s| s > SERDE_SCALE_LIMIT) && SERDE_SCALE_LIMIT > 0 {
            let msg = format!("Calculated exponent '{}' out of bounds", -(n.scale as i128));""", """        if n.scale.abs() > SERDE_SCALE_LIMIT && SERDE_SCALE_LIMIT > 0 {
            let msg = format!("Calculated exponent '{}' out of bounds", -n.scale);""")],
  'the original abs()/neg overflow on scale i64::MIN (fixed in 0fabebf)')
m('c17-visit-str-through-f64', ['C17'], 'R-NOCALL', [
  ('src/impl_serde.rs', "BigDecimal::from_str(value).map_err(|err| E::custom(format!(\"{}\", err)))\n    }\n\n    fn visit_u64", "value.parse::<f64>().ok().and_then(|f| BigDecimal::try_from(f).ok()).or_else(|| BigDecimal::from_str(value).ok()).ok_or_else(|| E::custom(\"bad\"))\n    }\n\n    fn visit_u64")],
  'numeric strings take a detour through f64 when they parse as one')
m('c17-serialize-via-f64', ['C17'], 'R-FWD', [
  ('src/impl_serde.rs', "        serializer.collect_str(&self)", "        match num_traits::ToPrimitive::to_f64(self) { Some(f) if self.digits() < 15 => serializer.serialize_f64(f), _ => serializer.collect_str(&self) }")],
  'short decimals serialised as binary floats')
# ---- C04 / C16
m('c04-exponent-symbol-unparseable', ['C04'], 'ALPHABET', [
  ('src/impl_fmt.rs', """        let abs_int = self.digits.to_str_radix(10);
        format_exponential(*self, f, abs_int, "E")
    }
}


impl fmt::Debug""", """        let abs_int = self.digits.to_str_radix(10);
        format_exponential(*self, f, abs_int, "x10^")
    }
}


impl fmt::Debug""")],
  '{:E} prints 1.5x10^3, which the parser rejects')
m('c04-engineering-space', ['C04'], 'ALPHABET', [
  ('src/impl_fmt.rs', 'return out.write_str("0e0");', 'return out.write_str("0 e0");')],
  'zero renders with a space in one notation only')
m('c04-display-leading-threshold-literal', ['C04', 'C20'], ':thresholds', [
  ('src/impl_fmt.rs', """            self.to_ref(),
            f,
            EXPONENTIAL_FORMAT_LEADING_ZERO_THRESHOLD,""", """            self.to_ref(),
            f,
            5,""")],
  'owned Display hard-codes the lower threshold')
m('c16-format-sign-constant', ['C16'], 'pad_integral:is_nonnegative', [
  ('src/impl_fmt.rs', """    // write buffer to formatter
    f.pad_integral(non_negative, "", &buf)""", """    // write buffer to formatter
    f.pad_integral(true, "", &buf)""")],
  'negative numbers lose their sign when formatted in plain notation')
m('c16-width-changes-digits', ['C16'], 'FLAGS', [
  ('src/impl_fmt.rs', "        let target_scale = f.precision().and_then(|prec| prec.to_u64()).unwrap_or(scale);", "        let target_scale = f.precision().or(f.width()).and_then(|prec| prec.to_u64()).unwrap_or(scale);")],
  'a width without precision is (mis)used as precision: digits change')
m('c16-rounding-sign-dropped', ['C16', 'C20'], 'PROV-FMTROUND', [
  ('src/impl_fmt.rs', "let rounder = NonDigitRoundingData::default_with_sign(this.sign);", "let rounder = NonDigitRoundingData::default_with_sign(Sign::Plus);")],
  'precision formatting rounds negatives as positives (Floor/Ceiling defaults)')
# ---- C07
m('c07-round-decimal-ignores-mode', ['C07'], 'PROV-CTX', [
  ('src/context.rs', """    pub fn round_decimal(&self, n: BigDecimal) -> BigDecimal {
        n.with_precision_round(self.precision(), self.rounding_mode())""", """    pub fn round_decimal(&self, n: BigDecimal) -> BigDecimal {
        n.with_precision_round(self.precision(), RoundingMode::default())""")],
  'Context::round_decimal uses the global default mode instead of its own')
m('c07-add-refs-into-default-precision', ['C07'], 'PROV-CTX', [
  ('src/context.rs', "*dest = sum.with_precision_round(self.precision, self.rounding)", "*dest = sum.with_precision_round(Context::default().precision, self.rounding)")],
  'add_refs_into rounds to the default precision')
m('c07-precision-round-drops-mode', ['C07'], 'with_precision_round->BigDecimal::with_scale_round', [
  ('src/lib.rs', """                        .expect("precision overflow");

        self.with_scale_round(new_scale, round)
    }

    #[cfg(not(rustc_1_46))]""", """                        .expect("precision overflow");

        self.with_scale_round(new_scale, RoundingMode::HalfUp)
    }

    #[cfg(not(rustc_1_46))]""")],
  'with_precision_round ignores its rounding-mode argument')
m('c07-precision-unchecked-scale', ['C07'], 'with_precision_round', [
  ('src/lib.rs', """                        .and_then(|prec_diff| self.scale.checked_add(prec_diff))
                        .expect("precision overflow");

        self.with_scale_round(new_scale, round)
    }

    #[cfg(not(rustc_1_46))]""", """                        .map(|prec_diff| self.scale + prec_diff)
                        .expect("precision overflow");

        self.with_scale_round(new_scale, round)
    }

    #[cfg(not(rustc_1_46))]""")],
  'scale + (p - digits) computed with unchecked addition')
# ---- C18
m('c18-to-ref-wrong-scale', ['C18'], "From<&BigDecimal>>::from:projection", [
  ('src/lib.rs', """            sign: sign,
            digits: mag,
            scale: n.scale,""", """            sign: sign,
            digits: mag,
            scale: n.scale.abs(),""")],
  'reference view of a decimal with negative scale reports a positive one')
m('c18-as-bigint-and-exponent-negated', ['C18'], 'as_bigint_and_exponent:projection', [
  ('src/lib.rs', "    pub fn as_bigint_and_exponent(&self) -> (BigInt, i64) {\n        (self.int_val.clone(), self.scale)", "    pub fn as_bigint_and_exponent(&self) -> (BigInt, i64) {\n        (self.int_val.clone(), -self.scale)")],
  'accessor returns the exponent with the wrong sign convention')
m('c18-ref-to-owned-drops-sign', ['C18'], 'to_owned:projection', [
  ('src/lib.rs', """        BigDecimal {
            scale: self.scale,
            int_val: BigInt::from_biguint(self.sign, self.digits.clone()),
        }""", """        BigDecimal {
            scale: self.scale,
            int_val: BigInt::from_biguint(Sign::Plus, self.digits.clone()),
        }""")],
  'to_owned of a negative reference is positive')
m('c18-from-biguint-scale-ignored', ['C18'], 'from_biguint:projection', [
  ('src/lib.rs', "        BigDecimal::from_bigint(n, scale)\n    }", "        BigDecimal::from_bigint(n, scale.min(0))\n    }")],
  'constructor clamps the scale it is given')
# ---- C01 / C19 / C09 (R-SCALE)
m('c01-zero-shortcut-truncates', ['C01', 'C19'], 'add_bigdecimal_refs', [
  ('src/arithmetic/addition.rs', "let scale_diff = rhs.scale.saturating_sub(lhs.scale).max(0).min(15);\n        return lhs.to_owned_with_scale(lhs.scale + scale_diff);", "let scale_diff = rhs.scale.saturating_sub(lhs.scale).min(15);\n        return lhs.to_owned_with_scale(lhs.scale + scale_diff);")],
  '1.23 + 0 truncates to 1 when the zero has the smaller scale (passes all 11 addition literals)')
m('c01-mul-scale-subtracted', ['C01', 'C19'], 'Mul for BigDecimal>::mul', [
  ('src/impl_ops_mul.rs', "            self.scale += rhs.scale;\n            self.int_val *= rhs.int_val;\n            self\n        }\n    }\n}\n\nimpl<'a> Mul<&'a BigDecimal> for BigDecimal {", "            self.scale -= rhs.scale;\n            self.int_val *= rhs.int_val;\n            self\n        }\n    }\n}\n\nimpl<'a> Mul<&'a BigDecimal> for BigDecimal {")],
  'owned * owned subtracts the scales')
m('c01-sub-ref-owned-forgets-neg', ['C01'], 'Sub<BigDecimal> for BigDecimalRef', [
  ('src/impl_ops_sub.rs', """impl Sub<BigDecimal> for BigDecimalRef<'_> {
    type Output = BigDecimal;

    #[inline]
    fn sub(self, rhs: BigDecimal) -> BigDecimal {
        (rhs - self).neg()""", """impl Sub<BigDecimal> for BigDecimalRef<'_> {
    type Output = BigDecimal;

    #[inline]
    fn sub(self, rhs: BigDecimal) -> BigDecimal {
        (rhs - self)""")],
  'ref - owned returns owned - ref')
m('c01-addassign-int-scale-guard', ['C01', 'C19'], 'AddAssign<', [
  ('src/impl_ops.rs', """                if rhs == 0 {
                    // no-op
                } else if self.scale == 0 {
                    self.int_val += rhs;""", """                if rhs == 0 {
                    // no-op
                } else if self.scale <= 0 {
                    self.int_val += rhs;""")],
  'x += 5 adds 5 units of 10^k when x has a negative scale')
m('c01-subassign-forgets-scale', ['C01', 'C19'], 'SubAssign<T> for BigDecimal', [
  ('src/impl_ops_sub.rs', """                self.int_val *= ten_to_the((rhs.scale - self.scale) as u64);
                self.int_val -= rhs.to_owned().int_val;
                self.scale = rhs.scale;""", """                self.int_val *= ten_to_the((rhs.scale - self.scale) as u64);
                self.int_val -= rhs.to_owned().int_val;""")],
  'x -= &y keeps the old scale after rescaling the integer')
m('c01-mulassign-int-one-shortcut', ['C01', 'C19'], 'MulAssign<', [
  ('src/impl_ops.rs', """                if rhs.is_zero() {
                    *self = BigDecimal::zero()
                } else if rhs.is_one() {
                    // no-op""", """                if rhs.is_zero() {
                    *self = BigDecimal::zero()
                } else if rhs.is_one() {
                    *self = BigDecimal::one()""")],
  'x *= 1 sets x to 1 (only visible under the value fact rhs = 1)')
m('c01-mul-ref-one-wrong-scale', ['C01', 'C19'], 'Mul<&BigDecimal> for BigDecimal', [
  ('src/impl_ops_mul.rs', """        if self.is_one() {
            self.scale = rhs.scale;
            self.int_val.set_zero();
            self.int_val += &rhs.int_val;""", """        if self.is_one() {
            self.int_val.set_zero();
            self.int_val += &rhs.int_val;""")],
  '1.00 * &y keeps the scale of the one (2): value off by 10^(2 - scale(y))')
m('c01-subassign-exponent-reversed', ['C01', 'C19'], 'SubAssign for BigDecimal>::sub_assign', [
  ('src/impl_ops_sub.rs', "                rhs_int_val *= ten_to_the((self.scale - rhs.scale) as u64);", "                rhs_int_val *= ten_to_the((rhs.scale - self.scale) as u64);")],
  'negative exponent cast to u64')
m('c01-unaligned-args-not-swapped', ['C01', 'C19'], 'add_bigdecimal_refs', [
  ('src/arithmetic/addition.rs', """        Less => {
            add_unaligned_bigdecimal_ref_ref(rhs, lhs, ctx)""", """        Less => {
            add_unaligned_bigdecimal_ref_ref(lhs, rhs, ctx)""")],
  'helper precondition lhs.scale >= rhs.scale violated at one call site')
m('c01-half-odd-scale', ['C01', 'C19'], 'BigDecimal::half', [
  ('src/lib.rs', "                int_val: self.int_val.clone().mul(5u8),\n                scale: self.scale + 1,", "                int_val: self.int_val.clone().mul(5u8),\n                scale: self.scale,")],
  'half() of an odd unscaled integer is 5x too large')
m('c01-square-scale', ['C01', 'C19'], 'BigDecimal::square', [
  ('src/lib.rs', "                scale: self.scale * 2,", "                scale: self.scale + 2,")],
  'square() adds 2 to the scale instead of doubling it')
m('c01-set-scale-upward-divides', ['C01', 'C19', 'C09'], 'BigDecimal::set_scale', [
  ('src/lib.rs', """            (Ordering::Greater, scale_diff) => {
                self.scale = new_scale;
                if scale_diff < 20 {
                    self.int_val *= ten_to_the_u64(scale_diff as u8);
                } else {
                    self.int_val *= ten_to_the(scale_diff);""", """            (Ordering::Greater, scale_diff) => {
                self.scale = new_scale;
                if scale_diff < 20 {
                    self.int_val *= ten_to_the_u64(scale_diff as u8);
                } else {
                    self.int_val /= ten_to_the(scale_diff);""")],
  'rescaling upward by 20 or more digits divides instead of multiplying')
m('c01-mul-bigint-zero-shortcut', ['C01', 'C19'], 'R-SCALE', [
  ('src/impl_ops_mul.rs', """        } else if rhs.is_zero() {
            self.scale = 0;
            self.int_val.set_zero();
        } else if !self.is_zero() && !rhs.is_one() {""", """        } else if rhs.is_one() {
            self.scale = 0;
            self.int_val.set_zero();
        } else if !self.is_zero() && !rhs.is_zero() {""")],
  'x * &1.00 becomes zero')
# ---- C09
m('c09-rem-max-to-min', ['C09'], 'Rem<', [
  ('src/impl_ops_rem.rs', """    fn rem(self, other: &BigDecimal) -> BigDecimal {
        let scale = cmp::max(self.scale, other.scale);
        let num = self.take_and_scale(scale).int_val;""", """    fn rem(self, other: &BigDecimal) -> BigDecimal {
        let scale = cmp::min(self.scale, other.scale);
        let num = self.take_and_scale(scale).int_val;""")],
  'owned % &ref aligns downward: digits dropped')
m('c09-rem-refref-arms-swapped', ['C09'], 'Rem<&BigDecimal> for &BigDecimal', [
  ('src/impl_ops_rem.rs', """            Ordering::Less => {
                let scaled_num = num * ten_to_the((scale - self.scale) as u64);
                scaled_num % den
            }
            Ordering::Greater => {
                let scaled_den = den * ten_to_the((scale - other.scale) as u64);
                num % scaled_den
            }""", """            Ordering::Greater => {
                let scaled_num = num * ten_to_the((scale - self.scale) as u64);
                scaled_num % den
            }
            Ordering::Less => {
                let scaled_den = den * ten_to_the((scale - other.scale) as u64);
                num % scaled_den
            }""")],
  '&a % &b scales the wrong operand (exponent stays non-negative: 10^0)')
m('c09-rem-ref-owned-operands-swapped', ['C09'], 'Rem<BigDecimal> for &BigDecimal', [
  ('src/impl_ops_rem.rs', """            let scaled_num = num * ten_to_the((scale - self.scale) as u64);
            scaled_num % den
        };

        BigDecimal::new(result, scale)""", """            let scaled_num = num * ten_to_the((scale - self.scale) as u64);
            den % scaled_num
        };

        BigDecimal::new(result, scale)""")],
  '&a % b computes b % a in one branch')
m('c09-remassign-wrong-order', ['C09'], 'RemAssign', [
  ('src/impl_ops_rem.rs', "        let rem = (&*self).rem(other);", "        let rem = other.rem(&*self);")],
  'a %= b stores b % a')
# ---- C05 (radix / exponent clauses)
m('c05-radix-16-accepted', ['C05'], ':radix', [
  ('src/impl_num.rs', "        if radix != 10 {", "        if radix != 10 && radix != 16 {")],
  'hexadecimal strings are parsed as decimals with hex digits')
m('c05-exponent-wraps', ['C05'], 'exponent-range', [
  ('src/impl_num.rs', """        let scale = decimal_offset
                    .checked_sub(exponent_value)
                    .and_then(|scale| scale.to_i64())""", """        let scale = decimal_offset
                    .checked_sub(exponent_value)
                    .map(|scale| scale as i64)""")],
  'exponents beyond i64 wrap instead of erroring (1e9223372036854775808)')
# ---- C02 / C03 extra clauses
m('c02-owned-cmp-swapped', ['C02'], 'Ord for BigDecimal>::cmp:forwards', [
  ('src/impl_cmp.rs', "        self.to_ref().cmp(&other.to_ref())", "        other.to_ref().cmp(&self.to_ref())")],
  'owned cmp is reversed while the reference cmp is right')
m('c03-hash-raw-fields', ['C03'], 'HASH-FIELDS', [
  ('src/lib.rs', "        dec_str.hash(state);", "        dec_str.hash(state);\n        self.scale.hash(state);")],
  'scale also hashed: 1.0 and 1.00 collide no more')
# ---- C08 extra clauses
m('c08-int-divisor-two-shortcut-wrong', ['C08'], ':shortcuts', [
  ('src/impl_ops.rs', """                } else if denom.clone() == 2 {
                    self.half()
                } else if denom.checked_neg().is_some_and(|n| n == 2) {
                    self.half().neg()""", """                } else if denom.clone() == 2 {
                    self.half()
                } else if denom.checked_neg().is_some_and(|n| n == 2) {
                    self.half()""")],
  'x / -2 returns +x/2 for primitive integer divisors')
m('c08-float-divisor-minus-one', ['C08'], ':shortcuts', [
  ('src/impl_ops.rs', """                } else if denom == (-1.0 as $t) {
                    self.neg()
                } else if denom == (2.0 as $t) {""", """                } else if denom == (-1.0 as $t) {
                    self
                } else if denom == (2.0 as $t) {""")],
  'x / -1.0 returns x')
m('c08-int-numerator-as-cast', ['C08'], ':shortcuts', [
  ('src/impl_ops.rs', """                if self.is_one() {
                    denom.inverse()
                } else {
                    BigDecimal::from(self) / denom
                }""", """                if self.is_one() {
                    denom.inverse()
                } else {
                    BigDecimal::from(self as i64) / denom
                }""")],
  'u64/u128/i128 numerators are truncated through `as i64`')
m('c09-rem-modpow-shortcut', ['C09'], 'Rem<&BigDecimal> for &BigDecimal', [
  ('src/impl_ops_rem.rs', """            Ordering::Less => {
                let scaled_num = num * ten_to_the((scale - self.scale) as u64);
                scaled_num % den
            }""", """            Ordering::Less => {
                let ten_pow = BigInt::from(10).modpow(&BigInt::from((scale - self.scale) as u64), den);
                (num * ten_pow) % den
            }""")],
  'modular-exponentiation shortcut: modpow floors, so negative divisors give a wrong remainder')
m('c06-handwritten-mode-table', ['C06'], 'MODE-DISPATCH', [
  ('src/lib.rs', """                        let rounded_digit = mode.round_pair(sign, (0, 0), false);
                        BigInt::new(sign, vec![rounded_digit as u32])""", """                        let rounded_digit = match mode {
                            RoundingMode::Up => 1,
                            RoundingMode::Ceiling => if sign == Sign::Minus { 0 } else { 1 },
                            RoundingMode::Floor => if sign == Sign::Plus { 0 } else { 1 },
                            _ => 0u8,
                        };
                        BigInt::new(sign, vec![rounded_digit as u32])""")],
  'a correct-looking hand-written mode table in one branch of with_scale_round: any such table escapes the round_pair check')
m('c18-pow10-recursive-split', ['C18', 'C01'], 'ten_to_the_uint:returns-10^k', [
  ('src/arithmetic/mod.rs', "    let x8 = &x4 * &x4;\n    let res = &x8 * &x8;", "    let x8 = &x4 * &x4;\n    let res = &x8 * &x4;")],
  '10^k is wrong for every k >= 590 (x^12 instead of x^16): all operations with such scale gaps')
m('c18-pow10-boundary-remainder', ['C18', 'C01'], 'ten_to_the_uint:returns-10^k', [
  ('src/arithmetic/mod.rs', "    if rem == 0 {\n        res\n    } else {\n        res * 10u64.pow(rem as u32)", "    if rem <= 1 {\n        res\n    } else {\n        res * 10u64.pow(rem as u32)")],
  '10^k is ten times too small when k >= 590 and k % 16 == 1')
m('c07-with-prec-sign-blind', ['C07'], 'with_prec|get_rounding_term', [
  ('src/lib.rs', """                // round on the magnitude of the remainder, away from zero
                let r = r.abs();

                // check for "leading zero" in remainder term; otherwise round
                if p < 10 * &r {
                    if self.int_val.is_negative() {
                        q -= get_rounding_term(&r);
                    } else {
                        q += get_rounding_term(&r);
                    }
                }""", """                // check for "leading zero" in remainder term; otherwise round
                if p < 10 * &r {
                    q += get_rounding_term(&r);
                }""")],
  'the original sign-blind with_prec (fixed in b0f6569): negatives truncate')
m('c16-ascii-zero-confusion', ['C16'], 'UNITS', [
  ('src/impl_fmt.rs', "rounder, insig_digit, || trailing_digits.iter().all(|&d| d == b'0')\n            );\n\n            let rounded_digit = insig_data.round_digit(0);", "rounder, insig_digit, || trailing_digits.iter().all(Zero::is_zero)\n            );\n\n            let rounded_digit = insig_data.round_digit(0);")],
  "ASCII bytes tested with the numeric is_zero: the tail flag is never true, ties round up ({:.0} of 0.50 prints 1)")
# ---- C11 scale bookkeeping
m('c11-cbrt-residue-adjust-swapped', ['C11'], 'scale-bookkeeping', [
  ('src/arithmetic/cbrt.rs', """        Ordering::Greater => {
            new_scale += 1;
            exp_shift += (3 - remainder) as u64;
        }""", """        Ordering::Greater => {
            exp_shift += (3 - remainder) as u64;
        }""")],
  'scale not bumped when the shifted scale leaves a positive remainder mod 3: result off by a factor of ten for 2/3 of all scales')
m('c11-cbrt-residue-wrong-shift', ['C11'], 'scale-bookkeeping', [
  ('src/arithmetic/cbrt.rs', "            exp_shift += (3 - remainder) as u64;", "            exp_shift += (2 - remainder) as u64;")],
  'padding one digit short for positive residues')
m('c11-cbrt-trim-not-applied-to-scale', ['C11'], 'scale-bookkeeping', [
  ('src/arithmetic/cbrt.rs', "    new_scale -= digits_to_trim as i64;\n", "    new_scale -= digits_to_trim as i64 - 1;\n")],
  'scale adjusted by one digit too few after trimming')
# ---- C02 order table
m('c02-cmp-early-return-skips-sign', ['C02', 'C19'], 'order-table[', [
  ('src/impl_cmp.rs', "                res.reverse()\n            }\n        };", "                return res.reverse();\n            }\n        };")],
  'scale-overflow arm returns before the sign correction: negative operands with huge scale gaps ordered backwards')
m('c02-cmp-less-arm-not-reversed', ['C02'], 'order-table[', [
  ('src/impl_cmp.rs', "compare_scaled_biguints(other.digits, self.digits, scale_diff).reverse()", "compare_scaled_biguints(other.digits, self.digits, scale_diff)")],
  'swapped-operand comparison not reversed')
m('c02-cmp-less-arm-operands', ['C02'], 'order-table[', [
  ('src/impl_cmp.rs', "compare_scaled_biguints(other.digits, self.digits, scale_diff).reverse()", "compare_scaled_biguints(self.digits, other.digits, scale_diff)")],
  'smaller-scale operand scaled up instead of the larger-scale one')
m('c02-cmp-sign-correction-on-plus', ['C02'], 'order-table[', [
  ('src/impl_cmp.rs', "        if other.sign == Sign::Minus {\n            result.reverse()", "        if other.sign == Sign::Plus {\n            result.reverse()")],
  'magnitude order reversed for positive operands')
m('c02-checked-diff-wrong-order', ['C02'], 'checked_diff', [
  ('src/arithmetic/mod.rs', "        Less => (Less, _try_subtracting(b, a)),", "        Less => (Less, _try_subtracting(a, b)),")],
  'checked_diff subtracts larger from smaller: always None, digits ignored for self.scale < other.scale')
m('c02-eq-greater-arm-roles-swapped', ['C02'], 'eq-table[', [
  ('src/impl_cmp.rs', """        (Ordering::Greater, Some(scale_diff)) => {
            unscaled_int = lhs.digits;
            scaled_int = rhs.digits;""", """        (Ordering::Greater, Some(scale_diff)) => {
            unscaled_int = rhs.digits;
            scaled_int = lhs.digits;""")],
  'for scale(lhs) > scale(rhs) the wrong side is scaled up: 1.0 != 1')
m('c02-eq-scale-overflow-true', ['C02'], 'eq-table[', [
  ('src/impl_cmp.rs', """            // numbers must not be equal
            return false;""", """            // numbers must not be equal
            return true;""")],
  'scale gap beyond u64 reported equal')
m('c02-eq-different-signs-fallthrough', ['C02'], 'eq-table[', [
  ('src/impl_cmp.rs', "        (a, b) if a != b => return false,", "        (a, b) if a != b && a == Sign::NoSign => return false,")],
  'opposite non-zero signs fall through to the digit comparison: -1 == 1')
# ---- C06 the rounding rescale carries the requested scale
m('c06-round-early-return-keeps-scale', ['C06'], 'BigDecimal::round:carries-requested-scale', [
  ('src/lib.rs', "        self.with_scale_round(round_digits, Context::default().rounding_mode())", "        if round_digits >= self.scale {\n            return self.clone();\n        }\n        self.with_scale_round(round_digits, Context::default().rounding_mode())")],
  'round(n) returns the receiver unchanged when extending: scale is not the requested one')
m('c06-wsr-zero-keeps-old-scale', ['C06'], 'with_scale_round:carries-requested-scale', [
  ('src/lib.rs', """        use stdlib::cmp::Ordering::*;

        if self.int_val.is_zero() {
            return BigDecimal::new(BigInt::zero(), new_scale);""", """        use stdlib::cmp::Ordering::*;

        if self.int_val.is_zero() {
            return BigDecimal::new(BigInt::zero(), self.scale);""")],
  'zero keeps its old scale in with_scale_round')
m('c06-wsr-rounded-wrong-label', ['C06'], 'with_scale_round:carries-requested-scale', [
  ('src/lib.rs', "                BigDecimal::new(rounded_int, new_scale)", "                BigDecimal::new(rounded_int, new_scale + 1)")],
  'rounded integer labelled with the neighbouring scale')
# ---- C05 gateway
m('c05-parse-bytes-bypasses-radix-check', ['C05'], 'parse_bytes:only-through-from_str_radix', [
  ('src/lib.rs', "        stdlib::str::from_utf8(buf)\n                    .ok()", "        if buf.iter().all(u8::is_ascii_digit) {\n            return BigInt::parse_bytes(buf, radix).map(BigDecimal::from);\n        }\n\n        stdlib::str::from_utf8(buf)\n                    .ok()")],
  'digit-only byte strings are parsed in whatever radix was passed')
m('c05-from-str-integer-fast-path', ['C05'], 'from_str:only-through-from_str_radix', [
  ('src/impl_trait_from_str.rs', "        BigDecimal::from_str_radix(s, 10)", "        if let Ok(i) = s.parse::<BigInt>() {\n            return Ok(BigDecimal::from(i));\n        }\n        BigDecimal::from_str_radix(s, 10)")],
  'integers parsed by the big-integer grammar instead of the decimal grammar')
# ---- C14 IEEE-754 field extraction
m('c14-f64-subnormal-sign-shift-31', ['C14'], 'parse_from_f64_subnormal:magnitude', [
  ('src/parsing.rs', "    let frac = bits - (sign_bit << 63);", "    let frac = bits - (sign_bit << 31);")],
  'f32 shift constant pasted into the f64 subnormal routine: negative subnormals get a wrong magnitude')
m('c14-f32-mantissa-mask-22', ['C14'], 'split_f32_into_parts:mantissa', [
  ('src/parsing.rs', "    let frac = (bits & ((1 << 23) - 1)) + (1 << 23);", "    let frac = (bits & ((1 << 22) - 1)) + (1 << 23);")],
  'top mantissa bit dropped')
m('c14-f64-exponent-bias', ['C14'], 'split_f64_into_parts:exponent', [
  ('src/parsing.rs', "    let pow = exp as i64 - 1023 - 52;", "    let pow = exp as i64 - 1022 - 52;")],
  'bias off by one: every normal f64 doubled')
m('c14-f32-exponent-mask', ['C14'], 'split_f32_into_parts:exponent', [
  ('src/parsing.rs', "    let exp = (bits >> 23) & 0xFF;", "    let exp = (bits >> 23) & 0x7F;")],
  'top exponent bit dropped')
m('c14-f64-sign-polarity', ['C14'], 'split_f64_into_parts:sign', [
  ('src/parsing.rs', "    let sign_bit = bits & (1 << 63);\n    let sign = if sign_bit == 0 {\n        Sign::Plus\n    } else {\n        Sign::Minus\n    };", "    let sign_bit = bits & (1 << 63);\n    let sign = if sign_bit != 0 {\n        Sign::Plus\n    } else {\n        Sign::Minus\n    };")],
  'sign polarity inverted')
m('c14-f32-zero-test-includes-sign', ['C14'], 'parse_from_f32:zero-test', [
  ('src/parsing.rs', "    let bits = n.to_bits();\n\n    if (bits << 1) == 0 {\n        return Zero::zero();\n    }\n\n    // n = <sign> frac * 2^pow\n    let (frac, pow, sign) = split_f32_into_parts(n);", "    let bits = n.to_bits();\n\n    if bits == 0 {\n        return Zero::zero();\n    }\n\n    // n = <sign> frac * 2^pow\n    let (frac, pow, sign) = split_f32_into_parts(n);")],
  '-0.0 not recognised as zero: converted through the normal path as -2^-150')
# ---- C17 numeric visitors
m('c17-visit-f64-integer-fast-path', ['C17'], 'visit_f64:value-exact', [
  ('src/impl_serde.rs', """    fn visit_f64<E>(self, value: f64) -> Result<BigDecimal, E>
    where
        E: de::Error,
    {
""", """    fn visit_f64<E>(self, value: f64) -> Result<BigDecimal, E>
    where
        E: de::Error,
    {
        if value % 1.0 == 0.0 {
            return Ok(BigDecimal::from(value as i64));
        }
""")],
  'whole floats converted through a saturating `as i64` cast: 1e300 becomes i64::MAX')
m('c17-visit-f32-via-text', ['C17'], 'visit_f32:value-exact', [
  ('src/impl_serde.rs', """    fn visit_f32<E>(self, value: f32) -> Result<BigDecimal, E>
    where
        E: de::Error,
    {
        BigDecimal::try_from(value).map_err(|err| E::custom(format!("{}", err)))""", """    fn visit_f32<E>(self, value: f32) -> Result<BigDecimal, E>
    where
        E: de::Error,
    {
        value.to_string().parse::<BigDecimal>().map_err(|err| E::custom(format!("{}", err)))""")],
  'f32 converted through its shortest text: 0.1f32 becomes 0.1 instead of the exact binary value')
m('c17-visit-u64-as-i64', ['C17'], 'visit_u64:value-exact', [
  ('src/impl_serde.rs', """    fn visit_u64<E>(self, value: u64) -> Result<BigDecimal, E>
    where
        E: de::Error,
    {
        Ok(BigDecimal::from(value))""", """    fn visit_u64<E>(self, value: u64) -> Result<BigDecimal, E>
    where
        E: de::Error,
    {
        Ok(BigDecimal::from(value as i64))""")],
  'u64 above i64::MAX wraps negative')
# ---- C18 normalized()
m('c18-normalized-scale-raised', ['C18', 'C19'], 'normalized:strip', [
  ('src/lib.rs', "        let scale = self.scale - trailing_count as i64;", "        let scale = self.scale + trailing_count as i64;")],
  'scale moved the wrong way when zeros are stripped')
m('c18-normalized-counts-leading', ['C18'], 'normalized:strip', [
  ('src/lib.rs', "        let trailing_count = digits.iter().rev().take_while(|i| **i == 0).count();", "        let trailing_count = digits.iter().take_while(|i| **i == 0).count();")],
  'zeros counted from the most significant end: nothing is ever stripped')
m('c18-normalized-scale-not-adjusted', ['C18'], 'normalized:strip', [
  ('src/lib.rs', "        BigDecimal::new(int_val, scale)\n    }\n\n    //////////////////////////\n    // Formatting methods", "        let _ = scale;\n        BigDecimal::new(int_val, self.scale)\n    }\n\n    //////////////////////////\n    // Formatting methods")],
  'digits stripped but the scale kept')
m('c18-normalized-limb-fast-path', ['C18'], 'normalized:fast-path-limb-mod', [
  ('src/lib.rs', "        let (sign, mut digits) = self.int_val.to_radix_be(10);\n        let trailing_count", "        let low_word = self.int_val.iter_u64_digits().next().unwrap_or(0);\n        if low_word % 10 != 0 {\n            return self.clone();\n        }\n        let (sign, mut digits) = self.int_val.to_radix_be(10);\n        let trailing_count")],
  'last decimal digit inferred from the low 64-bit word (2^64 mod 10 = 6)')
# ---- C16 the padding limit bounds what is written
m('c16-limit-tested-on-integer-zeros-only', ['C16'], 'limit-bounds-fill', [
  ('src/impl_fmt.rs', "    if total_additional_zeros > FMT_MAX_INTEGER_PADDING {", "    if integer_zero_count > FMT_MAX_INTEGER_PADDING {")],
  'fraction zeros requested by {:.N} no longer count toward the padding limit')
m('c16-limit-tested-after-halving', ['C16'], 'limit-bounds-fill', [
  ('src/impl_fmt.rs', "    if total_additional_zeros > FMT_MAX_INTEGER_PADDING {", "    if total_additional_zeros / 2 > FMT_MAX_INTEGER_PADDING {")],
  'limit compared with half the amount written')
# ---- C04 / C16 move-then-clear
m('c04-plain-clear-wipes-moved-digits', ['C04'], 'clear-stops-before-moved-digits', [
  ('src/impl_fmt.rs', "            fill_slice(&mut digit_vec[..digit_count.min(leading_char_idx)], b'0');", "            fill_slice(&mut digit_vec[..digit_count], b'0');")],
  'plain notation: the zero fill reaches into the digits just shifted right (0.125 -> 0.005)')
m('c16-no-integer-clear-wipes-moved-digits', ['C16'], 'clear-stops-before-moved-digits', [
  ('src/impl_fmt.rs', "fill_slice(&mut digits_ascii_be[..sig_digit_count.min(sig_digit_idx)], b'0');", "fill_slice(&mut digits_ascii_be[..sig_digit_count], b'0');")],
  '{:.N} of a pure fraction: the zero fill overwrites moved significant digits')
# ---- C03 feeding shape
m('c03-negative-scale-streams-zeros', ['C03', 'C19'], 'same-call-sequence', [
  ('src/lib.rs', """        } else if scale < 0 && !zero {
            dec_str.push_str(&"0".repeat(self.scale.abs() as usize));
        }
        dec_str.hash(state);""", """        } else if scale < 0 && !zero {
            state.write(dec_str.as_bytes());
            let mut left = self.scale.abs() as usize;
            while left > 0 {
                let n = left.min(64);
                state.write(&[b'0'; 64][..n]);
                left -= n;
            }
            state.write_u8(0xff);
            return;
        }
        dec_str.hash(state);""")],
  'negative scales stream the zeros through several write calls: same bytes, different call sequence')
# ---- C07 with_prec tie rule
m('c07-with-prec-uses-default-mode', ['C07'], 'ties-away-from-zero-not-configurable', [
  ('src/lib.rs', """            Ordering::Greater => {
                let diff = digits - prec;
                let p = ten_to_the(diff);""", """            Ordering::Greater if false => unreachable!(),
            Ordering::Greater => {
                return self.with_scale_round(self.scale - (digits - prec) as i64, RoundingMode::default());
            }
            #[allow(unreachable_patterns)]
            Ordering::Greater => {
                let diff = digits - prec;
                let p = ten_to_the(diff);""")],
  'with_prec delegates to the configurable default mode (HalfEven by default): 12.5.with_prec(2) = 12')
m('c07-with-prec-halfeven-literal', ['C07'], 'ties-away-from-zero-not-configurable', [
  ('src/lib.rs', """            Ordering::Greater => {
                let diff = digits - prec;
                let p = ten_to_the(diff);""", """            Ordering::Greater if false => unreachable!(),
            Ordering::Greater => {
                return self.with_scale_round(self.scale - (digits - prec) as i64, RoundingMode::HalfEven);
            }
            #[allow(unreachable_patterns)]
            Ordering::Greater => {
                let diff = digits - prec;
                let p = ten_to_the(diff);""")],
  'with_prec delegates with a HalfEven literal')
# ---- C15 MIN boundary
m('c15-to-i64-wrapping-neg', ['C15'], 'to_i64:min-boundary', [
  ('src/impl_num.rs', """                self.digits.to_u64().and_then(
                    |d| match d.cmp(&(i64::MAX as u64 + 1)) {
                        Ordering::Less => Some((d as i64).neg()),
                        Ordering::Equal => Some(i64::MIN),
                        Ordering::Greater => None,
                    }
                )""", """                self.digits.to_u64().map(|d| (d as i64).wrapping_neg())""")],
  'negative magnitudes in (2^63, 2^64) wrap to positive i64 values')
m('c15-to-i128-boundary-off-by-one', ['C15'], 'to_i128:min-boundary', [
  ('src/impl_num.rs', "|d| match d.cmp(&(i128::MAX as u128 + 1)) {", "|d| match d.cmp(&(i128::MAX as u128)) {")],
  'i128 boundary compared against MAX instead of MAX+1: -i128::MAX maps to MIN')
m('c15-to-i64-greater-arm-casts', ['C15'], 'to_i64:min-boundary', [
  ('src/impl_num.rs', """                        Ordering::Equal => Some(i64::MIN),
                        Ordering::Greater => None,
                    }
                )
            }
            Sign::Plus | Sign::Minus => self.to_owned_with_scale(0).int_val.to_i64(),""", """                        Ordering::Equal => Some(i64::MIN),
                        Ordering::Greater => Some(d as i64),
                    }
                )
            }
            Sign::Plus | Sign::Minus => self.to_owned_with_scale(0).int_val.to_i64(),""")],
  'out-of-range negative magnitudes reinterpreted')
# ---- C02 scan gap
m('c02-cmp-tail-skips-pulled-digit', ['C02', 'C19'], 'no-skipped-element', [
  ('src/impl_cmp.rs', """            (Some(&ai), None) => {
                if ai == 0 && a_it.all(Zero::is_zero) {""", """            (Some(_), None) => {
                if a_it.all(Zero::is_zero) {""")],
  'the digit already pulled from a is not checked before the rest is scanned: a = b*10^s + d*10^(s-1) compares Equal')
# ---- C05 head of the numeral
m('c05-sign-after-point-accepted', ['C05'], 'sign-only-at-head', [
  ('src/impl_num.rs', """                if trail.starts_with(&['+', '-'][..]) {
                    return Err(ParseBigDecimalError::Other(
                        format!("Unexpected sign after decimal point in '{}'", s)));
                }
""", "")],
  'the repaired defect re-introduced: ".+5" parses as 0.05')
# ---- C04 numeral shape
m('c04-scientific-exponent-counts-all-digits', ['C04'], 'write_scientific_notation:point-and-exponent', [
  ('src/impl_fmt.rs', 'write!(w, "e{}", remaining_digits.len() as i128 - n.scale as i128)', 'write!(w, "e{}", dec_str.len() as i128 - n.scale as i128)')],
  'scientific notation exponent one too large for every value')
m('c04-engineering-exponent-fixed-shift', ['C04'], 'write_engineering_notation:point-and-exponent', [
  ('src/impl_fmt.rs', "    let exp = top_digit_exponent - shift_amount as i128;", "    let exp = top_digit_exponent - 3;")],
  'engineering exponent assumes three leading digits')
m('c04-exp-format-exponent-after-insert', ['C04'], 'format_exponential_bigendian_ascii_digits:point-and-exponent', [
  ('src/impl_fmt.rs', """    let exponent = abs_int.len() as i128 + exp - 1;

    if needs_decimal_point {
        // only add decimal point if there is more than 1 decimal digit
        abs_int.insert(1, '.');
    }
""", """    if needs_decimal_point {
        // only add decimal point if there is more than 1 decimal digit
        abs_int.insert(1, '.');
    }

    let exponent = abs_int.len() as i128 + exp - 1;
""")],
  '{:e} exponent computed after the point was inserted: off by one whenever a point is printed')
m('c04-exp-format-forgets-rounding-carry', ['C04', 'C16'], 'format_exponential_bigendian_ascii_digits:point-and-exponent', [
  ('src/impl_fmt.rs', "            exp += delta_exp as i128;\n", "            let _ = delta_exp;\n")],
  '{:.Ne}: digits removed by rounding are not added to the exponent')
m('c04-dotless-exponent-sign', ['C04'], 'format_dotless_exponential:point-and-exponent', [
  ('src/impl_fmt.rs', 'write!(abs_int, "{}{:+}", e_symbol, -scale).unwrap();', 'write!(abs_int, "{}{:+}", e_symbol, scale).unwrap();')],
  'dot-less exponent printed with the sign of the scale')
m('c04-format-exponential-passes-scale', ['C04'], 'format_exponential->format_exponential_bigendian_ascii_digits:exponent', [
  ('src/impl_fmt.rs', "    let exp = (this.scale as i128).neg();\n    let digits = abs_int.into_bytes();", "    let exp = this.scale as i128;\n    let digits = abs_int.into_bytes();")],
  'exponent handed to the digit formatter without negation')
# ---- C08 scale bookkeeping of impl_division
m('c08-division-loop-forgets-scale', ['C08'], 'impl_division:scale-bookkeeping', [
  ('src/lib.rs', "        precision += 1;\n        scale += 1;\n", "        precision += 1;\n")],
  'digits appended to the quotient without advancing the scale: every non-terminating quotient is too large')
m('c08-division-prescale-by-100', ['C08'], 'impl_division:scale-bookkeeping', [
  ('src/lib.rs', "        scale += 1;\n        num *= 10;", "        scale += 1;\n        num *= 100;")],
  'numerator shifted two digits per unit of scale when it is smaller than the denominator')
m('c08-division-remainder-not-shifted', ['C08'], 'impl_division:scale-bookkeeping', [
  ('src/lib.rs', "    remainder *= 10;\n\n    while !remainder.is_zero()", "    while !remainder.is_zero()")],
  'first remainder not shifted before the digit loop: the next quotient digit is computed one place too high')
m('c08-division-result-scale-off-by-one', ['C08'], 'impl_division:scale-bookkeeping', [
  ('src/lib.rs', "    let result = BigDecimal::new(quotient, scale);", "    let result = BigDecimal::new(quotient, scale + 1);")],
  'quotient labelled with the neighbouring scale')
m('c08-division-loop-remainder-not-shifted', ['C08'], 'impl_division:scale-bookkeeping', [
  ('src/lib.rs', "        remainder = r * 10;", "        remainder = r;")],
  'remainder not shifted inside the digit loop')
# ---- C14 direction of infinity
m('c14-to-f64-tiny-becomes-infinity', ['C14'], 'to_f64:infinity-only-on-overflow', [
  ('src/impl_num.rs', """                if scale > 0 {
                    // magnitude is far below the smallest subnormal: underflow to (signed) zero
                    return Some(copy_sign_to_float(0.0));
                }
""", "")],
  'the repaired defect re-introduced: 1e-3000000000 converts to infinity')
# ---- C06 positions of with_scale_round
m('c06-wsr-low-digit-index', ['C06'], 'with_scale_round:positions[round_pair[inside]]', [
  ('src/lib.rs', "let low_digit = digits[scale_diff - 1];", "let low_digit = digits[scale_diff];")],
  'the insignificant digit is read one place too high')
m('c06-wsr-tail-includes-insig-digit', ['C06'], 'with_scale_round:positions[round_pair[inside]]', [
  ('src/lib.rs', "digits[0..scale_diff-1].iter().all(Zero::is_zero)", "digits[0..scale_diff].iter().all(Zero::is_zero)")],
  'the tail flag also looks at the insignificant digit: x.50 is no longer seen as a tie')
m('c06-wsr-rebuild-from-wrong-index', ['C06'], 'with_scale_round:positions[rebuild[inside]]', [
  ('src/lib.rs', "BigInt::from_radix_le(sign, &digits[scale_diff..], 10).unwrap()", "BigInt::from_radix_le(sign, &digits[scale_diff + 1..], 10).unwrap()")],
  'result rebuilt one digit short')
m('c06-wsr-regime-test-sign', ['C06'], 'with_scale_round:positions[regime-test]', [
  ('src/lib.rs', "let rounded_int = match int_digit_count.cmp(&-new_scale) {", "let rounded_int = match int_digit_count.cmp(&new_scale) {")],
  'regime chosen by comparing with +new_scale')
# ---- C15 is_integer
m('c15-is-integer-quotient', ['C15'], 'is_integer:table[scale>0]', [
  ('src/lib.rs', "(self.int_val.clone() % ten_to_the(self.scale as u64)).is_zero()", "(self.int_val.clone() / ten_to_the(self.scale as u64)).is_zero()")],
  'integer part tested instead of the fractional part')
m('c15-is-integer-negative-scale-only', ['C15'], 'is_integer:table[', [
  ('src/lib.rs', "        if self.scale <= 0 {\n            true\n        } else {\n            (self.int_val.clone()", "        if self.scale <= 0 {\n            self.scale < 0\n        } else {\n            (self.int_val.clone()")],
  'scale 0 reported as non-integer')
# ---- C07 with_prec bookkeeping
m('c07-with-prec-scale-raised-when-dropping', ['C07'], 'with_prec:scale-bookkeeping', [
  ('src/lib.rs', "                    scale: self.scale - diff as i64,", "                    scale: self.scale + diff as i64,")],
  'digits dropped but the scale raised')
m('c07-with-prec-padding-keeps-scale', ['C07'], 'with_prec:scale-bookkeeping', [
  ('src/lib.rs', "                    int_val: &self.int_val * ten_to_the(diff),\n                    scale: self.scale + diff as i64,", "                    int_val: &self.int_val * ten_to_the(diff),\n                    scale: self.scale,")],
  'zeros appended without raising the scale: value multiplied by 10^diff')
# ---- C17 JSON grammar
m('c17-zero-padded-again', ['C17'], 'format_full_scale:zero-is-not-padded', [
  ('src/impl_fmt.rs', """        if this.sign != Sign::NoSign {
            exp = (this.scale as i128).neg();
        }
""", "        exp = (this.scale as i128).neg();\n")],
  'the repaired defect re-introduced: 0e1 prints as "00"')
# ---- C16 positions of the ASCII rounding routine
m('c16-round-ascii-wrong-sig-digit', ['C16'], 'round_ascii_digits:positions[rounded-digit]', [
  ('src/impl_fmt.rs', "    let rounding_digit_pos = significant_digit_count.get() - 1;\n    let sig_digit = sig_digits[rounding_digit_pos] - b'0';", "    let rounding_digit_pos = significant_digit_count.get() - 1;\n    let sig_digit = sig_digits[0] - b'0';")],
  'rounding decision taken on the first digit instead of the last kept digit (matters for HalfEven)')
m('c16-round-ascii-tail-includes-insig', ['C16'], 'round_ascii_digits:positions[tail-flag]', [
  ('src/impl_fmt.rs', "        rounder, insig_digit - b'0', || trailing_digits.iter().all(|&d| d == b'0')", "        rounder, insig_digit - b'0', || insig_digits.iter().all(|&d| d == b'0')")],
  'the tail flag also covers the insignificant digit: exact ties are no longer recognised')
m('c16-round-ascii-removed-count', ['C16'], 'round_ascii_digits:positions[removed-count]', [
  ('src/impl_fmt.rs', "    let mut removed_digit_count = insig_digits.len();", "    let mut removed_digit_count = insig_digits.len() + 1;")],
  'one digit too many reported as removed: exponent/scale off by one after rounding')
m('c16-round-ascii-digit-as-ascii', ['C16'], 'round_ascii_digits:positions[insignificant-digit]', [
  ('src/impl_fmt.rs', "        rounder, insig_digit - b'0', || trailing_digits.iter().all(|&d| d == b'0')", "        rounder, insig_digit, || trailing_digits.iter().all(|&d| d == b'0')")],
  'ASCII code handed to the rounding rule instead of the digit value')
# ---- C16 fixed-point bookkeeping
m('c16-fixed-point-uses-stale-scale', ['C16'], 'format_ascii_digits_with_integer_and_fraction:scale-bookkeeping', [
  ('src/impl_fmt.rs', "        let integer_digit_count = (digits_ascii_be.len() as u64 - digit_scale)", "        let integer_digit_count = (digits_ascii_be.len() as u64 - scale)")],
  'the point is placed with the scale from before the rounding')
m('c16-fixed-point-rounding-index', ['C16'], 'format_ascii_digits_with_integer_and_fraction:scale-bookkeeping', [
  ('src/impl_fmt.rs', "        let rounding_idx = NonZeroUsize::new(digits_ascii_be.len() - digit_count_to_remove)", "        let rounding_idx = NonZeroUsize::new(digits_ascii_be.len() - digit_count_to_remove + 1)")],
  'one digit too many kept before rounding')
m('c16-fixed-point-assumes-no-carry', ['C16'], 'format_ascii_digits_with_integer_and_fraction:scale-bookkeeping', [
  ('src/impl_fmt.rs', "                digit_scale -= scale_diff as u64;\n            }\n            Some(zeros_to_add) => {", "                digit_scale = target_scale;\n            }\n            Some(zeros_to_add) => {")],
  'scale after rounding assumed to be the target: wrong when a carry removes trailing nines (1.999 at {:.2})')
m('c16-fixed-point-one-zero-too-many', ['C16'], 'format_ascii_digits_with_integer_and_fraction:scale-bookkeeping', [
  ('src/impl_fmt.rs', "        let trailing_zero_count = (target_scale - digit_scale)\n", "        let trailing_zero_count = (target_scale - digit_scale + 1)\n")],
  'one padding zero too many')
# ---- C16 pure-fraction layout
m('c16-no-integer-dest-len', ['C16'], 'format_ascii_digits_no_integer:layout[', [
  ('src/impl_fmt.rs', "            let dest_len = target_scale as usize + 2;", "            let dest_len = target_scale as usize + 1;")],
  'output one byte short: the last requested digit is lost')
m('c16-no-integer-sig-count', ['C16'], 'format_ascii_digits_no_integer:layout[', [
  ('src/impl_fmt.rs', "    let leading_zeros = scale - digits_ascii_be.len() as u64;", "    let leading_zeros = scale - digits_ascii_be.len() as u64 + 1;")],
  'leading zeros over-counted by one: one significant digit too few is kept')
m('c16-no-integer-insig-digit-always-first', ['C16'], 'format_ascii_digits_no_integer:layout[insignificant-digit', [
  ('src/impl_fmt.rs', "            let (insig_digit, trailing_digits) = if intermediate_zeros > 0 {\n                (0, digits_ascii_be.as_slice())", "            let (insig_digit, trailing_digits) = if intermediate_zeros > 1 {\n                (0, digits_ascii_be.as_slice())")],
  'with one zero between the rounding point and the digits the first digit is taken as the insignificant digit')
m('c16-no-integer-trailing-zeros-from-scale', ['C16'], 'format_ascii_digits_no_integer:layout[digits-destination]', [
  ('src/impl_fmt.rs', "            let trailing_zeros = target_scale - digit_scale;", "            let trailing_zeros = target_scale - scale.min(target_scale);")],
  'trailing zero count computed from the scale before rounding: digits land one place too far left after a carry')
# ---- limb modulus
m('c03-hash-trim-guarded-by-limb-mod', ['C03'], 'limb-modulus', [
  ('src/lib.rs', "        let zero = self.int_val.is_zero();\n        if scale > 0 && !zero {", "        let zero = self.int_val.is_zero();\n        let ends_in_zero = self.int_val.iter_u64_digits().next().map_or(false, |lo| lo % 10 == 0);\n        if scale > 0 && !zero && ends_in_zero {")],
  'trailing-zero trimming skipped when the low 64-bit word is not a multiple of 10: 1 and 1.000...0 (21 zeros) hash differently')
# ---- C12 operand exactness, C07 round once, C16 sticky before rounding
m('c12-inverse-operand-clipped', ['C12'], 'operand-reaches-iteration-unrounded', [
  ('src/arithmetic/inverse.rs', "    let s = BigDecimal::new(BigInt::from_biguint(Sign::Plus, n.clone()), scale);", "    let s = BigDecimal::new(BigInt::from_biguint(Sign::Plus, n.clone()), scale).with_prec(max_precision + 2);")],
  'operand rounded to p+2 digits before the Newton iteration: exact reciprocals of long operands go wrong under directed modes')
m('c07-precision-round-truncates-first', ['C07'], 'with_precision_round:rounds-once', [
  ('src/lib.rs', "                        .expect(\"precision overflow\");\n\n        self.with_scale_round(new_scale, round)\n    }\n\n    #[cfg(not(rustc_1_46))]", "                        .expect(\"precision overflow\");\n\n        if self.scale.saturating_sub(new_scale) > 8 {\n            return self.with_scale(new_scale + 8).with_scale_round(new_scale, round);\n        }\n        self.with_scale_round(new_scale, round)\n    }\n\n    #[cfg(not(rustc_1_46))]")],
  'long tails are truncated to 8 guard digits before rounding: 12.5000000001 rounds as an exact tie')
m('c16-exp-format-truncates-before-rounding', ['C16'], 'format_exponential_bigendian_ascii_digits:point-and-exponent', [
  ('src/impl_fmt.rs', "            let delta_exp = round_ascii_digits(&mut digits, target_scale, rounder);", "            let dropped = digits.len() - (total_prec + 1);\n            digits.truncate(total_prec + 1);\n            let delta_exp = round_ascii_digits(&mut digits, target_scale, rounder) + dropped;")],
  '{:.Ne}: digits beyond the first dropped one are cut off before rounding: 1.2501 prints as 1.2e+0')
# ---- powers of ten fit their integer type
m('c11-multiply-by-ten-pow-20', ['C11', 'C18', 'C01'], 'POW-FITS', [
  ('src/arithmetic/mod.rs', "    let pow = pow.to_u64().expect(\"exponent overflow error\");\n    if pow < 20 {", "    let pow = pow.to_u64().expect(\"exponent overflow error\");\n    if pow <= 20 {")],
  '10u64.pow(20) overflows when cbrt pads exactly 20 zeros')
m('c01-ten-to-the-uint-fast-path-21', ['C01', 'C18'], 'POW-FITS', [
  ('src/arithmetic/mod.rs', "pub(crate) fn ten_to_the_uint(pow: u64) -> BigUint {\n    if pow < 20 {", "pub(crate) fn ten_to_the_uint(pow: u64) -> BigUint {\n    if pow < 21 {")],
  'u64 fast path of ten_to_the_uint taken for 10^20')
m('c01-half-by-div-rem-sign', ['C01', 'C19'], 'BigDecimal::half', [
  ('src/lib.rs', """        } else if self.int_val.is_even() {
            BigDecimal {
                int_val: self.int_val.clone().div(2u8),
                scale: self.scale,
            }
        } else {
            BigDecimal {
                int_val: self.int_val.clone().mul(5u8),
                scale: self.scale + 1,
            }
        }""", """        } else {
            let (quotient, remainder) = self.int_val.div_rem(&BigInt::from(2u8));
            if remainder.is_zero() {
                BigDecimal { int_val: quotient, scale: self.scale }
            } else {
                BigDecimal { int_val: quotient * 10u8 + 5u8, scale: self.scale + 1 }
            }
        }""")],
  'half() through a truncating div_rem: the appended 5 has the wrong sign for negative odd coefficients')
# ---- kernel gateways / division kernel table
m('c12-inverse-bypasses-mirror', ['C12', 'C20'], 'impl_inverse_uint_scale:callers', [
  ('src/lib.rs', "    pub fn inverse(&self) -> BigDecimal {\n        self.inverse_with_context(&Context::default())", "    pub fn inverse(&self) -> BigDecimal {\n        if self.is_zero() || self.is_one() {\n            return self.clone();\n        }\n        let ctx = Context::default();\n        let result = arithmetic::inverse::impl_inverse_uint_scale(self.int_val.magnitude(), self.scale, &ctx);\n        result.take_with_sign(self.sign())")],
  'inverse() calls the magnitude kernel itself: Floor/Ceiling are not mirrored for negative operands under a directed default mode')
m('c08-ref-kernel-magnitude-shortcut', ['C08'], 'kernel-table', [
  ('src/impl_ops_div.rs', "        if num_int == den_int {", "        if num_int.magnitude() == den_int.magnitude() {")],
  '&-x / &x returns +1')
# ---- digit counting
m('c18-count-digits-single-correction', ['C18', 'C07'], 'count_decimal_digits_uint:checked-after-last-update', [
  ('src/arithmetic/mod.rs', "    while *uint >= num {\n        num *= 10u8;\n        digits += 1;\n    }", "    if *uint >= num {\n        num *= 10u8;\n        digits += 1;\n    }")],
  'digit estimate corrected once instead of in a loop')
m('c18-count-digits-out-of-step', ['C18', 'C07'], 'count_decimal_digits_uint:num-is-ten-to-the-digits', [
  ('src/arithmetic/mod.rs', "        num *= 10u8;\n        digits += 1;", "        num *= 100u8;\n        digits += 1;")],
  'num multiplied by 100 per counted digit')
# ---- C15 capacity boundary of the sign tables
m('c15-to-i128-early-none-38', ['C15'], 'to_i128:sign=Plus,scale=-38', [
  ('src/impl_num.rs', "            Sign::Plus | Sign::Minus => self.to_owned_with_scale(0).int_val.to_i128(),", "            Sign::Plus | Sign::Minus if self.scale <= -38 => None,\n            Sign::Plus | Sign::Minus => self.to_owned_with_scale(0).int_val.to_i128(),")],
  'values with scale -38 are declared out of range although 1e38 fits an i128')

# ---- root kernels: parity of the shifted scale, sticky digit, exactness flag (defects repaired in 7a92e02 / 47aa332 / e37acb7)
m('c10-sqrt-parity-original', ['C10'], 'root-shape[parity]', [
  ('src/arithmetic/sqrt.rs', """    let exponent = shift + u64::from((i128::from(scale) + i128::from(shift)).is_odd());""",
   """    let exponent = shift + u64::from(scale_diff.is_odd());""")],
  'the original parity correction (digit count - scale): sqrt(4.00000000000000000000) at p=5 gives 6.3246 (fixed in 7a92e02)')
m('c10-sqrt-parity-ignores-shift', ['C10'], 'root-shape[parity]', [
  ('src/arithmetic/sqrt.rs', """    let exponent = shift + u64::from((i128::from(scale) + i128::from(shift)).is_odd());""",
   """    let exponent = shift + u64::from(i128::from(scale).is_odd());""")],
  'parity correction from the scale alone: wrong whenever the padding is odd')
m('c10-sqrt-parity-even-test', ['C10'], 'root-shape[parity]', [
  ('src/arithmetic/sqrt.rs', """    let exponent = shift + u64::from((i128::from(scale) + i128::from(shift)).is_odd());""",
   """    let exponent = shift + u64::from((i128::from(scale) + i128::from(shift)).is_even());""")],
  'parity correction inverted')
m('c10-sqrt-sticky-original', ['C10'], 'radicand-exactness', [
  ('src/arithmetic/sqrt.rs', """    if &sqrt_digits * &sqrt_digits != radicand {
        // the root is inexact: a sticky digit below the guard digits keeps
        // an all-zero (or exactly-half) tail from being rounded as if exact
        sqrt_digits = sqrt_digits * 10u8 + 1u8;
    }
""", """    let _ = &mut sqrt_digits;
""")],
  'the original: floor root rounded on its own (fixed in 47aa332)')
m('c10-sqrt-sticky-inverted', ['C10'], 'root-shape[sticky]', [
  ('src/arithmetic/sqrt.rs', """    if &sqrt_digits * &sqrt_digits != radicand {""", """    if &sqrt_digits * &sqrt_digits == radicand {""")],
  'sticky digit appended to exact roots instead of inexact ones')
m('c10-sqrt-sticky-digit-zero', ['C10'], 'root-shape[sticky]', [
  ('src/arithmetic/sqrt.rs', """        sqrt_digits = sqrt_digits * 10u8 + 1u8;""", """        sqrt_digits = sqrt_digits * 10u8 + 0u8;""")],
  'the appended digit is zero: carries no information')
m('c10-sqrt-sticky-wrong-operand', ['C10'], 'radicand-exactness', [
  ('src/arithmetic/sqrt.rs', """    if &sqrt_digits * &sqrt_digits != radicand {""", """    if &sqrt_digits * &sqrt_digits != *n {""")],
  'root squared compared with the unshifted operand')
m('c10-sqrt-sticky-after-count', ['C10'], 'root-shape[counted]', [
  ('src/arithmetic/sqrt.rs', """    if &sqrt_digits * &sqrt_digits != radicand {
        // the root is inexact: a sticky digit below the guard digits keeps
        // an all-zero (or exactly-half) tail from being rounded as if exact
        sqrt_digits = sqrt_digits * 10u8 + 1u8;
    }
""", """    let inexact = &sqrt_digits * &sqrt_digits != radicand;
"""),
  ('src/arithmetic/sqrt.rs', """    result_scale += count_decimal_digits_uint(&sqrt_digits).saturating_sub(prec);
""", """    result_scale += count_decimal_digits_uint(&sqrt_digits).saturating_sub(prec);
    if inexact {
        sqrt_digits = sqrt_digits * 10u8 + 1u8;
    }
""")],
  'sticky digit appended after the digits were counted for the scale: result ten times too large')
m('c11-cbrt-exact-flag-original', ['C11'], 'root-shape[exact-flag]', [
  ('src/arithmetic/cbrt.rs', """            trailing_digits.iter().all(Zero::is_zero) && root_digits.pow(3u32) == *integer_digits""",
   """            trailing_digits.iter().all(Zero::is_zero)""")],
  'the original: flag from the trimmed digits alone (fixed in e37acb7)')
m('c11-cbrt-exact-flag-or', ['C11'], 'root-shape[exact-flag]', [
  ('src/arithmetic/cbrt.rs', """            trailing_digits.iter().all(Zero::is_zero) && root_digits.pow(3u32) == *integer_digits""",
   """            trailing_digits.iter().all(Zero::is_zero) || root_digits.pow(3u32) == *integer_digits""")],
  'flag is a disjunction')
m('c11-cbrt-exact-flag-square', ['C11'], 'root-shape[exact-flag]', [
  ('src/arithmetic/cbrt.rs', """root_digits.pow(3u32) == *integer_digits""", """root_digits.pow(2u32) == *integer_digits""")],
  'square instead of cube in the exactness test')
m('c11-cbrt-exact-flag-negated', ['C11'], 'root-shape[exact-flag]', [
  ('src/arithmetic/cbrt.rs', """root_digits.pow(3u32) == *integer_digits""", """root_digits.pow(3u32) != *integer_digits""")],
  'exactness test negated')
m('c04-sci-zero-literal-original', ['C04'], 'point-and-exponent[zero]', [
  ('src/impl_fmt.rs', """pub(crate) fn write_scientific_notation<W: Write>(n: &BigDecimal, w: &mut W) -> fmt::Result {
""", """pub(crate) fn write_scientific_notation<W: Write>(n: &BigDecimal, w: &mut W) -> fmt::Result {
    if n.is_zero() {
        return w.write_str("0e0");
    }

""")],
  'the original: every zero written as "0e0" in scientific notation (fixed in 8616111)')
m('c02-eq-zip-length-only-lt', ['C02', 'C03', 'C19'], 'ZIP-LENGTH', [
  ('src/impl_cmp.rs', """    if overlap_digits.len() != scaled_digits.len() {""", """    if overlap_digits.len() < scaled_digits.len() {""")],
  'digit-wise equality guarded by a one-sided length test: a proper prefix compares equal')
m('c14-to-f64-division-fast-path', ['C14'], 'FLOAT-PATH', [
  ('src/impl_num.rs', """            Some(exp) => {
                // format decimal as floating point and let the default parser generate the f64""", """            Some(pow) if -15 <= pow => {
                let f = int_cow.to_f64().map(copy_sign_to_float)?;
                (f / powi(10.0, -pow)).into()
            }
            Some(exp) => {
                // format decimal as floating point and let the default parser generate the f64""")],
  'to_f64 divides the converted integer by a power of ten for small positive scales: double rounding')
m('c01-mulassign-negate-shortcut-on-unsigned', ['C01', 'C19'], 'MulAssign<u', [
  ('src/impl_ops.rs', """                } else if rhs.is_one() {
                    // no-op
                } else {
                    *self *= BigDecimal::from(rhs);""", """                } else if rhs.is_one() {
                    // no-op
                } else if rhs.wrapping_neg().is_one() {
                    let int_val = stdlib::mem::replace(&mut self.int_val, BigInt::zero());
                    self.int_val = -int_val;
                } else {
                    *self *= BigDecimal::from(rhs);""")],
  '*= -1 shortcut written with wrapping_neg in a macro that is also instantiated for unsigned types (MAX.wrapping_neg() == 1)')
m('c15-is-integer-small-magnitude-fast-path', ['C15'], 'BigDecimal::is_integer:table', [
  ('src/lib.rs', """        if self.scale <= 0 {
            true
        } else {
            (self.int_val.clone() % ten_to_the(self.scale as u64)).is_zero()""", """        if self.scale <= 0 {
            true
        } else if self.digits() < self.scale as u64 {
            false
        } else {
            (self.int_val.clone() % ten_to_the(self.scale as u64)).is_zero()""")],
  'is_integer answers false when there are fewer digits than fraction places: wrong for zero (digits() == 1)')
m('c15-is-integer-one-digit-fast-path', ['C15'], 'BigDecimal::is_integer:table', [
  ('src/lib.rs', """        if self.scale <= 0 {
            true
        } else {
            (self.int_val.clone() % ten_to_the(self.scale as u64)).is_zero()""", """        if self.scale <= 0 {
            true
        } else if self.digits() > self.scale as u64 + 2 {
            true
        } else {
            (self.int_val.clone() % ten_to_the(self.scale as u64)).is_zero()""")],
  'is_integer answers true for every value with more digits than fraction places plus two (e.g. 12.3)')

# ---- defects that arrive together with a new helper function (the checks see the helper inlined: inline.py)
m('c10-sqrt-parity-defect-in-new-helper', ['C10'], 'root-shape[parity]', [
  ('src/arithmetic/sqrt.rs', """    let exponent = shift + u64::from((i128::from(scale) + i128::from(shift)).is_odd());""",
   """    let exponent = padded_exponent(shift, &scale_diff);"""),
  ('src/arithmetic/sqrt.rs', """#[cfg(test)]
mod test {""", """/// zeros to append so that the integer root has enough digits
fn padded_exponent(shift: u64, scale_diff: &BigInt) -> u64 {
    if scale_diff.is_odd() { shift + 1 } else { shift }
}

#[cfg(test)]
mod test {""")],
  'the original parity defect, hidden in an extracted helper')
m('c08-div-guard-helper-checks-numerator', ['C08'], 'unguarded-return', [
  ('src/impl_ops_div.rs', """    fn div(self, other: BigDecimal) -> BigDecimal {
        if other.is_zero() {
            panic!("Division by zero");
        }""", """    fn div(self, other: BigDecimal) -> BigDecimal {
        assert_divisible(&self, &other);"""),
  ('src/impl_ops_div.rs', """impl Div<BigDecimal> for BigDecimal {""", """#[inline]
fn assert_divisible(num: &BigDecimal, _den: &BigDecimal) {
    if num.is_zero() && _den.is_zero() {
        panic!("Division by zero");
    }
}

impl Div<BigDecimal> for BigDecimal {""")],
  'zero-divisor guard moved into a helper that only panics for 0/0')
m('c02-eq-slow-path-helper-weak-length-guard', ['C02', 'C03', 'C19'], 'ZIP-LENGTH', [
  ('src/impl_cmp.rs', """    let scaled_digits = scaled_int.to_radix_le(10);

    // different lengths with trailing zeros
    if overlap_digits.len() != scaled_digits.len() {
        return false;
    }

    // return true if all digits are the same
    overlap_digits.iter().zip(scaled_digits.iter()).all(|(digit_a, digit_b)| digit_a == digit_b)
}""", """    let scaled_digits = scaled_int.to_radix_le(10);
    same_digits(overlap_digits, &scaled_digits)
}

fn same_digits(overlap_digits: &[u8], scaled_digits: &[u8]) -> bool {
    if overlap_digits.len() > scaled_digits.len() {
        return false;
    }
    overlap_digits.iter().zip(scaled_digits.iter()).all(|(digit_a, digit_b)| digit_a == digit_b)
}""")],
  'digit comparison extracted into a helper whose length guard is one-sided')
