#!/usr/bin/env python3
"""Generates canaries/*.patch from (file, old, new) edits against /repo's current tree.
Each canary is a realistic defect that compiles; `expect` is a substring of the violation key."""
import difflib, os, sys
REPO = os.environ.get('VERIF_REPO', '/repo')
HERE = os.path.dirname(os.path.abspath(__file__))
M = []


def m(name, props, expect, edits, note=''):
    M.append((name, props, expect, edits, note))


exec(open(os.path.join(HERE, 'mutants.py')).read())

bad = 0
wanted = {m_[0] + '.patch' for m_ in M}
for f_ in os.listdir(HERE):
    if f_.endswith('.patch') and f_ not in wanted and not f_.startswith('h-'):      # h-*.patch are copies of seeded/<id>/patch.diff with a header, not generated from mutants.py
        os.remove(os.path.join(HERE, f_))
for name, props, expect, edits, note in M:
    out = ['# property: %s' % ','.join(props)]
    for e in ([expect] if isinstance(expect, str) else expect):
        out.append('# expect: %s' % e)
    if note:
        out.append('# note: %s' % note)
    ok = True
    byfile = {}
    for f, old, new in edits:
        src = byfile.get(f)
        if src is None:
            src = open(os.path.join(REPO, f)).read()
        if src.count(old) != 1:
            print('!! %s: anchor occurs %d times in %s' % (name, src.count(old), f))
            ok = False
            break
        byfile[f] = src.replace(old, new)
    if not ok:
        bad += 1
        continue
    for f, new_src in byfile.items():
        a = open(os.path.join(REPO, f)).read().splitlines(True)
        b = new_src.splitlines(True)
        out.append(''.join(difflib.unified_diff(a, b, 'a/' + f, 'b/' + f)).rstrip('\n'))
    with open(os.path.join(HERE, name + '.patch'), 'w') as fh:
        fh.write('\n'.join(out) + '\n')
print('%d canaries written, %d anchors failed' % (len(M) - bad, bad))
